#!/bin/sh
# Run once after a fresh restore, offline. Warms Verus and pre-builds saito-core's test build with the
# replay hooks on (so later replay runs are incremental). Nothing is written under /tmp or /repo.
set -e
cd "$(dirname "$0")"
mkdir -p build/gen evidence replays
export CARGO_NET_OFFLINE=true
python3 -c "
import sys; sys.path.insert(0,'.')
from vf import gen
g = gen.generate('ringitem'); open('build/gen/ringitem.rs','w').write(g.text())"
verus build/gen/ringitem.rs >/dev/null 2>&1 || true
( cd /repo && RUSTFLAGS="--cfg saito_verif --cfg tokio_unstable --check-cfg cfg(saito_verif)" CARGO_TARGET_DIR=/verif/build/target \
  cargo test -p saito-core --lib --offline --no-run >/verif/build/setup_cargo.log 2>&1 ) || { tail -30 build/setup_cargo.log; exit 1; }
echo "setup ok"
