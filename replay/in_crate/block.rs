// Replay / extraction-validation module for block.rs (compiled only under --cfg saito_verif in the test build)
#[allow(unused_imports)]
use super::*;
include!("/verif/replay/in_crate/common.rs");
use crate::core::util::test::test_manager::test::TestManager;
use crate::core::consensus::blockchain::AddBlockResult;

/// C01: a block carrying a user transaction whose signature does not verify must be rejected by block validation
#[tokio::test]
#[serial_test::serial]
async fn sweep_rejects_invalid_tx() {
    let mut t = TestManager::default();
    t.initialize(100, 200_000_000_000_000).await;
    let (block1_hash, ts) = { let bc = t.blockchain_lock.read().await; let b = bc.get_latest_block().unwrap(); (b.hash, b.timestamp) };
    let mut block2 = t.create_block(block1_hash, ts + 120000, 1, 1000, 0, true).await;
    let private_key = { t.wallet_lock.read().await.private_key };
    // forge: flip one bit of the user transaction's signature, then let the (honest-looking) producer re-commit and re-sign the block
    let idx = block2.transactions.iter().position(|tx| tx.transaction_type == TransactionType::Normal).expect("a normal tx");
    block2.transactions[idx].signature[5] ^= 0x40;
    let still_valid = { let bc = t.blockchain_lock.read().await; block2.transactions[idx].validate(&bc.utxoset, &bc, true) };
    assert!(!still_valid, "the forged transaction must fail Transaction::validate");
    block2.merkle_root = [0; 32];
    block2.generate().unwrap();
    block2.sign(&private_key);
    block2.generate().unwrap();
    let h = block2.hash;
    let res = t.add_block(block2).await;
    let tip = { t.blockchain_lock.read().await.get_latest_block_hash() };
    if tip == h || matches!(res, AddBlockResult::BlockAddedSuccessfully(..)) {
        witness(format!("block with a transaction whose signature does not verify (Transaction::validate == false) was accepted as the new tip: add_block → {:?}", res));
    }
}

fn decode_guarded(buf: &[u8]) -> Result<bool, String> {
    let b = buf.to_vec();
    let prev = std::panic::take_hook();
    std::panic::set_hook(Box::new(|_| {}));
    let r = std::panic::catch_unwind(move || Block::deserialize_from_net(&b).is_ok());
    std::panic::set_hook(prev);
    r.map_err(|e| e.downcast_ref::<String>().cloned().or_else(|| e.downcast_ref::<&str>().map(|s| s.to_string())).unwrap_or_default())
}

/// C10: Block::deserialize_from_net is total (truncations, count corruptions, random)
#[test]
fn decoder_total() {
    let mut rng = Rng::from_env();
    for _ in 0..60 {
        let mut b = Block::new();
        b.id = rng.edge_u64(); b.timestamp = rng.edge_u64(); b.previous_block_hash = rng.arr(); b.creator = rng.arr(); b.merkle_root = rng.arr(); b.signature = rng.arr();
        b.burnfee = rng.edge_u64(); b.treasury = rng.edge_u64();
        for _ in 0..rng.below(3) {
            let mut tx = Transaction::default();
            let dl = rng.below(20) as usize; tx.data = rng.bytes(dl);
            for _ in 0..rng.below(3) { let mut s = Slip::default(); s.amount = rng.edge_u64(); s.public_key = rng.arr(); tx.from.push(s); }
            for _ in 0..rng.below(3) { let mut s = Slip::default(); s.amount = rng.edge_u64(); s.public_key = rng.arr(); tx.to.push(s); }
            b.transactions.push(tx);
        }
        let enc = b.serialize_for_net(BlockType::Full);
        let d = Block::deserialize_from_net(&enc).unwrap_or_else(|_| witness("valid block encoding rejected".into()));
        if d.id != b.id || d.timestamp != b.timestamp || d.previous_block_hash != b.previous_block_hash || d.creator != b.creator || d.merkle_root != b.merkle_root
            || d.signature != b.signature || d.burnfee != b.burnfee || d.treasury != b.treasury || d.transactions.len() != b.transactions.len() { witness("block header does not round trip".into()); }
        if d.serialize_for_net(BlockType::Full) != enc { witness("block re-encoding differs".into()); }
        for cut in 0..enc.len() { if let Err(p) = decode_guarded(&enc[..cut]) { witness(format!("Block::deserialize_from_net panicked on a {}-byte truncation of a {}-byte block: {}", cut, enc.len(), p)); } }
        for v in [0u32, 1, 2, 255, 256, 0x7fffffff, 0xffffffff] {
            let mut c = enc.clone(); c[0..4].copy_from_slice(&v.to_be_bytes());
            if let Err(p) = decode_guarded(&c) { witness(format!("Block::deserialize_from_net panicked with transaction count {}: {}", v, p)); }
            if enc.len() >= 389 + 16 { for f in 0..4 { let mut c = enc.clone(); c[389 + 4 * f..389 + 4 * f + 4].copy_from_slice(&v.to_be_bytes()); if let Err(p) = decode_guarded(&c) { witness(format!("Block::deserialize_from_net panicked with first-tx length field {} = {}: {}", f, v, p)); } } }
        }
    }
}

/// C06: changing, adding, removing or reordering any transaction after signing makes the block unacceptable
#[tokio::test]
#[serial_test::serial]
async fn stripped_transaction_is_rejected() {
    let mut t = TestManager::default();
    t.initialize(100, 200_000_000_000_000).await;
    let (block1_hash, ts) = { let bc = t.blockchain_lock.read().await; let b = bc.get_latest_block().unwrap(); (b.hash, b.timestamp) };
    // an honest block: golden ticket + two zero-fee payments
    let mut block2 = t.create_block(block1_hash, ts + 120000, 2, 1000, 0, true).await;
    block2.generate().unwrap();
    let signed_hash = block2.hash;
    let signed_root = block2.merkle_root;
    assert!(signed_root != [0; 32]);
    // in transit, somebody strips one of the payments; header, signature and hash are untouched
    let idx = block2.transactions.iter().position(|tx| tx.transaction_type == TransactionType::Normal).expect("a normal tx");
    block2.transactions.remove(idx);
    let wire = block2.serialize_for_net(BlockType::Full);
    let mut received = Block::deserialize_from_net(&wire).unwrap();
    received.generate().unwrap();
    assert_eq!(received.hash, signed_hash, "same identity");
    assert!(received.generate_merkle_root(false, false) != signed_root, "the carried transactions no longer match the signed commitment");
    let res = t.add_block(received).await;
    let tip = { t.blockchain_lock.read().await.get_latest_block_hash() };
    if tip == signed_hash {
        witness(format!("a block whose transaction list was altered after signing (one payment stripped; merkle_root in the signed header no longer matches the transactions carried) was accepted under the original hash: add_block → {:?}", res));
    }
}

/// C18: the lite block carries the same id / hash / signature / header, every transaction touching a listed key verbatim,
/// and placeholders whose replacement counts account for every omitted transaction; its merkle root equals the full one
#[test]
fn lite_block_contract() {
    let mut rng = Rng::from_env();
    let keys: Vec<SaitoPublicKey> = (0..4).map(|i| [i as u8 + 1; 33]).collect();
    for round in 0..300 {
        let mut b = Block::new();
        b.id = 5; b.timestamp = rng.next(); b.previous_block_hash = rng.arr(); b.creator = rng.arr(); b.signature = rng.arr(); b.hash = rng.arr(); b.burnfee = rng.next(); b.treasury = rng.next();
        let n = rng.below(12) as usize;
        for i in 0..n {
            let mut tx = Transaction::default();
            tx.timestamp = i as u64; tx.signature = rng.arr();
            let mut s = Slip::default(); s.public_key = keys[rng.below(4) as usize]; s.amount = 1 + rng.below(9); tx.from.push(s);
            let mut o = Slip::default(); o.public_key = keys[rng.below(4) as usize]; o.amount = 1; tx.to.push(o);
            if rng.below(2) == 0 { let mut o2 = Slip::default(); o2.public_key = keys[rng.below(4) as usize]; o2.amount = 2; tx.to.push(o2); }   // payment + change
            if rng.below(7) == 0 { tx.transaction_type = TransactionType::GoldenTicket; }
            tx.generate_hash_for_signature();
            b.transactions.push(tx);
        }
        b.merkle_root = b.generate_merkle_root(false, false);
        let watch: Vec<SaitoPublicKey> = keys.iter().filter(|_| rng.below(3) == 0).cloned().collect();
        let lite = b.generate_lite_block(watch.clone());
        let desc = format!("round {}: {} txs, {} watched keys", round, n, watch.len());
        if lite.id != b.id || lite.hash != b.hash || lite.signature != b.signature || lite.creator != b.creator || lite.previous_block_hash != b.previous_block_hash
            || lite.timestamp != b.timestamp || lite.burnfee != b.burnfee || lite.treasury != b.treasury { witness(format!("lite block header differs from the full block: {}", desc)); }
        for tx in b.transactions.iter() {
            let touches = tx.from.iter().any(|s| watch.contains(&s.public_key)) || tx.to.iter().any(|s| watch.contains(&s.public_key)) || tx.transaction_type == TransactionType::GoldenTicket;
            if touches && !lite.transactions.iter().any(|t| t == tx) { witness(format!("a transaction touching a watched key is not carried verbatim: {}", desc)); }
        }
        let weight: u64 = lite.transactions.iter().map(|t| if t.transaction_type == TransactionType::SPV { t.txs_replacements as u64 } else { 1 }).sum();
        if weight != n as u64 { witness(format!("placeholders account for {} transactions, the full block has {}: {}", weight, n, desc)); }
        if n > 0 && lite.merkle_root != b.merkle_root { witness(format!("lite block merkle root differs from the full block's: {}", desc)); }
    }
}

/// C18, last sentence: the placeholder entries are sufficient to recompute the transaction commitment of the header
#[test]
fn lite_block_commitment_recomputable() {
    let mut rng = Rng::from_env();
    let keys: Vec<SaitoPublicKey> = (0..4).map(|i| [i as u8 + 1; 33]).collect();
    for n in 1..12usize {
        for pattern in 0..8u64 {
            let mut b = Block::new();
            b.id = 5;
            let mut relevant = vec![];
            for i in 0..n {
                let mut tx = Transaction::default();
                tx.timestamp = i as u64; tx.signature = rng.arr();
                let watched = (pattern >> (i % 3)) & 1 == 1 && pattern != 0;
                let mut s = Slip::default(); s.public_key = if watched { keys[0] } else { keys[1] }; s.amount = 1; tx.from.push(s);
                let mut o = Slip::default(); o.public_key = keys[2]; o.amount = 1; tx.to.push(o);
                tx.generate_hash_for_signature();
                relevant.push(watched);
                b.transactions.push(tx);
            }
            b.merkle_root = b.generate_merkle_root(false, false);
            let lite = b.generate_lite_block(vec![keys[0]]);
            if lite.generate_merkle_root(false, false) != b.merkle_root {
                witness(format!("the header's transaction commitment cannot be recomputed from the lite block: full block of {} transactions, watched pattern {:?} → lite entries (type, replacements) {:?}", n, relevant,
                    lite.transactions.iter().map(|t| (if t.transaction_type == TransactionType::SPV { "placeholder" } else { "full" }, t.txs_replacements)).collect::<Vec<_>>()));
            }
        }
    }
}

/// C09: a block that crosses the wire keeps every header field, its transactions, its re-encoded bytes, its pre-hash and its hash
#[test]
fn roundtrip() {
    let mut rng = Rng::from_env();
    for round in 0..200 {
        let mut b = Block::new();
        b.id = rng.next(); b.timestamp = rng.next(); b.previous_block_hash = rng.arr(); b.creator = rng.arr(); b.merkle_root = rng.arr(); b.signature = rng.arr();
        b.graveyard = rng.next(); b.treasury = rng.next(); b.total_fees = rng.next(); b.total_fees_new = rng.next(); b.total_fees_atr = rng.next();
        b.total_fees_cumulative = rng.next(); b.avg_total_fees = rng.next(); b.avg_total_fees_new = rng.next(); b.avg_total_fees_atr = rng.next();
        b.total_payout_routing = rng.next(); b.total_payout_mining = rng.next(); b.total_payout_treasury = rng.next(); b.total_payout_graveyard = rng.next(); b.total_payout_atr = rng.next();
        b.avg_payout_routing = rng.next(); b.avg_payout_mining = rng.next(); b.avg_payout_treasury = rng.next(); b.avg_payout_graveyard = rng.next(); b.avg_payout_atr = rng.next();
        b.avg_fee_per_byte = rng.next(); b.fee_per_byte = rng.next(); b.avg_nolan_rebroadcast_per_block = rng.next(); b.burnfee = rng.next(); b.difficulty = rng.next(); b.previous_block_unpaid = rng.next();
        let n = rng.below(4) as usize;
        for i in 0..n {
            let mut tx = Transaction::default();
            tx.timestamp = rng.next(); tx.signature = rng.arr(); let dl = rng.below(20) as usize; tx.data = rng.bytes(dl); tx.txs_replacements = 1 + i as u32;
            let mut s = Slip::default(); s.public_key = rng.arr(); s.amount = rng.next(); s.block_id = rng.next(); tx.from.push(s);
            let mut o = Slip::default(); o.public_key = rng.arr(); o.amount = rng.next(); tx.to.push(o);
            b.transactions.push(tx);
        }
        for (what, ty) in [("full", BlockType::Full), ("header-only", BlockType::Header)] {
            let wire = b.serialize_for_net(ty);
            let d = match Block::deserialize_from_net(&wire) {
                Ok(d) => d,
                Err(e) => witness(format!("round {}: the decoder refuses the encoder's own {} block: {:?}", round, what, e)),
            };
            let fields = |x: &Block| vec![
                ("id", x.id), ("timestamp", x.timestamp), ("graveyard", x.graveyard), ("treasury", x.treasury), ("total_fees", x.total_fees), ("total_fees_new", x.total_fees_new),
                ("total_fees_atr", x.total_fees_atr), ("total_fees_cumulative", x.total_fees_cumulative), ("avg_total_fees", x.avg_total_fees), ("avg_total_fees_new", x.avg_total_fees_new),
                ("avg_total_fees_atr", x.avg_total_fees_atr), ("total_payout_routing", x.total_payout_routing), ("total_payout_mining", x.total_payout_mining),
                ("total_payout_treasury", x.total_payout_treasury), ("total_payout_graveyard", x.total_payout_graveyard), ("total_payout_atr", x.total_payout_atr),
                ("avg_payout_routing", x.avg_payout_routing), ("avg_payout_mining", x.avg_payout_mining), ("avg_payout_treasury", x.avg_payout_treasury),
                ("avg_payout_graveyard", x.avg_payout_graveyard), ("avg_payout_atr", x.avg_payout_atr), ("avg_fee_per_byte", x.avg_fee_per_byte), ("fee_per_byte", x.fee_per_byte),
                ("avg_nolan_rebroadcast_per_block", x.avg_nolan_rebroadcast_per_block), ("burnfee", x.burnfee), ("difficulty", x.difficulty), ("previous_block_unpaid", x.previous_block_unpaid)];
            for ((name, want), (_, got)) in fields(&b).into_iter().zip(fields(&d).into_iter()) {
                if want != got { witness(format!("round {}: {} block: header field {} is {} before encoding and {} after decoding", round, what, name, want, got)); }
            }
            if d.previous_block_hash != b.previous_block_hash || d.creator != b.creator || d.merkle_root != b.merkle_root || d.signature != b.signature {
                witness(format!("round {}: {} block: parent hash / creator / merkle root / signature changed across the wire", round, what));
            }
            if ty == BlockType::Full && d.transactions != b.transactions { witness(format!("round {}: full block: transactions changed across the wire ({} sent)", round, n)); }
            if d.serialize_for_net(ty) != wire { witness(format!("round {}: {} block: re-encoding the decoded block gives different bytes", round, what)); }
            if d.serialize_for_signature() != b.serialize_for_signature() { witness(format!("round {}: {} block: the signed bytes (hence pre-hash, hash and signature validity) change across the wire", round, what)); }
        }
    }
}

/// C01: an output is not spent twice inside one block — wherever the spending input sits in its transaction
/// (also behind the zero-amount input the wallet puts first)
#[tokio::test]
#[serial_test::serial]
async fn double_spend_within_block_rejected() {
    for lead_a in 0..3usize {
        for lead_b in 0..3usize {
            let mut t = TestManager::default();
            t.initialize(100, 200_000_000_000_000).await;
            let genesis = t.get_latest_block().await;
            let (public_key, private_key) = { let w = t.wallet_lock.read().await; (w.public_key, w.private_key) };
            let owned: Vec<Slip> = genesis.transactions.iter().flat_map(|tx| tx.to.iter()).filter(|s| s.amount > 0 && s.public_key == public_key).cloned().collect();
            assert!(owned.len() >= 2);
            let build = |lead: usize, utxo: &Slip, to: u8| {
                let mut tx = Transaction::default();
                for _ in 0..lead { tx.add_from_slip(Slip { public_key, amount: 0, ..Default::default() }); }
                tx.add_from_slip(utxo.clone());
                tx.add_to_slip(Slip { public_key: [to; 33], amount: utxo.amount, ..Default::default() });
                tx.generate(&public_key, 0, 0);
                tx.sign(&private_key);
                tx
            };
            let (a, b, c) = (build(lead_a, &owned[0], 2), build(lead_b, &owned[0], 3), build(lead_b, &owned[1], 3));
            { let bc = t.blockchain_lock.read().await;
              assert!(a.validate(&bc.utxoset, &bc, true) && b.validate(&bc.utxoset, &bc, true) && c.validate(&bc.utxoset, &bc, true), "each transaction alone is valid"); }
            for (txs, double) in [(vec![a.clone(), b.clone()], true), (vec![a.clone(), c.clone()], false)] {
                let mut block = t.create_block(genesis.hash, genesis.timestamp + 120000, 0, 0, 0, false).await;
                for tx in txs { block.add_transaction(tx); }
                block.merkle_root = block.generate_merkle_root(false, false);
                block.generate().unwrap();
                block.sign(&private_key);
                let mut received = Block::deserialize_from_net(&block.serialize_for_net(BlockType::Full)).unwrap();
                received.generate().unwrap();
                let bc = t.blockchain_lock.read().await;
                let configs = t.config_lock.read().await;
                let accepted = received.validate(&bc, &bc.utxoset, std::ops::Deref::deref(&configs), &t.storage, true).await;
                if double && accepted {
                    witness(format!("Block::validate accepts a block whose two transactions spend the same output: the shared input is input #{} of the first and input #{} of the second transaction, behind zero-amount inputs", lead_a, lead_b));
                }
                assert!(double || accepted, "control block (two different outputs) must be accepted");
            }
        }
    }
}

/// C06: the bytes the creator signs (and the hash is derived from) commit to each of the 17 signed header fields (among
/// them parent hash, creator and the transaction commitment): two headers that differ in one of them have different
/// signed bytes, pre-hash and hash
#[test]
fn signed_bytes_bind_every_header_field() {
    let mut rng = Rng::from_env();
    for round in 0..50 {
        let mut b = Block::new();
        b.id = rng.next(); b.timestamp = rng.next(); b.previous_block_hash = rng.arr(); b.creator = rng.arr(); b.merkle_root = rng.arr();
        b.graveyard = rng.next(); b.treasury = rng.next(); b.burnfee = rng.next(); b.difficulty = rng.next();
        b.avg_total_fees = rng.next(); b.avg_fee_per_byte = rng.next(); b.avg_nolan_rebroadcast_per_block = rng.next(); b.previous_block_unpaid = rng.next();
        b.total_fees = rng.next(); b.total_fees_new = rng.next(); b.total_fees_atr = rng.next(); b.total_fees_cumulative = rng.next(); b.fee_per_byte = rng.next();
        let base = b.serialize_for_signature();
        b.generate_pre_hash(); b.generate_hash(); let (ph0, h0) = (b.pre_hash, b.hash);
        let edits: Vec<(&str, Box<dyn Fn(&mut Block)>)> = vec![
            ("id", Box::new(|x: &mut Block| x.id ^= 1)), ("timestamp", Box::new(|x: &mut Block| x.timestamp ^= 1)),
            ("previous_block_hash", Box::new(|x: &mut Block| x.previous_block_hash[7] ^= 1)), ("creator", Box::new(|x: &mut Block| x.creator[7] ^= 1)),
            ("merkle_root", Box::new(|x: &mut Block| x.merkle_root[7] ^= 1)), ("graveyard", Box::new(|x: &mut Block| x.graveyard ^= 1)),
            ("treasury", Box::new(|x: &mut Block| x.treasury ^= 1)), ("burnfee", Box::new(|x: &mut Block| x.burnfee ^= 1)), ("difficulty", Box::new(|x: &mut Block| x.difficulty ^= 1)),
            ("avg_total_fees", Box::new(|x: &mut Block| x.avg_total_fees ^= 1)), ("avg_fee_per_byte", Box::new(|x: &mut Block| x.avg_fee_per_byte ^= 1)),
            ("avg_nolan_rebroadcast_per_block", Box::new(|x: &mut Block| x.avg_nolan_rebroadcast_per_block ^= 1)), ("previous_block_unpaid", Box::new(|x: &mut Block| x.previous_block_unpaid ^= 1)),
            ("avg_total_fees_new", Box::new(|x: &mut Block| x.avg_total_fees_new ^= 1)), ("avg_total_fees_atr", Box::new(|x: &mut Block| x.avg_total_fees_atr ^= 1)),
            ("avg_payout_routing", Box::new(|x: &mut Block| x.avg_payout_routing ^= 1)), ("avg_payout_mining", Box::new(|x: &mut Block| x.avg_payout_mining ^= 1)),
        ];
        for (name, edit) in edits.iter() {
            let mut c = b.clone();
            edit(&mut c);
            if c.serialize_for_signature() == base { witness(format!("round {}: two headers that differ only in {} have the same signed bytes — the creator's signature and the block hash do not commit to that field", round, name)); }
            c.generate_pre_hash(); c.generate_hash();
            if c.pre_hash == ph0 || c.hash == h0 { witness(format!("round {}: two headers that differ only in {} have the same pre-hash / hash", round, name)); }
        }
    }
}

/// C08: a block is accepted only if the routing work delivered to its creator meets the requirement set by the PARENT's
/// burn fee and the elapsed time; a block that is otherwise valid and meets it is accepted. Elapsed time and delivered
/// work are varied around the threshold.
#[tokio::test]
#[serial_test::serial]
async fn routing_work_gate_contract() {
    use crate::core::consensus::burnfee::BurnFee;
    use crate::core::util::crypto::generate_keys;
    let mut rng = Rng::from_env();
    for round in 0..10 {
        let mut t = TestManager::default();
        t.initialize(20, 1_000_000_000).await;
        let heartbeat = { t.config_lock.read().await.get_consensus_config().unwrap().heartbeat_interval };
        let genesis = t.get_latest_block().await;
        let block2 = t.create_block(genesis.hash, genesis.timestamp + 10 * heartbeat, 1, 1_000, 0, false).await;
        let (parent_hash, parent_ts, parent_bf) = (block2.hash, block2.timestamp, block2.burnfee);
        assert!(parent_bf > 0);
        assert!(matches!(t.add_block(block2).await, AddBlockResult::BlockAddedSuccessfully(..)));
        let elapsed = heartbeat + 1 + rng.below(heartbeat - 2);     // strictly between one and two heartbeats
        let ts = parent_ts + elapsed;
        let needed = BurnFee::return_routing_work_needed_to_produce_block_in_nolan(parent_bf, ts, parent_ts, heartbeat);
        let delivered = match round % 5 { 0 => needed, 1 => needed - 1, 2 => needed * 9 / 10, 3 => needed * 3 / 4, _ => needed + rng.below(needed / 2 + 1) };
        // one transaction paying `fee`, routed sender → router → creator: the creator holds fee - fee/2 work
        let fee = 2 * delivered;
        let (public_key, private_key) = { let w = t.wallet_lock.read().await; (w.public_key, w.private_key) };
        let (router_pk, router_sk) = generate_keys();
        let block3 = {
            let configs = t.config_lock.read().await;
            let gp = configs.get_consensus_config().unwrap().genesis_period;
            let latest = { t.blockchain_lock.read().await.blockring.get_latest_block_id() };
            let mut tx = { let mut w = t.wallet_lock.write().await; Transaction::create(&mut w, public_key, 1_000, fee, false, None, latest, gp).unwrap() };
            tx.sign(&private_key);
            tx.add_hop(&private_key, &public_key, &router_pk);
            tx.add_hop(&router_sk, &router_pk, &public_key);
            tx.generate(&public_key, 0, 0);
            assert!(tx.validate_routing_path());
            let mut txs: AHashMap<SaitoSignature, Transaction> = Default::default();
            txs.insert(tx.signature, tx);
            let bc = t.blockchain_lock.read().await;
            let mut b = Block::create(&mut txs, parent_hash, std::ops::Deref::deref(&bc), ts, &public_key, &private_key, None, std::ops::Deref::deref(&configs), &t.storage).await.unwrap();
            b.generate().unwrap(); b.sign(&private_key);
            b
        };
        let work = block3.total_work;
        let h3 = block3.hash;
        let res = t.add_block(block3).await;
        let tip = t.get_latest_block().await.hash;
        let accepted = tip == h3;
        let desc = format!("round {}: parent burn fee {}, elapsed {} ms (heartbeat {}), requirement from the parent's burn fee {}, routing work delivered to the creator {}: add_block → {:?}", round, parent_bf, elapsed, heartbeat, needed, work, res);
        if accepted && work < needed { witness(format!("block accepted with less routing work than required: {}", desc)); }
        if !accepted && work >= needed { witness(format!("block meeting the routing work requirement was refused: {}", desc)); }
    }
}

/// C13: when a block falls out of the retention window, each of its still-unspent outputs is handled exactly once by
/// the next block: it comes back to the same owner with value × multiplier − rebroadcast fee, or, if too small to pay
/// the fee, it does not come back; nothing else is rebroadcast. (Chain of genesis_period + 2 blocks built by the
/// node's own producer; the expectation is recomputed here from the parent block's header and the ledger before the
/// block was added. Transactions with NFT-bound slips are not produced by this scenario.)
#[tokio::test]
#[serial_test::serial]
async fn rebroadcast_handles_each_unspent_output_once() {
  for scenario in 0..2u64 {
    let mut t = TestManager::default();
    let gp = { t.config_lock.read().await.get_consensus_config().unwrap().genesis_period };
    let mut first = 0;
    if scenario == 0 {
        // many untouched issuance outputs
        t.initialize(100, 200_000_000_000_000).await;
    } else {
        // block 2 pays a stranger; the change output of that payment is spent by the following blocks, so the block
        // leaving the window later holds a transaction whose FIRST output is spent and whose second is not
        t.initialize(1, 1_000_000).await;
        t.transfer_value_to_public_key(TestManager::generate_random_public_key(), 5_000, 120_000).await.unwrap();
        first = 1;
    }
    // blocks up to gp + 1: nothing is old enough to be rebroadcast yet
    for k in first..gp {
        let tip = t.get_latest_block().await;
        // a golden ticket in two of every three blocks keeps the 2-of-6 rule satisfied and the mining difficulty flat
        let mut b = t.create_block(tip.hash, tip.timestamp + 120_000, 1, 1000, 0, k % 2 == 0).await;
        b.generate().unwrap();
        let r = t.add_block(b).await;
        if std::env::var("VERIF_TRACE").is_ok() { eprintln!("set-up block {} added", k + 2); }
        assert!(matches!(r, AddBlockResult::BlockAddedSuccessfully(..)), "set-up block {} not added: {:?}", k + 2, r);
    }
    for round in 0..3u64 {
        let parent = t.get_latest_block().await;
        let pruned_id = parent.id + 1 - (gp + 1);
        // the ledger as it is before the next block is added
        let (pruned, utxo_before): (Block, Vec<SaitoUTXOSetKey>) = {
            let bc = t.blockchain_lock.read().await;
            let h = bc.blockring.get_longest_chain_block_hash_at_block_id(pruned_id).expect("pruned block on chain");
            let mut stored = bc.blocks.get(&h).unwrap().clone();
            if stored.transactions.is_empty() {
                stored = t.storage.load_block_from_disk(t.storage.generate_block_filepath(&stored).as_str()).await.expect("block on disk");
                stored.generate().unwrap();
            }
            (stored, bc.utxoset.iter().filter(|(_, v)| **v).map(|(k, _)| *k).collect())
        };
        let mut b = t.create_block(parent.hash, parent.timestamp + 120_000, 1, 1000, 0, (gp + round) % 2 == 0).await;
        b.generate().unwrap();
        let new_block = b.clone();
        let res = t.add_block(b).await;
        assert!(matches!(res, AddBlockResult::BlockAddedSuccessfully(..)), "the producer's own block must be accepted: {:?}", res);
        let staked = gp * parent.avg_nolan_rebroadcast_per_block;
        let mult = 1 + if staked > 0 { parent.treasury / staked } else { 0 };
        let atrs: Vec<&Transaction> = new_block.transactions.iter().filter(|tx| tx.transaction_type == TransactionType::ATR).collect();
        let mut expected = 0usize;
        for tx in pruned.transactions.iter() {
            let fee = tx.get_serialized_size() as u64 * parent.avg_fee_per_byte;
            for (idx, out) in tx.to.iter().enumerate() {
                let unspent = out.amount == 0 || utxo_before.contains(&out.utxoset_key);
                if !unspent { continue; }
                let grown = out.amount * mult;
                let matching: Vec<&&Transaction> = atrs.iter().filter(|a| a.from.len() == 1 && a.from[0].public_key == out.public_key && a.from[0].block_id == out.block_id
                    && a.from[0].tx_ordinal == out.tx_ordinal && a.from[0].slip_index == out.slip_index && a.signature == tx.signature).collect();
                let desc = format!("round {}: block {} adds on parent {}, pruned block {}: output #{} of a {:?} transaction, amount {}, multiplier {}, rebroadcast fee {}", round, new_block.id, parent.id, pruned_id, idx, tx.transaction_type, out.amount, mult, fee);
                if grown > fee {
                    expected += 1;
                    if matching.len() != 1 { witness(format!("an unspent output of the block leaving the window comes back {} times (must be exactly once): {}", matching.len(), desc)); }
                    let a = matching[0];
                    // (the 5 %-of-treasury cap rewrites the amounts without the fee; it does not trigger with a multiplier of 1)
                    if a.to.len() != 1 || a.to[0].public_key != out.public_key || a.to[0].slip_type != SlipType::ATR || (mult == 1 && a.to[0].amount != grown - fee) {
                        witness(format!("rebroadcast output is not (same owner, value × multiplier − fee = {}): got {:?} of amount {} for key {:?}… : {}", grown - fee, a.to[0].slip_type, a.to[0].amount, &a.to[0].public_key[..4], desc));
                    }
                } else if !matching.is_empty() {
                    witness(format!("an output too small to pay the rebroadcast fee was rebroadcast anyway: {}", desc));
                }
            }
        }
        if std::env::var("VERIF_TRACE").is_ok() { eprintln!("scenario {} round {}: pruned block {} → {} rebroadcasts expected, {} found, multiplier {}", scenario, round, pruned_id, expected, atrs.len(), mult); }
        if (scenario == 0 && round == 0) || (scenario == 1 && round == 1) { assert!(expected > 0, "scenario must exercise the rebroadcast path"); }
        if atrs.len() != expected { witness(format!("round {}: block {} carries {} rebroadcast transactions, the block leaving the window has {} unspent outputs worth rebroadcasting", round, new_block.id, atrs.len(), expected)); }
    }
  }
}

/// C08 (third sentence): the fee transaction of a block with a golden ticket pays only the ticket's solver and nodes that
/// routed (or sent) transactions of the block being paid, and never more than that block collected in fees
#[tokio::test]
#[serial_test::serial]
async fn fee_transaction_pays_solver_and_routers() {
    use crate::core::util::crypto::generate_keys;
    if std::env::var("VERIF_TRACE").is_ok() { let _ = pretty_env_logger::try_init(); }
    let mut rng = Rng::from_env();
    for round in 0..4 {
        let mut t = TestManager::default();
        t.initialize(20, 1_000_000_000).await;
        let heartbeat = { t.config_lock.read().await.get_consensus_config().unwrap().heartbeat_interval };
        let genesis = t.get_latest_block().await;
        let block2 = t.create_block(genesis.hash, genesis.timestamp + 10 * heartbeat, 1, 1_000, 0, false).await;
        let (h2, ts2) = (block2.hash, block2.timestamp);
        assert!(matches!(t.add_block(block2).await, AddBlockResult::BlockAddedSuccessfully(..)));
        // block 3 carries one fee-paying transaction routed sender → router → creator
        let fee = 10_000 + rng.below(1_000_000);
        let (public_key, private_key) = { let w = t.wallet_lock.read().await; (w.public_key, w.private_key) };
        let (router_pk, router_sk) = generate_keys();
        let ts3 = ts2 + 10 * heartbeat;
        let block3 = {
            let configs = t.config_lock.read().await;
            let gp = configs.get_consensus_config().unwrap().genesis_period;
            let latest = { t.blockchain_lock.read().await.blockring.get_latest_block_id() };
            let mut tx = { let mut w = t.wallet_lock.write().await; Transaction::create(&mut w, public_key, 1_000, fee, false, None, latest, gp).unwrap() };
            tx.sign(&private_key);
            tx.add_hop(&private_key, &public_key, &router_pk);
            tx.add_hop(&router_sk, &router_pk, &public_key);
            tx.generate(&public_key, 0, 0);
            let mut txs: AHashMap<SaitoSignature, Transaction> = Default::default();
            txs.insert(tx.signature, tx);
            let bc = t.blockchain_lock.read().await;
            let mut b = Block::create(&mut txs, h2, std::ops::Deref::deref(&bc), ts3, &public_key, &private_key, None, std::ops::Deref::deref(&configs), &t.storage).await.unwrap();
            b.generate().unwrap(); b.sign(&private_key);
            b
        };
        let (h3, fees3) = (block3.hash, block3.total_fees);
        let r3 = t.add_block(block3).await;
        assert!(matches!(r3, AddBlockResult::BlockAddedSuccessfully(..)), "block 3 (fee-paying, routed) must be accepted: {:?}", r3);
        assert!(fees3 > 0);
        // block 4 holds a golden ticket for block 3: it pays block 3's fees out
        // (built the way Mempool::bundle_block does: the golden ticket transaction is handed to Block::create)
        // the ticket is solved by the wallet's key, the block is produced by a different node
        let (producer_pk, producer_sk) = generate_keys();
        let block4 = {
            let difficulty = { t.blockchain_lock.read().await.get_block(&h3).unwrap().difficulty };
            let gt = TestManager::create_golden_ticket(t.wallet_lock.clone(), h3, difficulty).await;
            let mut gttx = crate::core::consensus::wallet::Wallet::create_golden_ticket_transaction(gt, &public_key, &private_key).await;
            gttx.generate(&public_key, 0, 0);
            let configs = t.config_lock.read().await;
            let mut txs: AHashMap<SaitoSignature, Transaction> = Default::default();
            let bc = t.blockchain_lock.read().await;
            let mut b = Block::create(&mut txs, h3, std::ops::Deref::deref(&bc), ts3 + 10 * heartbeat, &producer_pk, &producer_sk, Some(gttx), std::ops::Deref::deref(&configs), &t.storage).await.unwrap();
            b.generate().unwrap(); b.sign(&producer_sk);
            b
        };
        // the same block with its fee transaction rewritten to pay an outsider (transaction and block re-signed by the producer)
        {
            let (outsider, _) = generate_keys();
            let mut forged = block4.clone();
            if let Some(k) = forged.transactions.iter().position(|tx| tx.transaction_type == TransactionType::Fee) {
                for o in forged.transactions[k].to.iter_mut() { o.public_key = outsider; }
                let h = crate::core::util::crypto::hash(&forged.transactions[k].serialize_for_signature());
                forged.transactions[k].hash_for_signature = Some(h);
                forged.transactions[k].sign(&producer_sk);
                forged.merkle_root = [0; 32];
                let _ = forged.generate();
                forged.sign(&producer_sk);
                let _ = forged.generate();
                let fh = forged.hash;
                let rf = t.add_block(forged).await;
                if t.blockchain_lock.read().await.get_latest_block_hash() == fh {
                    witness(format!("round {}: a block whose fee transaction was rewritten to pay an outsider key {} instead of what the payout rules give was accepted: {:?}", round, outsider.to_base58(), rf));
                }
            }
        }
        let b4 = block4.clone();
        let r4 = t.add_block(block4).await;
        assert!(matches!(r4, AddBlockResult::BlockAddedSuccessfully(..)), "block 4 must be accepted: {:?}", r4);
        let fee_txs: Vec<&Transaction> = b4.transactions.iter().filter(|tx| tx.transaction_type == TransactionType::Fee).collect();
        let gt_tx = b4.transactions.iter().find(|tx| tx.transaction_type == TransactionType::GoldenTicket).expect("block 4 holds a golden ticket");
        let solver = crate::core::consensus::golden_ticket::GoldenTicket::deserialize_from_net(&gt_tx.data).public_key;
        let routers = [router_pk, public_key];
        let mut paid: u128 = 0;
        for ftx in fee_txs.iter() {
            if !ftx.from.is_empty() && ftx.from.iter().any(|s| s.amount > 0) { witness(format!("round {}: the fee transaction has value-carrying inputs", round)); }
            for o in ftx.to.iter() {
                paid += o.amount as u128;
                let ok = (o.slip_type == SlipType::MinerOutput && o.public_key == solver) || (o.slip_type == SlipType::RouterOutput && routers.contains(&o.public_key));
                if !ok { witness(format!("round {}: fee transaction output of {} ({:?}) goes to a key that is neither the golden ticket's solver nor a node that routed or sent a transaction of the block being paid", round, o.amount, o.slip_type)); }
            }
        }
        if fee_txs.len() > 1 { witness(format!("round {}: {} fee transactions in one block", round, fee_txs.len())); }
        if paid > fees3 as u128 { witness(format!("round {}: the fee transaction pays out {} while the block being paid collected {} in fees", round, paid, fees3)); }
        if std::env::var("VERIF_TRACE").is_ok() { eprintln!("round {}: fees {} paid out {} in {} outputs", round, fees3, paid, fee_txs.iter().map(|f| f.to.len()).sum::<usize>()); }
        if round == 0 { assert!(paid > 0, "scenario must exercise the payout"); }
    }
}

/// C08 (third sentence, block by block): when the parent carries no golden ticket, the grandparent is paid too — its
/// routing share must go to a node that routed in the grandparent, the parent's to one that routed in the parent
#[tokio::test]
#[serial_test::serial]
async fn second_router_is_taken_from_the_grandparent() {
    use crate::core::util::crypto::generate_keys;
    let mut t = TestManager::default();
    t.initialize(20, 1_000_000_000).await;
    let heartbeat = { t.config_lock.read().await.get_consensus_config().unwrap().heartbeat_interval };
    let (public_key, private_key) = { let w = t.wallet_lock.read().await; (w.public_key, w.private_key) };
    let mut parent = t.get_latest_block().await;
    let mut routers = vec![];
    let mut fees = vec![];
    // blocks 2 and 3: each produced by a fresh key that is the only router of the block's one fee-paying transaction
    for k in 0..2u64 {
        let (rk, rs) = generate_keys();
        let b = {
            let configs = t.config_lock.read().await;
            let gp = configs.get_consensus_config().unwrap().genesis_period;
            let latest = { t.blockchain_lock.read().await.blockring.get_latest_block_id() };
            let mut tx = { let mut w = t.wallet_lock.write().await; Transaction::create(&mut w, public_key, 1_000, 100_000 + 7 * k, false, None, latest, gp).unwrap() };
            tx.sign(&private_key);
            tx.add_hop(&private_key, &public_key, &rk);
            tx.generate(&rk, 0, 0);
            let mut txs: AHashMap<SaitoSignature, Transaction> = Default::default();
            txs.insert(tx.signature, tx);
            let bc = t.blockchain_lock.read().await;
            let mut b = Block::create(&mut txs, parent.hash, std::ops::Deref::deref(&bc), parent.timestamp + 10 * heartbeat, &rk, &rs, None, std::ops::Deref::deref(&configs), &t.storage).await.unwrap();
            b.generate().unwrap(); b.sign(&rs);
            b
        };
        routers.push(rk); fees.push(b.total_fees);
        let r = t.add_block(b.clone()).await;
        assert!(matches!(r, AddBlockResult::BlockAddedSuccessfully(..)), "set-up block {} must be accepted: {:?}", k + 2, r);
        parent = b;
    }
    // block 4: golden ticket for block 3, built as Mempool::bundle_block does
    let block4 = {
        let difficulty = { t.blockchain_lock.read().await.get_block(&parent.hash).unwrap().difficulty };
        let gt = TestManager::create_golden_ticket(t.wallet_lock.clone(), parent.hash, difficulty).await;
        let mut gttx = crate::core::consensus::wallet::Wallet::create_golden_ticket_transaction(gt, &public_key, &private_key).await;
        gttx.generate(&public_key, 0, 0);
        let configs = t.config_lock.read().await;
        let mut txs: AHashMap<SaitoSignature, Transaction> = Default::default();
        let bc = t.blockchain_lock.read().await;
        let mut b = Block::create(&mut txs, parent.hash, std::ops::Deref::deref(&bc), parent.timestamp + 10 * heartbeat, &public_key, &private_key, Some(gttx), std::ops::Deref::deref(&configs), &t.storage).await.unwrap();
        b.generate().unwrap(); b.sign(&private_key);
        b
    };
    let fee_tx = block4.transactions.iter().find(|tx| tx.transaction_type == TransactionType::Fee).expect("block 4 carries a fee transaction");
    let router_slips: Vec<&Slip> = fee_tx.to.iter().filter(|s| s.slip_type == SlipType::RouterOutput).collect();
    assert_eq!(router_slips.len(), 2, "both the parent and the unpaid grandparent have a routing share");
    // the first routing share is the parent's (block 3), the second the grandparent's (block 2)
    if router_slips[0].public_key != routers[1] || router_slips[0].amount > fees[1] { witness(format!("the parent's routing share ({} of {} collected) does not go to the node that routed in the parent", router_slips[0].amount, fees[1])); }
    if router_slips[1].public_key != routers[0] {
        witness(format!("the grandparent's routing share ({} nolan) goes to {} — a node that routed nothing in the grandparent (block 2 was routed by another key; block 3's router is paid twice)",
            router_slips[1].amount, if router_slips[1].public_key == routers[1] { "the parent's router" } else { "an unrelated key" }));
    }
    if router_slips[1].amount > fees[0] { witness(format!("the grandparent's routing share {} exceeds the fees it collected {}", router_slips[1].amount, fees[0])); }
}

/// C13 with a funded treasury (payout multiplier above 1): every still-unspent output of the block leaving the window
/// comes back once, to its owner, with value × multiplier − fee — or not at all when even that does not cover the fee.
/// The candidate block is built by Block::create (fees on every block feed the treasury) and its consensus values are
/// inspected; it is not added to the chain.
#[tokio::test]
#[serial_test::serial]
async fn rebroadcast_with_treasury_payout() {
    use crate::core::consensus::wallet::Wallet;
    use crate::core::util::crypto::generate_keys;
    const FEE: Currency = 100_000;
    async fn make_block(t: &mut TestManager, recipient: SaitoPublicKey, amount: Currency, with_gt: bool) -> Block {
        let parent_hash = t.latest_block_hash;
        let (parent_id, parent_ts, parent_difficulty) = { let bc = t.blockchain_lock.read().await; let p = bc.get_block(&parent_hash).unwrap(); (p.id, p.timestamp, p.difficulty) };
        let configs = t.config_lock.read().await;
        let gp = configs.get_consensus_config().unwrap().genesis_period;
        let (public_key, private_key) = { let w = t.wallet_lock.read().await; (w.public_key, w.private_key) };
        let mut txs: AHashMap<SaitoSignature, Transaction> = Default::default();
        { let mut w = t.wallet_lock.write().await; let mut tx = Transaction::create(&mut w, recipient, amount, FEE, false, None, parent_id, gp).unwrap(); tx.sign(&private_key); tx.generate(&public_key, 0, 0); txs.insert(tx.signature, tx); }
        let mut gttx = None;
        if with_gt { let gt = TestManager::create_golden_ticket(t.wallet_lock.clone(), parent_hash, parent_difficulty).await; let mut g = Wallet::create_golden_ticket_transaction(gt, &public_key, &private_key).await; g.generate(&public_key, 0, 0); gttx = Some(g); }
        let bc = t.blockchain_lock.read().await;
        let mut b = Block::create(&mut txs, parent_hash, std::ops::Deref::deref(&bc), parent_ts + 120_000, &public_key, &private_key, gttx, std::ops::Deref::deref(&configs), &t.storage).await.unwrap();
        b.generate().unwrap(); b.sign(&private_key);
        b
    }
    let mut rng = Rng::from_env();
    let mut t = TestManager::default();
    t.initialize_with_timestamp(1, 100_000_000_000, 0).await;
    let gp = { t.config_lock.read().await.get_consensus_config().unwrap().genesis_period };
    let my_key = { t.wallet_lock.read().await.public_key };
    let stranger = generate_keys().0;
    let parked_small = 2_000 + rng.below(2_800);          // below the rebroadcast fee: comes back only thanks to the payout (and the payout stays under the 5 % cap)
    for id in 2..=(gp + 3) {
        let b = match id { 2 => make_block(&mut t, stranger, 100_000, true).await, 3 => make_block(&mut t, stranger, parked_small, false).await, _ => make_block(&mut t, my_key, 1_000, id % 2 == 0).await };
        let r = t.add_block(b).await;
        assert!(matches!(r, AddBlockResult::BlockAddedSuccessfully(..)), "set-up block {} not added: {:?}", id, r);
    }
    let candidate = make_block(&mut t, my_key, 1_000, true).await;
    let bc = t.blockchain_lock.read().await;
    let parent = bc.get_block(&candidate.previous_block_hash).unwrap();
    let staked = gp * parent.avg_nolan_rebroadcast_per_block;
    let mult = 1 + if staked > 0 { parent.treasury / staked } else { 0 };
    assert!(mult > 1 && parent.avg_fee_per_byte > 0, "scenario must reach a payout multiplier above 1 (got {}) and a non-zero fee rate", mult);
    let pruned_hash = bc.blockring.get_longest_chain_block_hash_at_block_id(candidate.id - (gp + 1)).unwrap();
    let mut pruned = t.storage.load_block_from_disk(t.storage.generate_block_filepath(bc.blocks.get(&pruned_hash).unwrap()).as_str()).await.unwrap();
    pruned.generate().unwrap();
    // the consensus values as a validating node computes them for the finished block (Block::validate calls the same function)
    let cv = { let configs = t.config_lock.read().await; candidate.generate_consensus_values(std::ops::Deref::deref(&bc), &t.storage, std::ops::Deref::deref(&configs)).await };
    // the 5 %-of-treasury cap rewrites the outputs afterwards (and zeroes total_fees_atr): outside the decided clause
    let capped = cv.total_fees_atr == 0 && !cv.rebroadcasts.is_empty();
    if std::env::var("VERIF_TRACE").is_ok() { eprintln!("multiplier {}, treasury {} (parent {}), fee rate {}, cap fired: {}, rebroadcasts {}", mult, candidate.treasury, parent.treasury, parent.avg_fee_per_byte, capped, cv.rebroadcasts.len()); }
    assert!(!capped, "scenario must stay below the 5 % cap");
    let mut expected = 0usize;
    for tx in pruned.transactions.iter() {
        let fee = tx.get_serialized_size() as u64 * parent.avg_fee_per_byte;
        for (idx, out) in tx.to.iter().enumerate() {
            if !out.validate(&bc.utxoset) { continue; }
            let grown = out.amount * mult;
            let matching: Vec<&Transaction> = cv.rebroadcasts.iter().filter(|a| a.from.len() == 1 && a.from[0].public_key == out.public_key && a.from[0].block_id == out.block_id
                && a.from[0].tx_ordinal == out.tx_ordinal && a.from[0].slip_index == out.slip_index && a.signature == tx.signature).collect();
            let desc = format!("output #{} of a {:?} transaction of block {}, amount {}, multiplier {}, rebroadcast fee {}", idx, tx.transaction_type, pruned.id, out.amount, mult, fee);
            if grown > fee {
                expected += 1;
                if matching.len() != 1 { witness(format!("an unspent output whose value × multiplier ({}) covers the fee comes back {} times (must be exactly once): {}", grown, matching.len(), desc)); }
                let a = matching[0];
                if a.to.len() != 1 || a.to[0].public_key != out.public_key || a.to[0].slip_type != SlipType::ATR || a.to[0].amount != grown - fee {
                    witness(format!("rebroadcast output is not (same owner, value × multiplier − fee = {}): got amount {} for key {:?}… : {}", grown - fee, a.to[0].amount, &a.to[0].public_key[..4], desc));
                }
            } else if !matching.is_empty() { witness(format!("an output too small to pay the rebroadcast fee even with the payout was rebroadcast: {}", desc)); }
        }
    }
    assert!(expected > 0, "scenario must exercise the rebroadcast path");
    if cv.rebroadcasts.len() != expected { witness(format!("the candidate block rebroadcasts {} outputs, the block leaving the window has {} unspent outputs worth rebroadcasting", cv.rebroadcasts.len(), expected)); }
}

/// C06 for a node that joined late (it holds neither block 1 nor a full retention window, so it validates without the
/// ledger): a block whose transaction list was altered after signing is still unacceptable
#[tokio::test]
#[serial_test::serial]
async fn stripped_transaction_is_rejected_by_a_late_joiner() {
    // producer chain: blocks 2..=5, the last one carries two payments
    let mut a = TestManager::default();
    a.initialize(100, 200_000_000_000_000).await;
    let mut wires: Vec<Vec<u8>> = vec![];
    for k in 2..=5u64 {
        let tip = a.get_latest_block().await;
        let mut b = a.create_block(tip.hash, tip.timestamp + 120_000, if k == 5 { 2 } else { 1 }, 1000, 0, k % 2 == 0).await;
        b.generate().unwrap();
        wires.push(b.serialize_for_net(BlockType::Full));
        let r = a.add_block(b).await;
        assert!(matches!(r, AddBlockResult::BlockAddedSuccessfully(..)), "producer block {} not added: {:?}", k, r);
    }
    // the late joiner starts at block 4
    let mut j = TestManager::default();
    let mut b4 = Block::deserialize_from_net(&wires[2]).unwrap(); b4.generate().unwrap();
    let h4 = b4.hash;
    let _ = j.add_block(b4).await;
    assert_eq!(j.blockchain_lock.read().await.get_latest_block_hash(), h4, "the joiner starts its chain at block 4");
    assert!(j.blockchain_lock.read().await.blockring.get_longest_chain_block_hash_at_block_id(1).is_none());
    // block 5 reaches it with one payment stripped in transit; header, signature and hash are untouched
    let mut b5 = Block::deserialize_from_net(&wires[3]).unwrap(); b5.generate().unwrap();
    let (signed_hash, signed_root) = (b5.hash, b5.merkle_root);
    let idx = b5.transactions.iter().position(|tx| tx.transaction_type == TransactionType::Normal).expect("a normal tx");
    b5.transactions.remove(idx);
    let mut received = Block::deserialize_from_net(&b5.serialize_for_net(BlockType::Full)).unwrap(); received.generate().unwrap();
    assert_eq!(received.hash, signed_hash, "same identity");
    assert!(received.generate_merkle_root(false, false) != signed_root);
    let res = j.add_block(received).await;
    let tip = j.blockchain_lock.read().await.get_latest_block_hash();
    if tip == signed_hash {
        witness(format!("a node that joined at block 4 (no block 1, no full window: it validates without the ledger) accepts block 5 although one of its payments was stripped after signing — the merkle root in the signed header no longer matches the transactions carried: add_block → {:?}", res));
    }
}

/// C06 for a node that joined late: a block that is not signed by the creator it names is unacceptable — also when the
/// node validates without the ledger
#[tokio::test]
#[serial_test::serial]
async fn block_not_signed_by_its_creator_is_rejected_by_a_late_joiner() {
    let mut a = TestManager::default();
    a.initialize(100, 200_000_000_000_000).await;
    let tip = a.get_latest_block().await;
    let mut b2 = a.create_block(tip.hash, tip.timestamp + 120_000, 1, 1000, 0, true).await;
    b2.generate().unwrap();
    let genuine = b2.serialize_for_net(BlockType::Full);
    // an attacker changes the timestamp and signs with a key of their own; `creator` still names the victim
    let (_apk, ask) = crate::core::util::crypto::generate_keys();
    let mut forged = Block::deserialize_from_net(&genuine).unwrap();
    forged.timestamp += 1;
    forged.generate_pre_hash();
    forged.sign(&ask);
    forged.creator = b2.creator;
    let mut received = Block::deserialize_from_net(&forged.serialize_for_net(BlockType::Full)).unwrap(); received.generate().unwrap();
    assert!(!crate::core::util::crypto::verify_signature(&received.pre_hash, &received.signature, &received.creator), "the forged block is not signed by the creator it names");
    let h = received.hash;
    let mut j = TestManager::default();      // a node that has nothing yet: this is the first block it sees
    let res = j.add_block(received).await;
    let tip = j.blockchain_lock.read().await.get_latest_block_hash();
    if tip == h { witness(format!("a node receiving block 2 as its first block (it validates without the ledger) accepts it although its signature does not verify under the creator key it names: add_block → {:?}", res)); }
    // control: the genuine block is accepted by such a node
    let mut j2 = TestManager::default();
    let mut g = Block::deserialize_from_net(&genuine).unwrap(); g.generate().unwrap(); let gh = g.hash;
    let _ = j2.add_block(g).await;
    assert_eq!(j2.blockchain_lock.read().await.get_latest_block_hash(), gh, "the genuine block must be accepted by a late joiner");
}

/// C11 (recorded finding): before anything about a fetched block is validated, Block::generate builds the block's merkle
/// tree — whose size must stay within what the buffer the block came in can account for. A transaction's
/// txs_replacements field (a u32 straight off the wire) decides how many leaves it gets.
#[test]
fn merkle_tree_is_bounded_by_the_size_of_the_block() {
    use crate::core::consensus::merkle::MerkleTree;
    for replacements in [1u32, 2, 64, 200_000] {
        let mut tx = Transaction::default();
        tx.transaction_type = TransactionType::SPV;   // (the field counts for placeholders only; any peer can send one in a served block)
        tx.txs_replacements = replacements;
        tx.hash_for_signature = Some([1; 32]);
        let wire = tx.serialize_for_net().len();
        let decoded = Transaction::deserialize_from_net(&tx.serialize_for_net()).unwrap();
        let tree = MerkleTree::generate(&vec![decoded]).unwrap();
        if tree.len() > wire {
            witness(format!("a {}-byte placeholder transaction with txs_replacements={} makes MerkleTree::generate build {} leaves ({} with u32::MAX): a block of a few hundred bytes exhausts the node's memory in Block::generate, before any validation",
                wire, replacements, tree.len(), u32::MAX));
        }
    }
}

/// C06: removing EVERY transaction of a signed block leaves header, signature and hash untouched — a full node must not
/// accept the empty shell (the commitment is recomputed from what the block carries, also when it carries nothing)
#[tokio::test]
#[serial_test::serial]
async fn block_stripped_of_all_its_transactions_is_refused() {
    let mut a = TestManager::default();
    a.initialize(100, 200_000_000_000_000).await;
    let genesis = a.get_latest_block().await;
    let wire = genesis.serialize_for_net(BlockType::Full);
    let mut shell = Block::deserialize_from_net(&wire).unwrap();
    shell.generate().unwrap();
    let signed_hash = shell.hash;
    shell.transactions.clear();
    let mut received = Block::deserialize_from_net(&shell.serialize_for_net(BlockType::Full)).unwrap(); received.generate().unwrap();
    assert_eq!(received.hash, signed_hash, "same identity");
    let mut j = TestManager::default();
    let res = j.add_block(received).await;
    if j.blockchain_lock.read().await.get_latest_block_hash() == signed_hash {
        witness(format!("a fresh full node accepts block 1 with all of its {} transactions removed after signing (same hash, same signature): add_block → {:?}", genesis.transactions.len(), res));
    }
    // control: the genuine block is fine
    let mut k = TestManager::default();
    let mut genuine = Block::deserialize_from_net(&wire).unwrap(); genuine.generate().unwrap();
    let _ = k.add_block(genuine).await;
    assert_eq!(k.blockchain_lock.read().await.get_latest_block_hash(), signed_hash, "setup: the genuine block is accepted by a fresh node");
}

/// C13 (last clause) / C01: an output older than the retention window can no longer be spent. An output too small to
/// pay the rebroadcast fee is not rebroadcast — its value is collected as fees by the block that lets it expire; after
/// that block nobody may spend it. (Fee-bearing chain built by the node's own producer, genesis_period + 4 blocks.)
#[tokio::test]
#[serial_test::serial]
async fn expired_dust_output_cannot_be_spent() {
    use crate::core::consensus::wallet::Wallet;
    use crate::core::util::crypto::generate_keys;
    const FEE: Currency = 100_000;
    async fn make_block(t: &mut TestManager, recipient: SaitoPublicKey, amount: Currency, with_gt: bool, extra: Option<Transaction>) -> Block {
        let parent_hash = t.latest_block_hash;
        let (parent_id, parent_ts, parent_difficulty) = { let bc = t.blockchain_lock.read().await; let p = bc.get_block(&parent_hash).unwrap(); (p.id, p.timestamp, p.difficulty) };
        let configs = t.config_lock.read().await;
        let gp = configs.get_consensus_config().unwrap().genesis_period;
        let (public_key, private_key) = { let w = t.wallet_lock.read().await; (w.public_key, w.private_key) };
        let mut txs: AHashMap<SaitoSignature, Transaction> = Default::default();
        { let mut w = t.wallet_lock.write().await; let mut tx = Transaction::create(&mut w, recipient, amount, FEE, false, None, parent_id, gp).unwrap(); tx.sign(&private_key); tx.generate(&public_key, 0, 0); txs.insert(tx.signature, tx); }
        if let Some(x) = extra { txs.insert(x.signature, x); }
        let mut gttx = None;
        if with_gt { let gt = TestManager::create_golden_ticket(t.wallet_lock.clone(), parent_hash, parent_difficulty).await; let mut g = Wallet::create_golden_ticket_transaction(gt, &public_key, &private_key).await; g.generate(&public_key, 0, 0); gttx = Some(g); }
        let bc = t.blockchain_lock.read().await;
        let mut b = Block::create(&mut txs, parent_hash, std::ops::Deref::deref(&bc), parent_ts + 120_000, &public_key, &private_key, gttx, std::ops::Deref::deref(&configs), &t.storage).await.unwrap();
        b.generate().unwrap(); b.sign(&private_key);
        b
    }
    let mut t = TestManager::default();
    t.initialize_with_timestamp(1, 100_000_000_000, 0).await;
    let gp = { t.config_lock.read().await.get_consensus_config().unwrap().genesis_period };
    let my_key = { t.wallet_lock.read().await.public_key };
    let (dust_pk, dust_sk) = generate_keys();
    let stranger = generate_keys().0;
    // block 3 pays one nolan to a key of its own: far too little to ever pay a rebroadcast fee
    for id in 2..=(gp + 3) {
        let b = match id { 2 => make_block(&mut t, stranger, 100_000, true, None).await, 3 => make_block(&mut t, dust_pk, 1, false, None).await, _ => make_block(&mut t, my_key, 1_000, id % 2 == 0, None).await };
        let r = t.add_block(b).await;
        assert!(matches!(r, AddBlockResult::BlockAddedSuccessfully(..)), "set-up block {} not added: {:?}", id, r);
    }
    // the dust output as the ledger knows it
    let dust: Slip = {
        let bc = t.blockchain_lock.read().await;
        let h3 = bc.blockring.get_longest_chain_block_hash_at_block_id(3).unwrap();
        let mut b3 = t.storage.load_block_from_disk(t.storage.generate_block_filepath(bc.blocks.get(&h3).unwrap()).as_str()).await.unwrap();
        b3.generate().unwrap();
        b3.transactions.iter().flat_map(|tx| tx.to.iter()).find(|s| s.public_key == dust_pk && s.amount == 1).expect("the dust output of block 3").clone()
    };
    assert_eq!(t.blockchain_lock.read().await.utxoset.get(&dust.utxoset_key), Some(&true), "setup: the dust output is unspent while block 3 is inside the window");
    // block gp + 4 lets block 3 expire
    let expiring = make_block(&mut t, my_key, 1_000, (gp + 4) % 2 == 0, None).await;
    let rebroadcast_of_dust = expiring.transactions.iter().any(|tx| tx.transaction_type == TransactionType::ATR && tx.from.iter().any(|s| s.utxoset_key == dust.utxoset_key));
    let collected = expiring.total_fees_atr;
    let r = t.add_block(expiring).await;
    assert!(matches!(r, AddBlockResult::BlockAddedSuccessfully(..)), "the block that lets block 3 expire must be accepted: {:?}", r);
    assert!(!rebroadcast_of_dust, "setup: one nolan must be too small to be rebroadcast");
    // the owner now tries to spend it
    let mut spend = Transaction::default();
    spend.add_from_slip(dust.clone());
    let mut o = Slip::default(); o.public_key = dust_pk; o.amount = 1; spend.add_to_slip(o);
    spend.sign(&dust_sk);
    spend.generate(&my_key, 0, 0);
    let accepted_by_validate = { let bc = t.blockchain_lock.read().await; spend.validate(&bc.utxoset, &bc, true) };
    let next = make_block(&mut t, my_key, 1_000, (gp + 5) % 2 == 0, Some(spend.clone())).await;
    let carries = next.transactions.iter().any(|tx| tx.signature == spend.signature);
    let hn = next.hash;
    let rn = futures::FutureExt::catch_unwind(std::panic::AssertUnwindSafe(t.add_block(next))).await;
    let tip_is_next = t.blockchain_lock.read().await.get_latest_block_hash() == hn;
    if accepted_by_validate || (carries && (rn.is_err() || tip_is_next)) {
        witness(format!("a 1-nolan output of block 3 (retention window {} blocks) was not rebroadcast by block {} — too small for the fee, the block collected {} nolan of expired value as fees — and is spent afterwards: Transaction::validate says {}, a block at height {} carrying the spend {}",
            gp, gp + 4, collected, accepted_by_validate, gp + 5, if rn.is_err() { "aborts the node".to_string() } else if tip_is_next { "becomes the tip".to_string() } else { "is refused".to_string() }));
    }
}

/// C01: an ATR-typed transaction is exempt from the signature and ownership checks, and the rebroadcast hash does not cover
/// which output an input spends — a block whose rebroadcast of an expiring output has been pointed at a live output of
/// the same owner (same key, amount, index, type) must be refused (scenario of an independent audit)
#[tokio::test]
#[serial_test::serial]
async fn rebroadcast_pointed_at_a_live_output_is_refused() {
    use crate::core::consensus::blockchain::AddBlockResult;
    use std::ops::Deref;
    use crate::core::util::crypto::generate_keys;
    #[allow(unused_imports)] use ahash::AHashMap;

    let mut t = TestManager::default();
    let genesis_period = t
        .config_lock
        .read()
        .await
        .get_consensus_config()
        .unwrap()
        .genesis_period;

    let (producer_key, producer_private_key) = {
        let wallet = t.wallet_lock.read().await;
        (wallet.public_key, wallet.private_key)
    };
    let (victim_key, _victim_private_key) = generate_keys();
    let amount: Currency = 5_000_000;

    // block 1 : the victim is issued `amount` (output OLD = 1-0-0), the producer a large sum
    let mut issued = Slip::default();
    issued.public_key = victim_key;
    issued.amount = amount;
    t.initialize_from_slips_and_value(vec![issued], 200_000_000_000_000)
        .await;
    let old_output = {
        let blockchain = t.blockchain_lock.read().await;
        let slips = blockchain.get_slips_for(victim_key);
        assert_eq!(slips.len(), 1);
        slips[0].clone()
    };
    assert_eq!(old_output.block_id, 1);

    // blocks 2 ..= genesis_period + 1 : ordinary traffic of the producer; in block `pay_block_id`
    // somebody pays the victim the same amount again, as first output (output NEW)
    let pay_block_id = 60;
    for id in 2..=(genesis_period + 1) {
        if id == pay_block_id {
            let funding = {
                let blockchain = t.blockchain_lock.read().await;
                blockchain
                    .get_slips_for(producer_key)
                    .into_iter()
                    .max_by_key(|slip| slip.amount)
                    .unwrap()
            };
            let mut payment = Transaction::default();
            payment.add_from_slip(funding.clone());
            let mut to_victim = Slip::default();
            to_victim.public_key = victim_key;
            to_victim.amount = amount;
            payment.add_to_slip(to_victim);
            let mut change = Slip::default();
            change.public_key = producer_key;
            change.amount = funding.amount - amount;
            payment.add_to_slip(change);
            payment.sign(&producer_private_key);
            payment.generate(&producer_key, 0, 0);

            let parent = t.get_latest_block().await;
            let block = {
                let configs = t.config_lock.read().await;
                let blockchain = t.blockchain_lock.read().await;
                let mut txs: AHashMap<_, _> = Default::default();
                txs.insert(payment.signature, payment);
                Block::create(
                    &mut txs,
                    parent.hash,
                    &blockchain,
                    parent.timestamp + 120_000,
                    &producer_key,
                    &producer_private_key,
                    None,
                    configs.deref(),
                    &t.storage,
                )
                .await
                .unwrap()
            };
            let result = t.add_block(block).await;
            assert!(matches!(
                result,
                AddBlockResult::BlockAddedSuccessfully(_, true, _)
            ));
            continue;
        }
        let parent = t.get_latest_block().await;
        let block = t
            .create_block(parent.hash, parent.timestamp + 120_000, 1, 1_000, 0, id % 2 == 1)
            .await;
        let result = t.add_block(block).await;
        assert!(
            matches!(result, AddBlockResult::BlockAddedSuccessfully(_, true, _)),
            "sanity: block {} is accepted, got {:?}",
            id,
            result
        );
    }
    let new_output = {
        let blockchain = t.blockchain_lock.read().await;
        let slips = blockchain.get_slips_for(victim_key);
        assert_eq!(slips.len(), 2);
        slips
            .into_iter()
            .find(|slip| slip.block_id == pay_block_id)
            .unwrap()
            .clone()
    };
    assert_eq!(new_output.amount, old_output.amount);
    assert_eq!(new_output.slip_index, old_output.slip_index);
    assert_eq!(new_output.slip_type, old_output.slip_type);

    // block genesis_period + 2 has to rebroadcast what is left of block 1 : OLD
    let parent = t.get_latest_block().await;
    assert_eq!(parent.id, genesis_period + 1);
    let mut block = t
        .create_block(
            parent.hash,
            parent.timestamp + 120_000,
            1,
            1_000,
            0,
            (genesis_period + 2) % 2 == 1,
        )
        .await;
    let atr_positions: Vec<usize> = block
        .transactions
        .iter()
        .enumerate()
        .filter(|(_, tx)| tx.transaction_type == TransactionType::ATR)
        .map(|(index, _)| index)
        .collect();
    assert_eq!(atr_positions.len(), 1, "sanity: one rebroadcast is due");
    let atr_position = atr_positions[0];
    assert_eq!(
        block.transactions[atr_position].from[0].get_utxoset_key(),
        old_output.utxoset_key,
        "sanity: the rebroadcast the honest producer builds spends OLD"
    );

    // the producer rewrites the input coordinates of the rebroadcast so that it consumes NEW,
    // an output that is far from expiring and whose owner signs nothing
    block.transactions[atr_position].from[0].block_id = new_output.block_id;
    block.transactions[atr_position].from[0].tx_ordinal = new_output.tx_ordinal;
    assert_eq!(
        block.transactions[atr_position].from[0].get_utxoset_key(),
        new_output.utxoset_key
    );
    block.merkle_root = block.generate_merkle_root(false, false);
    block.generate_pre_hash();
    block.sign(&producer_private_key);
    // what the other nodes get is the serialised block
    let mut block = Block::deserialize_from_net(&block.serialize_for_net(BlockType::Full)).unwrap();
    block.generate().unwrap();

    // (the node aborts inside add_block once the block has been wound in : catch that to report it)
    let outcome = {
        use futures::FutureExt;
        std::panic::AssertUnwindSafe(t.add_block(block))
            .catch_unwind()
            .await
    };
    let node_aborted = outcome.is_err();
    let result = outcome.ok();
    let accepted = matches!(
        result,
        Some(AddBlockResult::BlockAddedSuccessfully(_, true, _))
    );

    let blockchain = t.blockchain_lock.read().await;
    let new_still_unspent = blockchain.utxoset.get(&new_output.utxoset_key) == Some(&true);
    let old_still_listed = blockchain.utxoset.get(&old_output.utxoset_key) == Some(&true);
    let latest_block_id = blockchain.get_latest_block_id();
    let victim_spendable: Currency = blockchain
        .get_slips_for(victim_key)
        .iter()
        .filter(|slip| latest_block_id < slip.block_id + genesis_period)
        .map(|slip| slip.amount)
        .sum();
    if !(!accepted && !node_aborted && new_still_unspent) { witness(format!(
        "a block was wound onto the longest chain (add_block -> {:?}, node aborted after winding it in = {}) in which an ATR-typed transaction, exempt from signature and ownership checks, spends the victim's live output {}-{}-0 instead of the expiring output 1-0-0 it rebroadcasts (the rebroadcast hash does not cover input coordinates): live output still unspent = {}, expired output left behind in the utxoset = {}, the victim can still spend {} of the {} nolan it owned",
        result, node_aborted, new_output.block_id, new_output.tx_ordinal, new_still_unspent, old_still_listed, victim_spendable, 2 * amount
    )); }
}

/// C09/C18 (wire): every entry of a served lite block — carried transaction or placeholder, merged or not — has the same
/// hash after the block crossed the wire as it had when the block was generated (a placeholder's hash travels in the first
/// half of its signature field; the encoded bytes re-encode identically)
#[test]
fn lite_block_entries_keep_their_hash_across_the_wire() {
    let mut rng = Rng::from_env();
    let keys: Vec<SaitoPublicKey> = (0..4).map(|i| [i as u8 + 1; 33]).collect();
    for round in 0..200 {
        let mut b = Block::new();
        b.id = 5; b.timestamp = rng.next(); b.previous_block_hash = rng.arr(); b.creator = rng.arr(); b.signature = rng.arr(); b.hash = rng.arr();
        let n = 1 + rng.below(12) as usize;
        for i in 0..n {
            let mut tx = Transaction::default();
            tx.timestamp = i as u64; tx.signature = rng.arr();
            let mut s = Slip::default(); s.public_key = keys[rng.below(4) as usize]; s.amount = 1 + rng.below(9); tx.from.push(s);
            let mut o = Slip::default(); o.public_key = keys[rng.below(4) as usize]; o.amount = 1; tx.to.push(o);
            tx.generate_hash_for_signature();
            b.transactions.push(tx);
        }
        b.merkle_root = b.generate_merkle_root(false, false);
        let watch: Vec<SaitoPublicKey> = keys.iter().filter(|_| rng.below(3) == 0).cloned().collect();
        let lite = b.generate_lite_block(watch.clone());
        let bytes = lite.serialize_for_net(BlockType::Full);
        let mut received = match Block::deserialize_from_net(&bytes) { Ok(r) => r, Err(e) => witness(format!("round {}: a served lite block does not decode: {:?}", round, e)) };
        if received.transactions.len() != lite.transactions.len() { witness(format!("round {}: {} entries sent, {} received", round, lite.transactions.len(), received.transactions.len())); }
        for (k, tx) in received.transactions.iter_mut().enumerate() {
            tx.generate_hash_for_signature();
            if tx.hash_for_signature != lite.transactions[k].hash_for_signature {
                witness(format!("round {}: full block of {} transactions, {} watched keys: entry {} of the lite block ({:?}, stands for {} transaction(s)) has hash {} when generated and {} after crossing the wire",
                    round, n, watch.len(), k, lite.transactions[k].transaction_type, lite.transactions[k].txs_replacements,
                    hex::encode(&lite.transactions[k].hash_for_signature.unwrap()[0..6]), hex::encode(&tx.hash_for_signature.unwrap()[0..6])));
            }
        }
        if received.serialize_for_net(BlockType::Full) != bytes { witness(format!("round {}: a received lite block re-encodes to different bytes", round)); }
    }
}

/// C08: the routing work a block is credited with comes from paths the transactions really took — a single hop X->creator under a
/// throw-away key X, put in place of the real path, must not count (known finding: hop 0 is not tied to the sender) — scenario of an
/// independent audit
#[tokio::test]
#[serial_test::serial]
async fn routing_work_counts_only_paths_that_start_at_the_sender() {
    #[allow(unused_imports)] use crate::core::consensus::wallet::Wallet;
    #[allow(unused_imports)] use crate::core::util::crypto::generate_keys;
    #[allow(unused_imports)] use ahash::AHashMap;
    use crate::core::consensus::blockchain::AddBlockResult;
    use crate::core::consensus::burnfee::BurnFee;
    use crate::core::consensus::hop::Hop;
    use std::ops::Deref;

    // builds a block of creator `c_public` on `parent` carrying `tx`, and says whether Block::validate takes it
    async fn build(
        t: &TestManager,
        tx: &Transaction,
        parent: SaitoHash,
        timestamp: u64,
        c_public: &SaitoPublicKey,
        c_private: &SaitoPrivateKey,
    ) -> (Block, bool) {
        let configs = t.config_lock.read().await;
        let blockchain = t.blockchain_lock.read().await;
        let mut tx = tx.clone();
        tx.generate(c_public, 0, 0);
        let mut txs: AHashMap<crate::core::defs::SaitoSignature, Transaction> = Default::default();
        txs.insert(tx.signature, tx);
        let mut block = Block::create(
            &mut txs,
            parent,
            blockchain.deref(),
            timestamp,
            c_public,
            c_private,
            None,
            configs.deref(),
            &t.storage,
        )
        .await
        .unwrap();
        block.generate().unwrap();
        let valid = block
            .validate(blockchain.deref(), &blockchain.utxoset, configs.deref(), &t.storage, true)
            .await;
        (block, valid)
    }

    let mut t = TestManager::default();
    let ts0: u64 = 1_000_000;
    t.initialize_with_timestamp(10, 1_000_000_000, ts0).await;

    // block 2 : one heartbeat (100 ms) after block 1. block 1 has burn fee 0, so no work is needed.
    let block2 = t
        .create_block(t.latest_block_hash, ts0 + 100, 1, 1_000, 0, false)
        .await;
    let block2_hash = block2.hash;
    let result = t.add_block(block2).await;
    assert!(
        matches!(result, AddBlockResult::BlockAddedSuccessfully(_, true, _)),
        "setup: block 2 must be accepted"
    );
    let (parent_burnfee, parent_ts) = {
        let blockchain = t.blockchain_lock.read().await;
        let b = blockchain.get_block(&block2_hash).unwrap();
        (b.burnfee, b.timestamp)
    };
    assert_eq!(parent_burnfee, 50_000_000, "setup: burn fee of block 2");

    // block 3 comes 100 ms after block 2 : 50_000_000 / 100 = 500_000 nolan of routing work needed
    let ts3 = parent_ts + 100;
    let work_needed =
        BurnFee::return_routing_work_needed_to_produce_block_in_nolan(parent_burnfee, ts3, parent_ts, 100);
    assert_eq!(work_needed, 500_000, "setup: work needed for block 3");

    // parties : S = sender (the wallet of the test manager), R = an honest router,
    // C = the block creator, X = a throw-away key that never saw the transaction on its way
    let (s_public, s_private) = {
        let wallet = t.wallet_lock.read().await;
        (wallet.public_key, wallet.private_key)
    };
    let (r_public, r_private) = generate_keys();
    let (c_public, c_private) = generate_keys();
    let (x_public, x_private) = generate_keys();

    // a transaction of S paying a fee of 800_000
    let mut tx = {
        let mut wallet = t.wallet_lock.write().await;
        Transaction::create(&mut wallet, s_public, 1_000, 800_000, false, None, 2, 100).unwrap()
    };
    tx.sign(&s_private);

    // honest routing : S -> R -> C. two hops, so C holds half of the fee as work : 400_000
    let mut tx_honest = tx.clone();
    tx_honest
        .path
        .push(Hop::generate(&s_private, &s_public, &r_public, &tx_honest));
    tx_honest
        .path
        .push(Hop::generate(&r_private, &r_public, &c_public, &tx_honest));
    assert!(tx_honest.validate_routing_path(), "setup: honest path is valid");

    // hostile : C throws the real path away and attaches one hop X -> C signed with X's key.
    // S never handed the transaction to X : the path does not start at the sender.
    let mut tx_rerooted = tx.clone();
    tx_rerooted
        .path
        .push(Hop::generate(&x_private, &x_public, &c_public, &tx_rerooted));
    assert_ne!(tx_rerooted.path[0].from, tx_rerooted.from[0].public_key);

    // control : the honestly routed block is fine once no work is needed (two heartbeats) ...
    let (block, valid) = build(&t, &tx_honest, block2_hash, parent_ts + 200, &c_public, &c_private).await;
    assert_eq!(block.total_work, 400_000, "control: work of the honest path");
    assert!(valid, "control: the honestly routed block validates when no work is needed");
    // ... and is refused at 100 ms, where 400_000 < 500_000
    let (block, valid) = build(&t, &tx_honest, block2_hash, ts3, &c_public, &c_private).await;
    assert_eq!(block.total_work, 400_000, "control: work of the honest path");
    assert!(!valid, "control: the honestly routed block lacks work at 100 ms and must be refused");

    // the block with the re-rooted path, same timestamp
    let (block3, _) = build(&t, &tx_rerooted, block2_hash, ts3, &c_public, &c_private).await;
    let total_work = block3.total_work;
    let result = t.add_block(block3).await;
    let accepted = matches!(result, AddBlockResult::BlockAddedSuccessfully(_, _, _));
    if !(!accepted) { witness(format!("block 3 was accepted 100 ms after its parent (burn fee 50000000, so {} nolan of routing work required) with total_work {} taken from a transaction of sender S whose only hop is X->creator signed by an unrelated key X: the path does not start at the sender, so no contiguous path carried this fee to the creator (the real path S->R->creator is worth 400000 and is refused)",
        work_needed, total_work)); }
}

/// C08: the transactions a block producer generates (rebroadcasts, fee, issuance) bring no routing work: a hop with a garbage
/// signature glued onto each rebroadcast must not help a block meet the work requirement — scenario of an independent audit
#[tokio::test]
#[serial_test::serial]
async fn forged_hop_on_a_rebroadcast_counts_as_no_work() {
    #[allow(unused_imports)] use crate::core::consensus::wallet::Wallet;
    #[allow(unused_imports)] use crate::core::util::crypto::generate_keys;
    #[allow(unused_imports)] use ahash::AHashMap;
    use crate::core::consensus::blockchain::AddBlockResult;
    use crate::core::consensus::burnfee::BurnFee;
    use crate::core::consensus::hop::Hop;
    use std::ops::Deref;

    // builds a block of creator `c_public` on `parent` carrying `txs` (plus whatever rebroadcasts are due)
    async fn build(
        t: &TestManager,
        txs: Vec<Transaction>,
        golden_ticket: Option<Transaction>,
        parent: SaitoHash,
        timestamp: u64,
        c_public: &SaitoPublicKey,
        c_private: &SaitoPrivateKey,
    ) -> Block {
        let configs = t.config_lock.read().await;
        let blockchain = t.blockchain_lock.read().await;
        let mut map: AHashMap<crate::core::defs::SaitoSignature, Transaction> = Default::default();
        for mut tx in txs {
            tx.generate(c_public, 0, 0);
            map.insert(tx.signature, tx);
        }
        let mut block = Block::create(
            &mut map,
            parent,
            blockchain.deref(),
            timestamp,
            c_public,
            c_private,
            golden_ticket,
            configs.deref(),
            &t.storage,
        )
        .await
        .unwrap();
        block.generate().unwrap();
        block
    }
    async fn validates(t: &TestManager, block: &Block) -> bool {
        let configs = t.config_lock.read().await;
        let blockchain = t.blockchain_lock.read().await;
        block
            .validate(blockchain.deref(), &blockchain.utxoset, configs.deref(), &t.storage, true)
            .await
    }

    let mut t = TestManager::default();
    let ts0: u64 = 1_000_000;
    // 130 issuance outputs of 1_000_000_000 nolan in block 1 : those still unspent when block 102
    // is made are rebroadcast by it (genesis period of the test configuration : 100)
    t.initialize_with_timestamp(130, 1_000_000_000, ts0).await;

    // S = sender (wallet of the test manager), R = router, C = creator of every block, X = a made-up key
    let (s_public, s_private) = {
        let wallet = t.wallet_lock.read().await;
        (wallet.public_key, wallet.private_key)
    };
    let (r_public, r_private) = generate_keys();
    let (c_public, c_private) = generate_keys();
    let (x_public, _x_private) = generate_keys();

    // blocks 2..=101, one heartbeat (100 ms) apart, each with one transaction of S (fee 2_000_000)
    // honestly routed S -> R -> C : 1_000_000 of work for C, 500_000 needed (burn fee stays 50_000_000).
    // every second block carries a golden ticket (the chain needs 2 in any 6 blocks)
    for id in 2..=101u64 {
        let parent = t.latest_block_hash;
        let parent_ts = t.get_latest_block().await.timestamp;
        let mut tx = {
            let mut wallet = t.wallet_lock.write().await;
            Transaction::create(&mut wallet, s_public, 1_000, 2_000_000, false, None, id - 1, 100).unwrap()
        };
        tx.sign(&s_private);
        let hop = Hop::generate(&s_private, &s_public, &r_public, &tx);
        tx.path.push(hop);
        let hop = Hop::generate(&r_private, &r_public, &c_public, &tx);
        tx.path.push(hop);
        let golden_ticket = if id % 2 == 0 {
            let difficulty = t.get_latest_block().await.difficulty;
            let gt = TestManager::create_golden_ticket(t.wallet_lock.clone(), parent, difficulty).await;
            let mut gttx = Wallet::create_golden_ticket_transaction(gt, &s_public, &s_private).await;
            gttx.generate(&c_public, 0, 0);
            Some(gttx)
        } else {
            None
        };
        let block = build(&t, vec![tx], golden_ticket, parent, parent_ts + 100, &c_public, &c_private).await;
        assert_eq!(block.id, id);
        assert_eq!(block.total_work, 1_000_000, "setup: work of block {}", id);
        let result = t.add_block(block).await;
        assert!(
            matches!(result, AddBlockResult::BlockAddedSuccessfully(_, true, _)),
            "setup: block {} must be accepted",
            id
        );
    }
    let parent = t.get_latest_block().await;
    assert_eq!(parent.id, 101);
    assert_eq!(parent.burnfee, 50_000_000, "setup: burn fee of block 101");
    assert!(parent.avg_fee_per_byte > 0, "setup: rebroadcasts pay a fee");
    let work_needed = BurnFee::return_routing_work_needed_to_produce_block_in_nolan(
        parent.burnfee,
        parent.timestamp + 100,
        parent.timestamp,
        100,
    );
    assert_eq!(work_needed, 500_000, "setup: work needed 100 ms after block 101");

    // control 1 : block 102 with nothing but the rebroadcasts that are due is a valid block
    // when no work is needed (two heartbeats after the parent)
    let honest_late = build(&t, vec![], None, parent.hash, parent.timestamp + 200, &c_public, &c_private).await;
    let atr_count = honest_late
        .transactions
        .iter()
        .filter(|tx| tx.transaction_type == TransactionType::ATR)
        .count();
    assert!(atr_count > 0, "setup: block 102 carries rebroadcasts");
    assert_eq!(honest_late.transactions.len(), atr_count);
    assert_eq!(honest_late.total_work, 0, "control: rebroadcasts carry no routing work");
    assert!(validates(&t, &honest_late).await, "control: honest block 102 validates at +200 ms");

    // control 2 : the same block 100 ms after the parent has 0 < 500_000 work and is refused
    let honest_early = build(&t, vec![], None, parent.hash, parent.timestamp + 100, &c_public, &c_private).await;
    assert_eq!(honest_early.total_work, 0);
    assert!(
        !validates(&t, &honest_early).await,
        "control: honest block 102 at +100 ms lacks routing work and must be refused"
    );

    // hostile : same block, but the creator glues a hop X -> C with an all-zero signature onto
    // every rebroadcast transaction. nobody routed anything, nobody signed anything.
    let mut hostile = build(&t, vec![], None, parent.hash, parent.timestamp + 100, &c_public, &c_private).await;
    let mut atr_fees: Currency = 0;
    for tx in hostile.transactions.iter_mut() {
        assert_eq!(tx.transaction_type, TransactionType::ATR);
        tx.path.push(Hop {
            from: x_public,
            to: c_public,
            sig: [0; 64],
        });
        assert!(!tx.validate_routing_path(), "setup: the glued-on hop is not validly signed");
        atr_fees += tx.total_fees;
    }
    assert!(atr_fees >= work_needed, "setup: rebroadcast fees {} cover the work needed", atr_fees);
    hostile.merkle_root = hostile.generate_merkle_root(false, false);
    hostile.generate_pre_hash();
    hostile.sign(&c_private);
    hostile.generate().unwrap();
    let total_work = hostile.total_work;

    let result = t.add_block(hostile).await;
    let accepted = matches!(result, AddBlockResult::BlockAddedSuccessfully(_, _, _));
    if !(!accepted) { witness(format!("block 102 was accepted 100 ms after its parent ({} nolan of routing work required) with total_work {} that comes only from hops X->creator with an all-zero signature glued onto its {} rebroadcast (ATR) transactions: rebroadcasts skip validate_routing_path, so work was counted over paths that are not cryptographically valid (the same block without the forged hops has work 0 and is refused)",
        work_needed, total_work, atr_count)); }
}

/// C02: a golden ticket naming the all-zero key as its solver loses nobody's money — the miner's share goes to the graveyard like a
/// router's share the lottery could not place — scenario of an independent audit
#[tokio::test]
#[serial_test::serial]
async fn miner_share_under_the_zero_key_is_not_lost() {
    #[allow(unused_imports)] use crate::core::consensus::wallet::Wallet;
    #[allow(unused_imports)] use crate::core::util::crypto::generate_keys;
    #[allow(unused_imports)] use ahash::AHashMap;
    use crate::core::consensus::blockchain::Blockchain;
    use crate::core::consensus::golden_ticket::GoldenTicket;
    use crate::core::util::crypto::{generate_random_bytes, hash};
    use futures::FutureExt;
    use std::ops::Deref;

    // the quantity the property talks about, in unbounded (u128) arithmetic
    fn audit_supply(blockchain: &Blockchain, genesis_period: u64) -> u128 {
        let latest = blockchain.get_latest_block().expect("a latest block");
        let mut supply: u128 = 0;
        for (key, spendable) in blockchain.utxoset.iter() {
            if !*spendable {
                continue;
            }
            let slip = Slip::parse_slip_from_utxokey(key).unwrap();
            if slip.slip_type == SlipType::Bound {
                continue;
            }
            if slip.block_id < latest.id.saturating_sub(genesis_period) {
                continue;
            }
            supply += slip.amount as u128;
        }
        supply
            + latest.treasury as u128
            + latest.graveyard as u128
            + latest.previous_block_unpaid as u128
            + latest.total_fees as u128
    }

    // a block on the tip with `txs` transactions paying `fee` each and a golden ticket, valid for
    // the tip's difficulty, that names `miner_key` as the miner
    async fn audit_block_with_ticket(
        t: &mut TestManager,
        miner_key: SaitoPublicKey,
        txs: usize,
        fee: Currency,
    ) -> Block {
        let configs = t.config_lock.read().await;
        let genesis_period = configs.get_consensus_config().unwrap().genesis_period;
        let blockchain = t.blockchain_lock.read().await;
        let parent = blockchain.get_latest_block().unwrap();
        let parent_hash = parent.hash;
        let (public_key, private_key) = {
            let wallet = t.wallet_lock.read().await;
            (wallet.public_key, wallet.private_key)
        };
        let mut transactions: AHashMap<crate::core::defs::SaitoSignature, Transaction> =
            Default::default();
        for _ in 0..txs {
            let mut tx = {
                let mut wallet = t.wallet_lock.write().await;
                Transaction::create(
                    &mut wallet,
                    public_key,
                    100,
                    fee,
                    false,
                    None,
                    parent.id,
                    genesis_period,
                )
                .unwrap()
            };
            tx.sign(&private_key);
            tx.generate(&public_key, 0, 0);
            transactions.insert(tx.signature, tx);
        }
        let ticket = loop {
            let random = hash(&generate_random_bytes(32).await);
            let ticket = GoldenTicket::create(parent_hash, random, miner_key);
            if ticket.validate(parent.difficulty) {
                break ticket;
            }
        };
        let mut gttx =
            crate::core::consensus::wallet::Wallet::create_golden_ticket_transaction(ticket, &public_key, &private_key).await;
        gttx.generate(&public_key, 0, 0);
        Block::create(
            &mut transactions,
            parent_hash,
            blockchain.deref(),
            parent.timestamp + 120_000,
            &public_key,
            &private_key,
            Some(gttx),
            configs.deref(),
            &t.storage,
        )
        .await
        .unwrap()
    }

    let genesis_period: u64 = 100;
    let mut t = TestManager::default();
    t.initialize(30, 1_000_000).await;
    let my_key = t.wallet_lock.read().await.public_key;

    let issued: u128 = {
        let blockchain = t.blockchain_lock.read().await;
        audit_supply(&blockchain, genesis_period)
    };
    assert_eq!(issued, 30_000_000, "setup: the genesis block issues 30 x 1000000 nolan");

    // block 2: transactions paying 10000 nolan each, no golden ticket
    let block2 = t
        .create_block(
            t.latest_block_hash,
            t.get_latest_block().await.timestamp + 120_000,
            5,
            100,
            10_000,
            false,
        )
        .await;
    t.add_block(block2).await;
    {
        let blockchain = t.blockchain_lock.read().await;
        assert_eq!(blockchain.get_latest_block_id(), 2);
        assert!(
            blockchain.get_latest_block().unwrap().total_fees >= 10_000,
            "setup: block 2 collects fees"
        );
        assert_eq!(audit_supply(&blockchain, genesis_period), issued);
    }

    // control, block 3: a golden ticket that names a real key pays out the fees of block 2 and
    // conserves the supply
    let block3 = audit_block_with_ticket(&mut t, my_key, 5, 10_000).await;
    let honest_miner_payout = block3.total_payout_mining;
    t.add_block(block3).await;
    {
        let blockchain = t.blockchain_lock.read().await;
        let block = blockchain.get_latest_block().unwrap();
        assert_eq!(block.id, 3, "control: the block with an honest golden ticket is accepted");
        assert!(block.has_golden_ticket && block.has_fee_transaction);
        assert!(honest_miner_payout > 0);
        if !(block.transactions[block.fee_transaction_index as usize]
                .to
                .iter()
                .any(|s| s.slip_type == SlipType::MinerOutput
                    && s.amount == honest_miner_payout)) { witness(format!("control: the miner named by the ticket is paid {} nolan",
            honest_miner_payout)); }
        assert_eq!(
            audit_supply(&blockchain, genesis_period),
            issued,
            "control: the payout of block 3 conserves the supply"
        );
    }

    // block 4: the same, but the ticket names the all-zero key as miner
    let block4 = audit_block_with_ticket(&mut t, [0u8; 33], 5, 10_000).await;
    let dropped = block4.total_payout_mining;
    assert!(dropped > 0, "setup: a miner payout is due for the fees of block 3");
    let block4_hash = block4.hash;
    // (the node's own check aborts the process once the block has been wound in)
    let outcome = std::panic::AssertUnwindSafe(t.add_block(block4))
        .catch_unwind()
        .await;
    let node_aborted = outcome.is_err();

    let blockchain = t.blockchain_lock.read().await;
    assert_eq!(
        blockchain.get_latest_block_hash(),
        block4_hash,
        "setup: block 4 passed Block::validate and was wound in as the tip"
    );
    let block = blockchain.get_latest_block().unwrap();
    assert!(block.has_golden_ticket);
    let paid_out: u64 = block
        .transactions
        .iter()
        .filter(|t| t.transaction_type == TransactionType::Fee)
        .flat_map(|t| t.to.iter())
        .map(|s| s.amount)
        .sum();
    let after = audit_supply(&blockchain, genesis_period);
    assert_eq!(
        after,
        issued,
        "the golden ticket of block 4 names the all-zero key as miner: the miner's share of block 3's fees, {} nolan (block.total_payout_mining), is neither paid out (the fee transaction pays {} nolan in total, to the router) nor added to the graveyard ({}) or treasury ({}): spendable outputs + treasury + graveyard + unpaid + tip fees = {} instead of the {} issued, {} nolan are lost (node aborted in check_total_supply: {})",
        dropped,
        paid_out,
        block.total_payout_graveyard,
        block.total_payout_treasury,
        after,
        issued,
        issued - after,
        node_aborted
    );
}

/// C13/C02: the payload of an NFT-bound group comes back from its rebroadcast with value x multiplier MINUS the rebroadcast fee
/// the block books for it — built through Block::create like any block (scenario of an independent audit; replaces the earlier twin
/// that copied the call site by hand)
#[tokio::test]
#[serial_test::serial]
async fn nft_group_rebroadcast_pays_the_fee() {
    #[allow(unused_imports)] use crate::core::util::crypto::generate_keys;
    #[allow(unused_imports)] use ahash::AHashMap;
    #[allow(unused_imports)] use crate::core::consensus::wallet::Wallet;
    #[allow(unused_imports)] use crate::core::util::test::test_manager::test::TestManager;
    #[allow(unused_imports)] use crate::core::consensus::slip::Slip;
    #[allow(unused_imports)] use crate::core::consensus::slip::SlipType;
    #[allow(unused_imports)] use crate::core::defs::Currency;
    #[allow(unused_imports)] use crate::core::consensus::transaction::Transaction;
    #[allow(unused_imports)] use crate::core::consensus::transaction::TransactionType;
    #[allow(unused_imports)] use crate::core::consensus::block::Block;
    #[allow(unused_imports)] use crate::core::defs::SaitoPublicKey;
    use crate::core::consensus::blockchain::{AddBlockResult, Blockchain};
    use crate::core::util::configuration::{
        BlockchainConfig, Configuration, ConsensusConfig, PeerConfig, Server,
    };
    use std::sync::Arc;
    use tokio::sync::RwLock;

    // a configuration with a short retention window (genesis_period = 10), so that the window
    // wraps within a few blocks; everything else as in TestManager::default()
    #[derive(Debug)]
    struct Cfg {
        consensus: ConsensusConfig,
        blockchain: BlockchainConfig,
        peers: Vec<PeerConfig>,
    }
    impl Configuration for Cfg {
        fn get_server_configs(&self) -> Option<&Server> {
            None
        }
        fn get_peer_configs(&self) -> &Vec<PeerConfig> {
            &self.peers
        }
        fn get_blockchain_configs(&self) -> &BlockchainConfig {
            &self.blockchain
        }
        fn get_block_fetch_url(&self) -> String {
            "".to_string()
        }
        fn is_spv_mode(&self) -> bool {
            false
        }
        fn is_browser(&self) -> bool {
            false
        }
        fn replace(&mut self, _config: &dyn Configuration) {}
        fn get_consensus_config(&self) -> Option<&ConsensusConfig> {
            Some(&self.consensus)
        }
    }
    // an honest block on the current tip: Block::create with the golden ticket handed over the
    // way the mempool does (TestManager::create_block puts it among the normal transactions,
    // which sets previous_block_unpaid wrongly as soon as blocks carry fees)
    async fn mk_block(t: &mut TestManager, txs: Vec<Transaction>, with_gt: bool, ts: u64) -> Block {
        let (public_key, private_key) = {
            let w = t.wallet_lock.read().await;
            (w.public_key, w.private_key)
        };
        let parent_hash = t.latest_block_hash;
        let mut map: AHashMap<crate::core::defs::SaitoSignature, Transaction> =
            Default::default();
        for tx in txs {
            map.insert(tx.signature, tx);
        }
        let mut gt_tx = None;
        if with_gt {
            let difficulty = {
                let bc = t.blockchain_lock.read().await;
                bc.get_block(&parent_hash).unwrap().difficulty
            };
            let gt = TestManager::create_golden_ticket(
                t.wallet_lock.clone(),
                parent_hash,
                difficulty,
            )
            .await;
            let mut gttx =
                crate::core::consensus::wallet::Wallet::create_golden_ticket_transaction(gt, &public_key, &private_key).await;
            gttx.generate(&public_key, 0, 0);
            gt_tx = Some(gttx);
        }
        let configs = t.config_lock.read().await;
        let blockchain = t.blockchain_lock.read().await;
        let mut block = Block::create(
            &mut map,
            parent_hash,
            &blockchain,
            ts,
            &public_key,
            &private_key,
            gt_tx,
            &*configs,
            &t.storage,
        )
        .await
        .unwrap();
        block.generate().unwrap();
        block.sign(&private_key);
        block
    }
    // a signed payment from the node's wallet
    async fn mk_tx(
        t: &mut TestManager,
        to: SaitoPublicKey,
        amount: Currency,
        fee: Currency,
        gp: u64,
    ) -> Transaction {
        let latest = t.blockchain_lock.read().await.get_latest_block_id();
        let mut w = t.wallet_lock.write().await;
        let pk = w.public_key;
        let sk = w.private_key;
        let mut tx =
            Transaction::create(&mut w, to, amount, fee, false, None, latest, gp).unwrap();
        tx.sign(&sk);
        tx.generate(&pk, 0, 0);
        tx
    }

    let gp: u64 = 10;
    let mut t = TestManager::default();
    t.config_lock = Arc::new(RwLock::new(Cfg {
        consensus: ConsensusConfig {
            genesis_period: gp,
            heartbeat_interval: 100,
            prune_after_blocks: 8,
            max_staker_recursions: 3,
            default_social_stake: 0,
            default_social_stake_period: 60,
        },
        blockchain: BlockchainConfig::default(),
        peers: vec![],
    }));
    {
        let mut bc = t.blockchain_lock.write().await;
        *bc = Blockchain::new(t.wallet_lock.clone(), gp, 0, 60);
    }
    // block 1: one issuance slip of 10_000_000 for the node's wallet
    t.initialize_with_timestamp(1, 10_000_000, 1_000_000).await;
    let nft_owner = generate_keys().0;
    let plain_owner = generate_keys().0;
    let other_pk = generate_keys().0;
    let (my_pk, my_sk) = {
        let w = t.wallet_lock.read().await;
        (w.public_key, w.private_key)
    };

    // block 2: one create-NFT transaction. outputs: [Bound 1][Normal 5000 -> nft_owner][Bound 0]
    // [Normal 5000 -> plain_owner][change]. the plain 5000 output is the control: same
    // transaction, same amount, same rebroadcast fee.
    let nft_tx = {
        let input = {
            let bc = t.blockchain_lock.read().await;
            let b1 = bc.get_latest_block().unwrap();
            assert_eq!(b1.id, 1);
            b1.transactions
                .iter()
                .flat_map(|tx| tx.to.iter())
                .find(|s| s.public_key == my_pk && s.amount == 10_000_000)
                .unwrap()
                .clone()
        };
        let mut tx = Transaction::default();
        tx.transaction_type = TransactionType::Bound;
        tx.timestamp = 1_000_001;
        tx.add_from_slip(input.clone());
        tx.add_to_slip(Slip {
            public_key: my_pk,
            amount: 1,
            slip_type: SlipType::Bound,
            ..Default::default()
        });
        tx.add_to_slip(Slip {
            public_key: nft_owner,
            amount: 5000,
            ..Default::default()
        });
        tx.add_to_slip(Slip {
            public_key: Wallet::create_nft_uuid(&input, "audit"),
            amount: 0,
            slip_type: SlipType::Bound,
            ..Default::default()
        });
        tx.add_to_slip(Slip {
            public_key: plain_owner,
            amount: 5000,
            ..Default::default()
        });
        tx.add_to_slip(Slip {
            public_key: my_pk,
            // no fee: the fee of a Bound transaction is not counted by the block (see report)
            amount: 10_000_000 - 5000 - 5000,
            ..Default::default()
        });
        tx.sign(&my_sk);
        tx.generate(&my_pk, 0, 0);
        tx
    };
    let ts = t.get_latest_block().await.timestamp + 120_000;
    let block2 = mk_block(&mut t, vec![nft_tx], true, ts).await;
    let res = t.add_block(block2).await;
    assert!(matches!(res, AddBlockResult::BlockAddedSuccessfully(..)), "setup: the block with the create-NFT transaction is accepted");

    // blocks 3..=12: ordinary payments with a fee of 6000, so that there is a fee level
    for i in 3..=12u64 {
        let ts = t.get_latest_block().await.timestamp + 120_000;
        let tx = mk_tx(&mut t, other_pk, 5000, 6000, gp).await;
        let block = mk_block(&mut t, vec![tx], i % 2 == 0, ts).await;
        let res = t.add_block(block).await;
        assert!(matches!(res, AddBlockResult::BlockAddedSuccessfully(..)), "setup: block {} is accepted", i);
    }

    // block 13 = 2 + genesis_period + 1 rebroadcasts what is left unspent of block 2
    let ts = t.get_latest_block().await.timestamp + 120_000;
    let tx = mk_tx(&mut t, other_pk, 5000, 6000, gp).await;
    let block13 = mk_block(&mut t, vec![tx], false, ts).await;
    let atr: Vec<Transaction> = block13
        .transactions
        .iter()
        .filter(|tx| tx.transaction_type == TransactionType::ATR)
        .cloned()
        .collect();
    let (fees_atr, payout_atr) = (block13.total_fees_atr, block13.total_payout_atr);
    // the block passes the node's own validation (it is not added here: Blockchain::add_block
    // would accept it and then panic in check_total_supply over the nolan created below)
    {
        let bc = t.blockchain_lock.read().await;
        let configs = t.config_lock.read().await;
        let valid = block13
            .validate(&bc, &bc.utxoset, &*configs, &t.storage, true)
            .await;
        assert!(valid, "setup: block 13 with the rebroadcasts passes Block::validate");
    }
    assert_eq!(payout_atr, 0, "setup: no treasury payout in this history");

    let plain = atr
        .iter()
        .find(|tx| tx.to.len() == 1 && tx.to[0].public_key == plain_owner)
        .expect("setup: the plain output is rebroadcast");
    let nft = atr
        .iter()
        .find(|tx| tx.to.len() == 3 && tx.to[1].public_key == nft_owner)
        .expect("setup: the NFT group is rebroadcast");
    assert_eq!(atr.len(), 2, "setup: two rebroadcasts (the change was spent in block 3)");
    assert_eq!(fees_atr % 2, 0);
    let fee = fees_atr / 2; // both come from the same transaction, so both owe the same fee
    assert!(fee > 0 && fee < 5000, "setup: there is a rebroadcast fee and 5000 nolan can pay it");
    // control: the plain output pays the fee
    assert_eq!(plain.to[0].amount, 5000 - fee, "control: a plain 5000-nolan output reappears as 5000 minus the fee");
    if !((nft.to[1].amount) == (5000 - fee)) { witness(format!("the 5000-nolan payload slip of the NFT group of block 2 reappears in block 13 with {} nolan although block 13 books a rebroadcast fee of {} nolan for it (total_fees_atr {} for two rebroadcasts; the plain 5000-nolan output of the same transaction reappears with {}): the fee is paid out to miners/routers without being taken from the owner, {} nolan are created", nft.to[1].amount, fee, fees_atr, plain.to[0].amount, fee)); }
}

/// C13 ("and the original becomes unspendable"): with a payout multiplier above 1 the input of the rebroadcast still names the
/// expiring output (known finding: the input is given the paid-out amount, its ledger key is regenerated from it and matches nothing)
/// — scenario of an independent audit
#[tokio::test]
#[serial_test::serial]
async fn rebroadcast_with_a_treasury_payout_spends_the_expiring_output() {
    #[allow(unused_imports)] use crate::core::util::crypto::generate_keys;
    #[allow(unused_imports)] use ahash::AHashMap;
    #[allow(unused_imports)] use crate::core::consensus::wallet::Wallet;
    #[allow(unused_imports)] use crate::core::util::test::test_manager::test::TestManager;
    #[allow(unused_imports)] use crate::core::defs::Currency;
    #[allow(unused_imports)] use crate::core::consensus::transaction::Transaction;
    #[allow(unused_imports)] use crate::core::consensus::transaction::TransactionType;
    #[allow(unused_imports)] use crate::core::consensus::block::Block;
    #[allow(unused_imports)] use crate::core::defs::SaitoPublicKey;
    use crate::core::consensus::blockchain::{AddBlockResult, Blockchain};
    use crate::core::util::configuration::{
        BlockchainConfig, Configuration, ConsensusConfig, PeerConfig, Server,
    };
    use std::sync::Arc;
    use tokio::sync::RwLock;

    // a configuration with a short retention window (genesis_period = 10), so that the window
    // wraps within a few blocks; everything else as in TestManager::default()
    #[derive(Debug)]
    struct Cfg {
        consensus: ConsensusConfig,
        blockchain: BlockchainConfig,
        peers: Vec<PeerConfig>,
    }
    impl Configuration for Cfg {
        fn get_server_configs(&self) -> Option<&Server> {
            None
        }
        fn get_peer_configs(&self) -> &Vec<PeerConfig> {
            &self.peers
        }
        fn get_blockchain_configs(&self) -> &BlockchainConfig {
            &self.blockchain
        }
        fn get_block_fetch_url(&self) -> String {
            "".to_string()
        }
        fn is_spv_mode(&self) -> bool {
            false
        }
        fn is_browser(&self) -> bool {
            false
        }
        fn replace(&mut self, _config: &dyn Configuration) {}
        fn get_consensus_config(&self) -> Option<&ConsensusConfig> {
            Some(&self.consensus)
        }
    }
    // an honest block on the current tip: Block::create with the golden ticket handed over the
    // way the mempool does (TestManager::create_block puts it among the normal transactions,
    // which sets previous_block_unpaid wrongly as soon as blocks carry fees)
    async fn mk_block(t: &mut TestManager, txs: Vec<Transaction>, with_gt: bool, ts: u64) -> Block {
        let (public_key, private_key) = {
            let w = t.wallet_lock.read().await;
            (w.public_key, w.private_key)
        };
        let parent_hash = t.latest_block_hash;
        let mut map: AHashMap<crate::core::defs::SaitoSignature, Transaction> =
            Default::default();
        for tx in txs {
            map.insert(tx.signature, tx);
        }
        let mut gt_tx = None;
        if with_gt {
            let difficulty = {
                let bc = t.blockchain_lock.read().await;
                bc.get_block(&parent_hash).unwrap().difficulty
            };
            let gt = TestManager::create_golden_ticket(
                t.wallet_lock.clone(),
                parent_hash,
                difficulty,
            )
            .await;
            let mut gttx =
                crate::core::consensus::wallet::Wallet::create_golden_ticket_transaction(gt, &public_key, &private_key).await;
            gttx.generate(&public_key, 0, 0);
            gt_tx = Some(gttx);
        }
        let configs = t.config_lock.read().await;
        let blockchain = t.blockchain_lock.read().await;
        let mut block = Block::create(
            &mut map,
            parent_hash,
            &blockchain,
            ts,
            &public_key,
            &private_key,
            gt_tx,
            &*configs,
            &t.storage,
        )
        .await
        .unwrap();
        block.generate().unwrap();
        block.sign(&private_key);
        block
    }
    // a signed payment from the node's wallet
    async fn mk_tx(
        t: &mut TestManager,
        to: SaitoPublicKey,
        amount: Currency,
        fee: Currency,
        gp: u64,
    ) -> Transaction {
        let latest = t.blockchain_lock.read().await.get_latest_block_id();
        let mut w = t.wallet_lock.write().await;
        let pk = w.public_key;
        let sk = w.private_key;
        let mut tx =
            Transaction::create(&mut w, to, amount, fee, false, None, latest, gp).unwrap();
        tx.sign(&sk);
        tx.generate(&pk, 0, 0);
        tx
    }

    let gp: u64 = 10;
    let mut t = TestManager::default();
    t.config_lock = Arc::new(RwLock::new(Cfg {
        consensus: ConsensusConfig {
            genesis_period: gp,
            heartbeat_interval: 100,
            prune_after_blocks: 8,
            max_staker_recursions: 3,
            default_social_stake: 0,
            default_social_stake_period: 60,
        },
        blockchain: BlockchainConfig::default(),
        peers: vec![],
    }));
    {
        let mut bc = t.blockchain_lock.write().await;
        *bc = Blockchain::new(t.wallet_lock.clone(), gp, 0, 60);
    }
    // block 1: one issuance slip of 10_000_000 for the node's wallet
    t.initialize_with_timestamp(1, 10_000_000, 1_000_000).await;
    let other_pk = generate_keys().0;

    // blocks 2..=13: each pays 5000 nolan to `other_pk` (never spent) with a fee of 6000; every
    // second block carries a golden ticket, which funds the treasury
    for i in 2..=13u64 {
        let ts = t.get_latest_block().await.timestamp + 120_000;
        let tx = mk_tx(&mut t, other_pk, 5000, 6000, gp).await;
        let block = mk_block(&mut t, vec![tx], i % 2 == 0, ts).await;
        if i == 13 {
            // control: no treasury payout yet (multiplier 1): the rebroadcast transaction that
            // generate_consensus_values built names the real output of block 2 and validates
            let atr: Vec<&Transaction> = block
                .transactions
                .iter()
                .filter(|tx| tx.transaction_type == TransactionType::ATR)
                .collect();
            assert_eq!(atr.len(), 1);
            assert_eq!(atr[0].from[0].block_id, 2);
            assert_eq!(atr[0].from[0].amount, 5000);
            let bc = t.blockchain_lock.read().await;
            assert_eq!(bc.utxoset.get(&atr[0].from[0].utxoset_key), Some(&true));
            assert!(atr[0].validate(&bc.utxoset, &bc, true), "control: rebroadcast without payout validates");
        }
        let res = t.add_block(block).await;
        assert!(matches!(res, AddBlockResult::BlockAddedSuccessfully(..)), "setup: block {} is accepted", i);
    }

    // the output of block 3 that is due now
    let (treasury, avg_rebroadcast, due) = {
        let bc = t.blockchain_lock.read().await;
        let tip = bc.get_latest_block().unwrap();
        let h3 = bc.blockring.get_longest_chain_block_hash_at_block_id(3).unwrap();
        let mut b3 = Block::deserialize_from_net(
            &t.storage
                .read(&t.storage.generate_block_filepath(bc.get_block(&h3).unwrap()))
                .await
                .unwrap(),
        )
        .unwrap();
        b3.generate().unwrap();
        let due = b3
            .transactions
            .iter()
            .flat_map(|tx| tx.to.iter())
            .find(|s| s.public_key == other_pk)
            .unwrap()
            .clone();
        assert_eq!(due.amount, 5000);
        assert_eq!(bc.utxoset.get(&due.utxoset_key), Some(&true), "setup: the output of block 3 is unspent");
        (tip.treasury, tip.avg_nolan_rebroadcast_per_block, due)
    };
    let multiplier = 1 + treasury / (gp * avg_rebroadcast);
    assert!(multiplier >= 2, "setup: the treasury pays out");

    // the rebroadcast transaction generate_consensus_values builds for it (taken from the block
    // Block::create assembles; the input slip is the same on the creating and on the validating side)
    let ts = t.get_latest_block().await.timestamp + 120_000;
    let tx = mk_tx(&mut t, other_pk, 5000, 6000, gp).await;
    let block14 = mk_block(&mut t, vec![tx], true, ts).await;
    let atr: Vec<&Transaction> = block14
        .transactions
        .iter()
        .filter(|tx| tx.transaction_type == TransactionType::ATR)
        .collect();
    assert_eq!(atr.len(), 1, "setup: block 14 rebroadcasts the one unspent output of block 3");
    let input = &atr[0].from[0];
    assert_eq!(
        (input.public_key, input.block_id, input.tx_ordinal, input.slip_index),
        (due.public_key, due.block_id, due.tx_ordinal, due.slip_index),
        "setup: the rebroadcast is meant to spend the output of block 3"
    );
    let bc = t.blockchain_lock.read().await;
    let valid = atr[0].validate(&bc.utxoset, &bc, true);
    if !(valid && input.utxoset_key == due.utxoset_key) { witness(format!("the rebroadcast of the 5000-nolan output (block {}, tx {}, slip {}) names an input of {} nolan (5000 x payout multiplier {}): its utxoset key is not the key of the output (in utxoset: {}), so Transaction::validate refuses the rebroadcast (validates: {}) and with it every block that carries it, and applying it would leave the original 5000-nolan output marked unspent", due.block_id, due.tx_ordinal, due.slip_index, input.amount, multiplier, bc.utxoset.contains_key(&input.utxoset_key), valid)); }
}

/// C13: a block whose rebroadcast carries a treasury payout is built and validated with the same numbers (known finding: Block::create
/// computes the consensus values before it assigns the treasury, the 5 % cap then differs between creator and validator) — scenario
/// of an independent audit
#[tokio::test]
#[serial_test::serial]
async fn block_with_a_treasury_payout_passes_its_creators_own_validation() {
    #[allow(unused_imports)] use crate::core::util::crypto::generate_keys;
    #[allow(unused_imports)] use ahash::AHashMap;
    #[allow(unused_imports)] use crate::core::consensus::wallet::Wallet;
    #[allow(unused_imports)] use crate::core::util::test::test_manager::test::TestManager;
    #[allow(unused_imports)] use crate::core::defs::Currency;
    #[allow(unused_imports)] use crate::core::consensus::transaction::Transaction;
    #[allow(unused_imports)] use crate::core::consensus::transaction::TransactionType;
    #[allow(unused_imports)] use crate::core::consensus::block::Block;
    #[allow(unused_imports)] use crate::core::defs::SaitoPublicKey;
    use crate::core::consensus::blockchain::{AddBlockResult, Blockchain};
    use crate::core::util::configuration::{
        BlockchainConfig, Configuration, ConsensusConfig, PeerConfig, Server,
    };
    use std::sync::Arc;
    use tokio::sync::RwLock;

    // a configuration with a short retention window (genesis_period = 10), so that the window
    // wraps within a few blocks; everything else as in TestManager::default()
    #[derive(Debug)]
    struct Cfg {
        consensus: ConsensusConfig,
        blockchain: BlockchainConfig,
        peers: Vec<PeerConfig>,
    }
    impl Configuration for Cfg {
        fn get_server_configs(&self) -> Option<&Server> {
            None
        }
        fn get_peer_configs(&self) -> &Vec<PeerConfig> {
            &self.peers
        }
        fn get_blockchain_configs(&self) -> &BlockchainConfig {
            &self.blockchain
        }
        fn get_block_fetch_url(&self) -> String {
            "".to_string()
        }
        fn is_spv_mode(&self) -> bool {
            false
        }
        fn is_browser(&self) -> bool {
            false
        }
        fn replace(&mut self, _config: &dyn Configuration) {}
        fn get_consensus_config(&self) -> Option<&ConsensusConfig> {
            Some(&self.consensus)
        }
    }
    // an honest block on the current tip: Block::create with the golden ticket handed over the
    // way the mempool does (TestManager::create_block puts it among the normal transactions,
    // which sets previous_block_unpaid wrongly as soon as blocks carry fees)
    async fn mk_block(t: &mut TestManager, txs: Vec<Transaction>, with_gt: bool, ts: u64) -> Block {
        let (public_key, private_key) = {
            let w = t.wallet_lock.read().await;
            (w.public_key, w.private_key)
        };
        let parent_hash = t.latest_block_hash;
        let mut map: AHashMap<crate::core::defs::SaitoSignature, Transaction> =
            Default::default();
        for tx in txs {
            map.insert(tx.signature, tx);
        }
        let mut gt_tx = None;
        if with_gt {
            let difficulty = {
                let bc = t.blockchain_lock.read().await;
                bc.get_block(&parent_hash).unwrap().difficulty
            };
            let gt = TestManager::create_golden_ticket(
                t.wallet_lock.clone(),
                parent_hash,
                difficulty,
            )
            .await;
            let mut gttx =
                crate::core::consensus::wallet::Wallet::create_golden_ticket_transaction(gt, &public_key, &private_key).await;
            gttx.generate(&public_key, 0, 0);
            gt_tx = Some(gttx);
        }
        let configs = t.config_lock.read().await;
        let blockchain = t.blockchain_lock.read().await;
        let mut block = Block::create(
            &mut map,
            parent_hash,
            &blockchain,
            ts,
            &public_key,
            &private_key,
            gt_tx,
            &*configs,
            &t.storage,
        )
        .await
        .unwrap();
        block.generate().unwrap();
        block.sign(&private_key);
        block
    }
    // a signed payment from the node's wallet
    async fn mk_tx(
        t: &mut TestManager,
        to: SaitoPublicKey,
        amount: Currency,
        fee: Currency,
        gp: u64,
    ) -> Transaction {
        let latest = t.blockchain_lock.read().await.get_latest_block_id();
        let mut w = t.wallet_lock.write().await;
        let pk = w.public_key;
        let sk = w.private_key;
        let mut tx =
            Transaction::create(&mut w, to, amount, fee, false, None, latest, gp).unwrap();
        tx.sign(&sk);
        tx.generate(&pk, 0, 0);
        tx
    }

    let gp: u64 = 10;
    let mut t = TestManager::default();
    t.config_lock = Arc::new(RwLock::new(Cfg {
        consensus: ConsensusConfig {
            genesis_period: gp,
            heartbeat_interval: 100,
            prune_after_blocks: 8,
            max_staker_recursions: 3,
            default_social_stake: 0,
            default_social_stake_period: 60,
        },
        blockchain: BlockchainConfig::default(),
        peers: vec![],
    }));
    {
        let mut bc = t.blockchain_lock.write().await;
        *bc = Blockchain::new(t.wallet_lock.clone(), gp, 0, 60);
    }
    // block 1: one issuance slip of 10_000_000 for the node's wallet
    t.initialize_with_timestamp(1, 10_000_000, 1_000_000).await;
    let other_pk = generate_keys().0;

    // blocks 2..=13: each pays 5000 nolan to `other_pk` (never spent) with a fee of 6000; every
    // second block carries a golden ticket, so half of every unpaid block's fees goes to the
    // treasury. block 13 = 2 + genesis_period + 1 is the first block that has to rebroadcast.
    for i in 2..=13u64 {
        let ts = t.get_latest_block().await.timestamp + 120_000;
        let tx = mk_tx(&mut t, other_pk, 5000, 6000, gp).await;
        let block = mk_block(&mut t, vec![tx], i % 2 == 0, ts).await;
        if i == 13 {
            // control: without a treasury payout (no rebroadcast average yet) the rebroadcast works
            let atr: Vec<&Transaction> = block
                .transactions
                .iter()
                .filter(|tx| tx.transaction_type == TransactionType::ATR)
                .collect();
            assert_eq!(atr.len(), 1, "setup: block 13 rebroadcasts the one unspent output of block 2");
            assert_eq!(atr[0].from[0].block_id, 2);
            assert_eq!(atr[0].to[0].public_key, other_pk);
            assert_eq!(block.total_payout_atr, 0);
            assert_eq!(atr[0].to[0].amount, 5000 - block.total_fees_atr);
        }
        let res = t.add_block(block).await;
        assert!(
            matches!(res, AddBlockResult::BlockAddedSuccessfully(..)),
            "setup: block {} is accepted",
            i
        );
    }

    // state before block 14: the output of block 3 (5000 nolan for other_pk) is unspent and due
    let (treasury, avg_rebroadcast, due_key) = {
        let bc = t.blockchain_lock.read().await;
        let tip = bc.get_latest_block().unwrap();
        assert_eq!(tip.id, 13);
        let h3 = bc.blockring.get_longest_chain_block_hash_at_block_id(3).unwrap();
        let b3 = Block::deserialize_from_net(
            &t.storage
                .read(&t.storage.generate_block_filepath(bc.get_block(&h3).unwrap()))
                .await
                .unwrap(),
        )
        .map(|mut b| {
            b.generate().unwrap();
            b
        })
        .unwrap();
        let due = b3
            .transactions
            .iter()
            .flat_map(|tx| tx.to.iter())
            .find(|s| s.public_key == other_pk)
            .unwrap()
            .clone();
        assert_eq!(due.amount, 5000);
        assert_eq!(bc.utxoset.get(&due.utxoset_key), Some(&true), "setup: the output of block 3 is unspent");
        (tip.treasury, tip.avg_nolan_rebroadcast_per_block, due.utxoset_key)
    };
    // the treasury pays out: multiplier = 1 + treasury / (genesis_period * avg rebroadcast) >= 2
    assert!(avg_rebroadcast > 0 && treasury / (gp * avg_rebroadcast) >= 1,
        "setup: treasury {} covers genesis_period {} x avg rebroadcast {}", treasury, gp, avg_rebroadcast);

    // block 14, built by the honest node itself
    let ts = t.get_latest_block().await.timestamp + 120_000;
    let tx = mk_tx(&mut t, other_pk, 5000, 6000, gp).await;
    let block14 = mk_block(&mut t, vec![tx], true, ts).await;
    let atr: Vec<&Transaction> = block14
        .transactions
        .iter()
        .filter(|tx| tx.transaction_type == TransactionType::ATR)
        .collect();
    assert_eq!(atr.len(), 1, "setup: block 14 rebroadcasts the one unspent output of block 3");
    assert_eq!(atr[0].from[0].block_id, 3);
    let header_treasury = block14.treasury;
    let res = t.add_block(block14).await;
    let still_unspent = {
        let bc = t.blockchain_lock.read().await;
        bc.utxoset.get(&due_key) == Some(&true) && bc.get_latest_block_id() == 13
    };
    if !(matches!(res, AddBlockResult::BlockAddedSuccessfully(..))) { witness(format!("block 14 built by Block::create on this node was refused by this node's own Block::validate: the 5000-nolan output of block 3 is due for rebroadcast with a treasury payout (treasury {} >= genesis_period {} x avg rebroadcast {}), the creator capped the payout against its own still-zero treasury field while validate() caps against the header value {}, so the recomputed rebroadcasts differ; the expiring output is neither rebroadcast nor collected (still in the utxoset and tip still 13: {}) and no block can extend the chain", treasury, gp, avg_rebroadcast, header_treasury, still_unspent)); }
}

/// C13/C02: when the 5 % cap on the treasury payout fires, what the rebroadcast outputs receive is what the treasury is debited
/// (known finding: the capped branch multiplies the already paid-out input amount and books nothing) — scenario of an independent audit
#[tokio::test]
#[serial_test::serial]
async fn capped_treasury_payout_is_what_the_outputs_receive() {
    #[allow(unused_imports)] use crate::core::util::crypto::generate_keys;
    #[allow(unused_imports)] use ahash::AHashMap;
    #[allow(unused_imports)] use crate::core::consensus::wallet::Wallet;
    #[allow(unused_imports)] use crate::core::util::test::test_manager::test::TestManager;
    #[allow(unused_imports)] use crate::core::defs::Currency;
    #[allow(unused_imports)] use crate::core::consensus::transaction::Transaction;
    #[allow(unused_imports)] use crate::core::consensus::block::Block;
    #[allow(unused_imports)] use crate::core::defs::SaitoPublicKey;
    #[allow(unused_imports)] use crate::core::util::crypto::hash;
    use crate::core::consensus::blockchain::{AddBlockResult, Blockchain};
    use crate::core::util::configuration::{
        BlockchainConfig, Configuration, ConsensusConfig, PeerConfig, Server,
    };
    use std::sync::Arc;
    use tokio::sync::RwLock;

    // a configuration with a short retention window (genesis_period = 10), so that the window
    // wraps within a few blocks; everything else as in TestManager::default()
    #[derive(Debug)]
    struct Cfg {
        consensus: ConsensusConfig,
        blockchain: BlockchainConfig,
        peers: Vec<PeerConfig>,
    }
    impl Configuration for Cfg {
        fn get_server_configs(&self) -> Option<&Server> {
            None
        }
        fn get_peer_configs(&self) -> &Vec<PeerConfig> {
            &self.peers
        }
        fn get_blockchain_configs(&self) -> &BlockchainConfig {
            &self.blockchain
        }
        fn get_block_fetch_url(&self) -> String {
            "".to_string()
        }
        fn is_spv_mode(&self) -> bool {
            false
        }
        fn is_browser(&self) -> bool {
            false
        }
        fn replace(&mut self, _config: &dyn Configuration) {}
        fn get_consensus_config(&self) -> Option<&ConsensusConfig> {
            Some(&self.consensus)
        }
    }
    // an honest block on the current tip: Block::create with the golden ticket handed over the
    // way the mempool does (TestManager::create_block puts it among the normal transactions,
    // which sets previous_block_unpaid wrongly as soon as blocks carry fees)
    async fn mk_block(t: &mut TestManager, txs: Vec<Transaction>, with_gt: bool, ts: u64) -> Block {
        let (public_key, private_key) = {
            let w = t.wallet_lock.read().await;
            (w.public_key, w.private_key)
        };
        let parent_hash = t.latest_block_hash;
        let mut map: AHashMap<crate::core::defs::SaitoSignature, Transaction> =
            Default::default();
        for tx in txs {
            map.insert(tx.signature, tx);
        }
        let mut gt_tx = None;
        if with_gt {
            let difficulty = {
                let bc = t.blockchain_lock.read().await;
                bc.get_block(&parent_hash).unwrap().difficulty
            };
            let gt = TestManager::create_golden_ticket(
                t.wallet_lock.clone(),
                parent_hash,
                difficulty,
            )
            .await;
            let mut gttx =
                crate::core::consensus::wallet::Wallet::create_golden_ticket_transaction(gt, &public_key, &private_key).await;
            gttx.generate(&public_key, 0, 0);
            gt_tx = Some(gttx);
        }
        let configs = t.config_lock.read().await;
        let blockchain = t.blockchain_lock.read().await;
        let mut block = Block::create(
            &mut map,
            parent_hash,
            &blockchain,
            ts,
            &public_key,
            &private_key,
            gt_tx,
            &*configs,
            &t.storage,
        )
        .await
        .unwrap();
        block.generate().unwrap();
        block.sign(&private_key);
        block
    }
    // a signed payment from the node's wallet
    async fn mk_tx(
        t: &mut TestManager,
        to: SaitoPublicKey,
        amount: Currency,
        fee: Currency,
        gp: u64,
    ) -> Transaction {
        let latest = t.blockchain_lock.read().await.get_latest_block_id();
        let mut w = t.wallet_lock.write().await;
        let pk = w.public_key;
        let sk = w.private_key;
        let mut tx =
            Transaction::create(&mut w, to, amount, fee, false, None, latest, gp).unwrap();
        tx.sign(&sk);
        tx.generate(&pk, 0, 0);
        tx
    }

    let gp: u64 = 10;
    let mut t = TestManager::default();
    t.config_lock = Arc::new(RwLock::new(Cfg {
        consensus: ConsensusConfig {
            genesis_period: gp,
            heartbeat_interval: 100,
            prune_after_blocks: 8,
            max_staker_recursions: 3,
            default_social_stake: 0,
            default_social_stake_period: 60,
        },
        blockchain: BlockchainConfig::default(),
        peers: vec![],
    }));
    {
        let mut bc = t.blockchain_lock.write().await;
        *bc = Blockchain::new(t.wallet_lock.clone(), gp, 0, 60);
    }
    // block 1: one issuance slip of 10_000_000 for the node's wallet
    t.initialize_with_timestamp(1, 10_000_000, 1_000_000).await;
    let other_pk = generate_keys().0;

    // blocks 2..=13: each pays 5000 nolan to `other_pk` (never spent) with a fee of 6000; every
    // second block carries a golden ticket, which funds the treasury
    for i in 2..=13u64 {
        let ts = t.get_latest_block().await.timestamp + 120_000;
        let tx = mk_tx(&mut t, other_pk, 5000, 6000, gp).await;
        let block = mk_block(&mut t, vec![tx], i % 2 == 0, ts).await;
        if i == 13 {
            // control: one rebroadcast without treasury payout: the books balance
            // (new value + fee booked == old value + treasury debit)
            let bc = t.blockchain_lock.read().await;
            let configs = t.config_lock.read().await;
            let cv = block.generate_consensus_values(&bc, &t.storage, &*configs).await;
            assert_eq!(cv.rebroadcasts.len(), 1);
            assert_eq!(
                cv.rebroadcasts[0].to[0].amount + cv.total_fees_atr,
                5000 + cv.total_payout_atr,
                "control: the rebroadcast of block 13 balances"
            );
        }
        let res = t.add_block(block).await;
        assert!(matches!(res, AddBlockResult::BlockAddedSuccessfully(..)), "setup: block {} is accepted", i);
    }
    let (treasury, avg_rebroadcast) = {
        let bc = t.blockchain_lock.read().await;
        let tip = bc.get_latest_block().unwrap();
        (tip.treasury, tip.avg_nolan_rebroadcast_per_block)
    };
    let multiplier = 1 + treasury / (gp * avg_rebroadcast);
    assert!(multiplier >= 2, "setup: the treasury pays out");

    // block 14 has to rebroadcast the 5000-nolan output of block 3. the consensus values are
    // computed the way Block::validate does: on the block with its header treasury in place
    let ts = t.get_latest_block().await.timestamp + 120_000;
    let tx = mk_tx(&mut t, other_pk, 5000, 6000, gp).await;
    let block14 = mk_block(&mut t, vec![tx], true, ts).await;
    assert!(block14.treasury > 0);
    let bc = t.blockchain_lock.read().await;
    let configs = t.config_lock.read().await;
    let cv = block14.generate_consensus_values(&bc, &t.storage, &*configs).await;
    assert_eq!(cv.rebroadcasts.len(), 1, "setup: one output is due");
    let rebroadcast = &cv.rebroadcasts[0];
    assert_eq!(rebroadcast.from[0].block_id, 3);
    assert_eq!(rebroadcast.to[0].public_key, other_pk);
    let cap = (block14.treasury as f64 * 0.05) as u64;
    assert!(5000 * (multiplier - 1) > cap, "setup: the uncapped payout {} exceeds the cap {}", 5000 * (multiplier - 1), cap);
    // the hash commitment is still the one taken before the amounts were adjusted
    let mut vbytes = vec![0u8; 32];
    vbytes.extend(&rebroadcast.serialize_for_signature());
    let hash_matches_adjusted = crate::core::util::crypto::hash(&vbytes) == cv.rebroadcast_hash;
    if !((rebroadcast.to[0].amount + cv.total_fees_atr) == (5000 + cv.total_payout_atr)) { witness(format!("the 5000-nolan output of block 3 reappears in block 14 with {} nolan (uncapped payout multiplier {} applied, cap is 5% of treasury {} = {}), while the block debits the treasury by total_payout_atr = {} and books total_fees_atr = {}: the owner gains {} nolan nobody pays for (rebroadcast_hash still commits to the unadjusted transaction: {})", rebroadcast.to[0].amount, multiplier, block14.treasury, cap, cv.total_payout_atr, cv.total_fees_atr, rebroadcast.to[0].amount + cv.total_fees_atr - 5000 - cv.total_payout_atr, !hash_matches_adjusted)); }
}

/// C18: a replacement count is a placeholder's business — a signed Normal transaction with txs_replacements = 3 is refused
/// (it would give the full block's tree three leaves where every lite block, which replaces the transaction by a placeholder
/// for one transaction, has one), and MerkleTree::generate counts one leaf for it whatever the field says
#[tokio::test]
#[serial_test::serial]
async fn replacement_count_on_a_normal_transaction_is_refused() {
    use crate::core::consensus::merkle::MerkleTree;
    let mut t = TestManager::default();
    t.initialize(100, 200_000_000_000_000).await;
    let (pk, sk) = { let w = t.wallet_lock.read().await; (w.public_key, w.private_key) };
    let genesis_period = t.config_lock.read().await.get_consensus_config().unwrap().genesis_period;
    let tip_id = t.blockchain_lock.read().await.get_latest_block_id();
    for count in [0u32, 2, 3, 64] {
        let mut tx = { let mut w = t.wallet_lock.write().await; Transaction::create(&mut w, pk, 1_000, 0, false, None, tip_id, genesis_period).unwrap() };
        tx.txs_replacements = count;
        tx.sign(&sk);
        tx.generate(&pk, 0, 0);
        let bc = t.blockchain_lock.read().await;
        let mut honest = tx.clone(); honest.txs_replacements = 1; honest.sign(&sk); honest.generate(&pk, 0, 0);
        assert!(honest.validate(&bc.utxoset, &bc, true), "harness: the same payment with a count of 1 validates");
        if tx.validate(&bc.utxoset, &bc, true) {
            witness(format!("a Normal transaction signed by its sender with txs_replacements = {} is accepted by Transaction::validate; the lite block of a block carrying it replaces it by a placeholder with a count of 1", count));
        }
        let leaves = MerkleTree::generate(&vec![tx.clone()]).unwrap().len();
        if leaves != 1 { witness(format!("MerkleTree::generate builds a tree of {} nodes for one Normal transaction whose txs_replacements field says {}", leaves, count)); }
    }
}

#[allow(dead_code)]
fn replay_peer_blocks_with_atr_payload(
    attacker_public_key: SaitoPublicKey,
    attacker_private_key: SaitoPrivateKey,
    payload: Vec<u8>,
) -> (Vec<u8>, Vec<u8>) {
    use crate::core::consensus::golden_ticket::GoldenTicket;

    let mut atr = Transaction::default();
    atr.transaction_type = TransactionType::ATR;
    let mut input = Slip::default();
    input.public_key = attacker_public_key;
    input.amount = 1000;
    input.block_id = 1;
    atr.from.push(input);
    let mut output = Slip::default();
    output.public_key = attacker_public_key;
    output.amount = 0;
    output.slip_type = SlipType::ATR;
    atr.to.push(output);
    atr.data = payload;

    let mut p = Block::new();
    p.id = 5;
    p.timestamp = 1_700_000_000_000;
    p.previous_block_hash = [9; 32];
    p.creator = attacker_public_key;
    p.total_fees = 1000;
    p.transactions = vec![atr];
    p.generate().unwrap();
    p.sign(&attacker_private_key);
    p.generate().unwrap();
    let p_bytes = p.serialize_for_net(BlockType::Full);

    let mut gt_tx = Transaction::default();
    gt_tx.transaction_type = TransactionType::GoldenTicket;
    let mut gt_input = Slip::default();
    gt_input.public_key = attacker_public_key;
    gt_tx.from.push(gt_input);
    gt_tx.data = GoldenTicket::create(p.hash, [5; 32], attacker_public_key).serialize_for_net();
    gt_tx.sign(&attacker_private_key);

    let mut c = Block::new();
    c.id = 6;
    c.timestamp = p.timestamp + 1000;
    c.previous_block_hash = p.hash;
    c.creator = attacker_public_key;
    c.transactions = vec![gt_tx];
    c.generate().unwrap();
    c.sign(&attacker_private_key);
    c.generate().unwrap();
    let c_bytes = c.serialize_for_net(BlockType::Full);

    (p_bytes, c_bytes)
}

/// C10/C11: a stored block whose rebroadcast transaction carries a payload that is no transaction (a syncing node stores what its
/// peers send) does not stop the node when the next block's routing payout is drawn — scenario of an independent audit
#[tokio::test]
#[serial_test::serial]
async fn rebroadcast_payload_that_is_no_transaction_does_not_stop_the_node() {
    #[allow(unused_imports)] use crate::core::util::crypto::generate_keys;
    #[allow(unused_imports)] use crate::core::util::test::test_manager::test::TestManager;
    #[allow(unused_imports)] use crate::core::consensus::slip::Slip;
    #[allow(unused_imports)] use crate::core::consensus::transaction::Transaction;
    #[allow(unused_imports)] use crate::core::consensus::block::Block;
    use crate::core::consensus::blockchain::AddBlockResult;
    use futures::FutureExt;
    use std::panic::AssertUnwindSafe;

    let (attacker_public_key, attacker_private_key) = generate_keys();

    // control: the rebroadcast payload is the network encoding of a transaction (what an honest
    // block producer puts there). the node takes P and handles C without panicking.
    {
        let mut t = TestManager::default();
        let mut original = Transaction::default();
        let mut slip = Slip::default();
        slip.public_key = attacker_public_key;
        original.from.push(slip.clone());
        original.to.push(slip);
        original.sign(&attacker_private_key);
        let (p_bytes, c_bytes) = replay_peer_blocks_with_atr_payload(
            attacker_public_key,
            attacker_private_key,
            original.serialize_for_net(),
        );
        let p = Block::deserialize_from_net(&p_bytes).expect("P decodes");
        let result = t.add_block(p).await;
        assert!(
            matches!(result, AddBlockResult::BlockAddedSuccessfully(_, true, _)),
            "control: P is accepted as the first block of a joining node"
        );
        let c = Block::deserialize_from_net(&c_bytes).expect("C decodes");
        let result = AssertUnwindSafe(t.add_block(c)).catch_unwind().await;
        assert!(
            result.is_ok(),
            "control: with a decodable rebroadcast payload in P, adding C does not panic"
        );
    }

    // hostile: the same two blocks, the rebroadcast payload of P is 3 bytes that are no transaction
    let mut t = TestManager::default();
    let (p_bytes, c_bytes) = replay_peer_blocks_with_atr_payload(
        attacker_public_key,
        attacker_private_key,
        vec![1, 2, 3],
    );
    let p = Block::deserialize_from_net(&p_bytes).expect("P decodes");
    assert_eq!(p.transactions[0].data, vec![1, 2, 3]);
    let result = t.add_block(p).await;
    assert!(
        matches!(result, AddBlockResult::BlockAddedSuccessfully(_, true, _)),
        "P (with the 3-byte payload) is accepted as the first block of a joining node"
    );
    let c = Block::deserialize_from_net(&c_bytes).expect("C decodes");
    let result = AssertUnwindSafe(t.add_block(c)).catch_unwind().await;
    if !(result.is_ok()) { witness(format!("adding the peer's block 6 (a golden ticket on top of block 5) panicked the node: Block::find_winning_router decodes the 3-byte rebroadcast payload [1,2,3] of block 5 with Transaction::deserialize_from_net(..).expect(\"buffer to be valid\"); bytes chosen by a peer must be rejected with an error, never crash the decoder's caller")); }
}

/// C01: the fee transaction — exempt from every per-transaction check — spends nothing: the expected fee transaction with its payouts
/// moved to the input side (same hash: inputs and outputs are hashed together without counts) is refused — scenario of an independent audit
#[tokio::test]
#[serial_test::serial]
async fn fee_transaction_with_inputs_is_refused() {
    #[allow(unused_imports)] use crate::core::util::test::test_manager::test::TestManager;
    #[allow(unused_imports)] use crate::core::consensus::slip::Slip;
    #[allow(unused_imports)] use crate::core::consensus::slip::SlipType;
    #[allow(unused_imports)] use crate::core::defs::PrintForLog;
    #[allow(unused_imports)] use crate::core::consensus::transaction::TransactionType;
    #[allow(unused_imports)] use crate::core::consensus::block::Block;
    #[allow(unused_imports)] use crate::core::consensus::blockchain::AddBlockResult;
    use std::ops::Deref;

    let mut t = TestManager::default();
    t.initialize(100, 1_000_000_000).await;
    let ts = t.get_latest_block().await.timestamp;
    let (public_key, private_key) = {
        let wallet = t.wallet_lock.read().await;
        (wallet.public_key, wallet.private_key)
    };

    // honest chain: every block carries one transaction paying a fee of 100 and a golden ticket.
    // we go on until two consecutive blocks pay out the same amounts (the payout cap makes them constant)
    let mut victim_block_id = 0;
    let mut victim_outputs: Vec<Slip> = vec![];
    for i in 1..=8u64 {
        let parent = t.get_latest_block_hash().await;
        let mut block = t
            .create_block(parent, ts + i * 120_000, 1, 1_000, 100, true)
            .await;
        // (the test builder hands its golden ticket to Block::create as a pooled transaction, so the
        // block claims its parent's fees as unpaid although the ticket pays them out)
        block.previous_block_unpaid = 0;
        block.generate().unwrap();
        block.sign(&private_key);
        let result = t.add_block(block).await;
        assert!(
            matches!(
                result,
                crate::core::consensus::blockchain::AddBlockResult::BlockAddedSuccessfully(..)
            ),
            "setup: honest block {} is added",
            i + 1
        );
        let latest = t.get_latest_block().await;
        let previous_outputs = victim_outputs.clone();
        victim_outputs = latest
            .transactions
            .iter()
            .find(|tx| tx.transaction_type == TransactionType::Fee)
            .map(|tx| tx.to.clone())
            .unwrap_or_default();
        victim_block_id = latest.id;
        if !victim_outputs.is_empty()
            && victim_outputs.len() == previous_outputs.len()
            && victim_outputs.iter().zip(previous_outputs.iter()).all(|(a, b)| {
                a.amount > 0
                    && a.amount == b.amount
                    && a.public_key == b.public_key
                    && a.slip_type == b.slip_type
                    && a.slip_index == b.slip_index
            })
        {
            break;
        }
    }
    assert!(
        !victim_outputs.is_empty(),
        "setup: the tip pays out the same amounts as its parent"
    );

    // the next honest block (control) and its fee transaction
    let parent = t.get_latest_block_hash().await;
    let mut honest = t
        .create_block(parent, ts + 20 * 120_000, 1, 1_000, 100, true)
        .await;
    honest.previous_block_unpaid = 0;
    honest.generate().unwrap();
    honest.sign(&private_key);
    let ft_index = honest
        .transactions
        .iter()
        .position(|tx| tx.transaction_type == TransactionType::Fee)
        .expect("setup: honest block has a fee transaction");
    let expected_payouts = honest.transactions[ft_index].to.clone();
    assert_eq!(expected_payouts.len(), victim_outputs.len());
    for (a, b) in expected_payouts.iter().zip(victim_outputs.iter()) {
        assert_eq!(
            (a.public_key, a.amount, a.slip_type, a.slip_index),
            (b.public_key, b.amount, b.slip_type, b.slip_index),
            "setup: the payouts due in the new block equal the payouts of block {}",
            victim_block_id
        );
    }

    // hostile edit: the producer moves the outputs of the fee transaction into its inputs and points them
    // at the payouts block `victim_block_id` made. the bytes Block::validate compares with the fee
    // transaction it computes itself (serialize_for_signature) stay the same: they carry neither the number of
    // inputs/outputs nor the block id / transaction ordinal of an input
    let mut forged = honest.clone();
    {
        let fee_tx = &mut forged.transactions[ft_index];
        fee_tx.from = victim_outputs.clone();
        fee_tx.to = vec![];
    }
    forged.merkle_root = forged.generate_merkle_root(false, false);
    forged.generate().unwrap();
    forged.sign(&private_key);

    let configs = t.config_lock.read().await;
    let blockchain = t.blockchain_lock.read().await;

    for slip in victim_outputs.iter() {
        assert_eq!(
            blockchain.utxoset.get(&slip.get_utxoset_key()),
            Some(&true),
            "setup: payout {}-{}-{} of block {} is unspent",
            slip.block_id,
            slip.tx_ordinal,
            slip.slip_index,
            victim_block_id
        );
    }

    let honest_valid = honest
        .validate(&blockchain, &blockchain.utxoset, configs.deref(), &t.storage, true)
        .await;
    assert!(honest_valid, "control: the honest block validates");

    let forged_valid = forged
        .validate(&blockchain, &blockchain.utxoset, configs.deref(), &t.storage, true)
        .await;

    // what applying the forged block does to the ledger
    let mut utxoset_after = blockchain.utxoset.clone();
    forged.on_chain_reorganization(&mut utxoset_after, true);
    let still_there = victim_outputs
        .iter()
        .filter(|slip| utxoset_after.contains_key(&slip.get_utxoset_key()))
        .count();
    let new_payouts = utxoset_after
        .keys()
        .filter(|key| Slip::parse_slip_from_utxokey(key).unwrap().block_id == forged.id)
        .filter(|key| {
            let slip = Slip::parse_slip_from_utxokey(key).unwrap();
            slip.slip_type == SlipType::MinerOutput || slip.slip_type == SlipType::RouterOutput
        })
        .count();

    if !(!forged_valid) { witness(format!("Block::validate accepted block {} whose Fee transaction has {} inputs and no output: the inputs name the unspent payouts {}-{}-x (amounts {:?}) that block {} made to key {}, nobody signed for them (the transaction carries the producer's signature only and a Fee transaction is exempt from the signature, ownership, utxo and double-spend checks), and applying the block leaves {} of these {} outputs in the utxoset and creates {} of the {} payouts that are due: outputs are spent without the owner's authorisation through a privileged transaction type", forged.id, forged.transactions[ft_index].from.len(), victim_block_id, victim_outputs[0].tx_ordinal, victim_outputs.iter().map(|s| s.amount).collect::<Vec<_>>(), victim_block_id, public_key.to_base58(), still_there, victim_outputs.len(), new_payouts, expected_payouts.len())); }
}

/// C01: no output is spent twice inside a block — NFT (Bound) slips with an amount included — scenario of an independent audit
#[tokio::test]
#[serial_test::serial]
async fn nft_slip_cannot_be_spent_twice_in_one_block() {
    #[allow(unused_imports)] use crate::core::util::crypto::generate_keys;
    #[allow(unused_imports)] use crate::core::consensus::wallet::Wallet;
    #[allow(unused_imports)] use crate::core::util::test::test_manager::test::TestManager;
    #[allow(unused_imports)] use crate::core::consensus::slip::Slip;
    #[allow(unused_imports)] use crate::core::consensus::slip::SlipType;
    #[allow(unused_imports)] use crate::core::consensus::transaction::Transaction;
    #[allow(unused_imports)] use crate::core::consensus::transaction::TransactionType;
    #[allow(unused_imports)] use crate::core::consensus::block::Block;
    #[allow(unused_imports)] use crate::core::consensus::block::BlockType;
    use crate::core::consensus::blockchain::AddBlockResult;
    use std::ops::Deref;

    // puts extra transactions in front of the transactions of a block the test builder made, and passes
    // the result through the wire format, so that the node sees it as it would see a block fetched from a peer
    fn with_transactions(
        block: &Block,
        transactions: Vec<Transaction>,
        private_key: &SaitoPrivateKey,
    ) -> Block {
        let mut block = block.clone();
        for (i, tx) in transactions.into_iter().enumerate() {
            block.transactions.insert(i, tx);
        }
        block.merkle_root = [0; 32];
        block.generate().unwrap();
        block.sign(private_key);
        let mut block =
            Block::deserialize_from_net(&block.serialize_for_net(BlockType::Full)).unwrap();
        block.generate().unwrap();
        block
    }

    let mut t = TestManager::default();
    t.initialize(10, 1_000_000_000).await;
    let ts = t.get_latest_block().await.timestamp;
    let (public_key, private_key) = {
        let wallet = t.wallet_lock.read().await;
        (wallet.public_key, wallet.private_key)
    };
    let recipient_c = generate_keys().0;
    let recipient_d = generate_keys().0;

    // an unspent normal output of the wallet in block 1
    let funding: Slip = {
        let blockchain = t.blockchain_lock.read().await;
        blockchain
            .utxoset
            .iter()
            .filter(|(_, spendable)| **spendable)
            .map(|(key, _)| Slip::parse_slip_from_utxokey(key).unwrap())
            .find(|slip| slip.public_key == public_key && slip.slip_type == SlipType::Normal)
            .expect("setup: the wallet owns a normal output")
    };

    // block 2 creates an NFT from it: [Bound (amount 1), Normal (deposit 1000), Bound (id, amount 0)] + change
    let nft_id = Wallet::create_nft_uuid(&funding, "demo");
    let mut create_tx = Transaction::default();
    create_tx.transaction_type = TransactionType::Bound;
    create_tx.add_from_slip(funding.clone());
    create_tx.add_to_slip(Slip {
        public_key,
        amount: 1,
        slip_type: SlipType::Bound,
        ..Default::default()
    });
    create_tx.add_to_slip(Slip {
        public_key,
        amount: 1_000,
        ..Default::default()
    });
    create_tx.add_to_slip(Slip {
        public_key: nft_id,
        amount: 0,
        slip_type: SlipType::Bound,
        ..Default::default()
    });
    create_tx.add_to_slip(Slip {
        public_key,
        amount: funding.amount - 1_000,
        ..Default::default()
    });
    create_tx.sign(&private_key);

    let parent = t.get_latest_block_hash().await;
    let block2 = t.create_block(parent, ts + 120_000, 0, 0, 0, true).await;
    let block2 = with_transactions(&block2, vec![create_tx], &private_key);
    let result = t.add_block(block2).await;
    assert!(
        matches!(result, AddBlockResult::BlockAddedSuccessfully(_, true, _)),
        "setup: block 2 with the NFT-creating transaction is added"
    );

    // the three outputs of the NFT as they stand in block 2
    let (slip1, slip2, slip3) = {
        let block2 = t.get_latest_block().await;
        let tx = block2
            .transactions
            .iter()
            .find(|tx| tx.transaction_type == TransactionType::Bound)
            .unwrap();
        (tx.to[0].clone(), tx.to[1].clone(), tx.to[2].clone())
    };
    {
        let blockchain = t.blockchain_lock.read().await;
        assert_eq!(slip1.slip_type, SlipType::Bound);
        assert_eq!(slip1.amount, 1);
        assert_eq!(
            blockchain.utxoset.get(&slip1.get_utxoset_key()),
            Some(&true),
            "setup: the Bound output {}-{}-{} of amount 1 is in the utxoset, unspent",
            slip1.block_id,
            slip1.tx_ordinal,
            slip1.slip_index
        );
    }

    // transfer A: the regular transfer of the NFT to C (spends all three outputs)
    let mut send_a = Transaction::default();
    send_a.transaction_type = TransactionType::Bound;
    send_a.add_from_slip(slip1.clone());
    send_a.add_from_slip(slip2.clone());
    send_a.add_from_slip(slip3.clone());
    send_a.add_to_slip(Slip {
        block_id: 0,
        tx_ordinal: 0,
        ..slip1.clone()
    });
    send_a.add_to_slip(Slip {
        public_key: recipient_c,
        amount: slip2.amount,
        ..Default::default()
    });
    send_a.add_to_slip(Slip {
        block_id: 0,
        tx_ordinal: 0,
        ..slip3.clone()
    });
    send_a.sign(&private_key);

    // transfer B: spends the same Bound output a second time, to D. (its second input is a zero-amount
    // stand-in at the position of the deposit, which no check looks up)
    let mut send_b = Transaction::default();
    send_b.transaction_type = TransactionType::Bound;
    send_b.add_from_slip(slip1.clone());
    send_b.add_from_slip(Slip {
        public_key,
        amount: 0,
        block_id: slip2.block_id,
        tx_ordinal: slip2.tx_ordinal,
        slip_index: slip2.slip_index,
        ..Default::default()
    });
    send_b.add_from_slip(slip3.clone());
    send_b.add_to_slip(Slip {
        block_id: 0,
        tx_ordinal: 0,
        ..slip1.clone()
    });
    send_b.add_to_slip(Slip {
        public_key: recipient_d,
        amount: 0,
        ..Default::default()
    });
    send_b.add_to_slip(Slip {
        block_id: 0,
        tx_ordinal: 0,
        ..slip3.clone()
    });
    send_b.sign(&private_key);

    let parent = t.get_latest_block_hash().await;
    let block3 = t.create_block(parent, ts + 240_000, 0, 0, 0, true).await;
    let honest = with_transactions(&block3, vec![send_a.clone()], &private_key);
    let hostile = with_transactions(&block3, vec![send_a, send_b], &private_key);

    {
        let configs = t.config_lock.read().await;
        let blockchain = t.blockchain_lock.read().await;
        let honest_valid = honest
            .validate(&blockchain, &blockchain.utxoset, configs.deref(), &t.storage, true)
            .await;
        assert!(honest_valid, "control: block 3 with transfer A alone validates");
    }

    let spenders: Vec<usize> = hostile
        .transactions
        .iter()
        .enumerate()
        .filter(|(_, tx)| {
            tx.from
                .iter()
                .any(|input| input.get_utxoset_key() == slip1.get_utxoset_key())
        })
        .map(|(i, _)| i)
        .collect();
    assert_eq!(spenders.len(), 2, "setup: two transactions of the block name the Bound output");

    let result = t.add_block(hostile).await;

    let copies = {
        let blockchain = t.blockchain_lock.read().await;
        blockchain
            .utxoset
            .iter()
            .filter(|(_, spendable)| **spendable)
            .map(|(key, _)| Slip::parse_slip_from_utxokey(key).unwrap())
            .filter(|slip| {
                slip.slip_type == SlipType::Bound
                    && slip.public_key == slip1.public_key
                    && slip.amount == slip1.amount
            })
            .count()
    };

    if !(!matches!(result, AddBlockResult::BlockAddedSuccessfully(..))) { witness(format!("block 3 was accepted as the tip although its transactions #{} and #{} both spend the Bound output {}-{}-{} (amount 1, in the utxoset once): an output spent twice inside one block; the utxoset now holds {} unspent Bound outputs of amount 1 for this NFT where there was 1 (Block::validate leaves Bound inputs out of its duplicate map, Block::generate closes its map after the first transaction)", spenders[0], spenders[1], slip1.block_id, slip1.tx_ordinal, slip1.slip_index, copies)); }
}

/// C18: the placeholders of a lite block suffice to recompute the commitment of the header: a browser node that compares the root accepts the honest lite block, neighbouring omissions included
#[tokio::test]
#[serial_test::serial]
async fn browser_node_accepts_the_lite_block_its_server_builds() {
    #[allow(unused_imports)] use crate::core::util::crypto::generate_keys;
    #[allow(unused_imports)] use crate::core::util::test::test_manager::test::TestManager;
    #[allow(unused_imports)] use crate::core::consensus::transaction::TransactionType;
    #[allow(unused_imports)] use crate::core::consensus::block::Block;
    #[allow(unused_imports)] use crate::core::consensus::block::BlockType;
    #[allow(unused_imports)] use crate::core::util::crypto::hash;
    use crate::core::util::configuration::{
        BlockchainConfig, Configuration, ConsensusConfig, PeerConfig, Server,
    };
    #[derive(Debug)]
    struct BrowserConfig {
        consensus: ConsensusConfig,
        blockchain: BlockchainConfig,
        peers: Vec<PeerConfig>,
    }
    impl Configuration for BrowserConfig {
        fn get_server_configs(&self) -> Option<&Server> {
            None
        }
        fn get_peer_configs(&self) -> &Vec<PeerConfig> {
            &self.peers
        }
        fn get_blockchain_configs(&self) -> &BlockchainConfig {
            &self.blockchain
        }
        fn get_block_fetch_url(&self) -> String {
            "".to_string()
        }
        fn is_spv_mode(&self) -> bool {
            false
        }
        fn is_browser(&self) -> bool {
            true
        }
        fn replace(&mut self, _config: &dyn Configuration) {}
        fn get_consensus_config(&self) -> Option<&ConsensusConfig> {
            Some(&self.consensus)
        }
    }
    let browser = BrowserConfig {
        consensus: ConsensusConfig {
            genesis_period: 100,
            heartbeat_interval: 100,
            prune_after_blocks: 8,
            max_staker_recursions: 3,
            default_social_stake: 0,
            default_social_stake_period: 60,
        },
        blockchain: BlockchainConfig::default(),
        peers: vec![],
    };

    let mut t = TestManager::default();
    t.initialize(10, 200_000_000_000).await;
    let block1 = t.get_latest_block().await;
    // the key the browser is interested in: it appears in no transaction of blocks 2 and 3
    let browser_key = generate_keys().0;

    // block 2 : one transaction
    let someone = generate_keys().0;
    t.transfer_value_to_public_key(someone, 500, block1.timestamp + 120000)
        .await
        .unwrap();
    let block2 = t.get_latest_block().await;
    assert_eq!(block2.id, 2);
    assert_eq!(block2.transactions.len(), 1);

    // block 3 : several transactions, none of them the browser's
    let mut block3 = t
        .create_block(block2.hash, block2.timestamp + 120000, 3, 1000, 0, false)
        .await;
    block3.generate().unwrap();
    assert!(block3.transactions.len() >= 2);
    t.add_block(block3).await;
    let block3 = t.get_latest_block().await;
    assert_eq!(block3.id, 3);

    let blockchain = t.blockchain_lock.read().await;

    // what the server sends for block 2 and what the browser makes of it
    let lite2 = block2.generate_lite_block(vec![browser_key]);
    let mut received2 =
        Block::deserialize_from_net(&lite2.serialize_for_net(BlockType::Full)).unwrap();
    received2.generate().unwrap();
    assert_eq!(received2.hash, block2.hash);
    assert_eq!(received2.transactions.len(), 1);
    assert_eq!(received2.transactions[0].transaction_type, TransactionType::SPV);
    assert_eq!(received2.transactions[0].txs_replacements, 1);
    assert!(
        received2
            .validate(&blockchain, &blockchain.utxoset, &browser, &t.storage, false)
            .await,
        "setup : a lite block with a single placeholder validates on a browser node"
    );

    // the same for block 3 : two neighbouring transactions are left out and folded into one placeholder
    let lite3 = block3.generate_lite_block(vec![browser_key]);
    let mut received3 =
        Block::deserialize_from_net(&lite3.serialize_for_net(BlockType::Full)).unwrap();
    received3.generate().unwrap();
    assert_eq!(received3.hash, block3.hash);
    assert_eq!(received3.merkle_root, block3.merkle_root);
    assert!(
        received3.transactions.iter().filter(|tx| tx.transaction_type == TransactionType::SPV).count() >= 1,
        "setup: block 3 has transactions left out"
    );
    if !(received3
            .validate(&blockchain, &blockchain.utxoset, &browser, &t.storage, false)
            .await) { witness(format!("a browser node must accept the honest lite block its server builds when two neighbouring transactions are left out : the root recomputed from its entries is not the root the header commits to")); }
}

/// C02: value leaves the spendable set only into the treasury, the graveyard, a payout or a fee: the payload of an NFT group whose first Bound slip was spent without it is still rebroadcast or collected when its block leaves the window
#[allow(dead_code)]
#[derive(Debug)]
struct AuditDemoNftConfig {
    consensus: crate::core::util::configuration::ConsensusConfig,
    blockchain: crate::core::util::configuration::BlockchainConfig,
}
impl crate::core::util::configuration::Configuration for AuditDemoNftConfig {
    fn get_server_configs(&self) -> Option<&crate::core::util::configuration::Server> {
        None
    }
    fn get_peer_configs(&self) -> &Vec<crate::core::util::configuration::PeerConfig> {
        todo!()
    }
    fn get_blockchain_configs(&self) -> &crate::core::util::configuration::BlockchainConfig {
        &self.blockchain
    }
    fn get_block_fetch_url(&self) -> String {
        "".to_string()
    }
    fn is_spv_mode(&self) -> bool {
        false
    }
    fn is_browser(&self) -> bool {
        false
    }
    fn replace(&mut self, _config: &dyn crate::core::util::configuration::Configuration) {
        todo!()
    }
    fn get_consensus_config(
        &self,
    ) -> Option<&crate::core::util::configuration::ConsensusConfig> {
        Some(&self.consensus)
    }
}

/// value the ledger holds once `block` is the tip, in unbounded arithmetic: spendable in-window
/// outputs now, plus what the block's transactions add and remove, plus the reservoirs in the
/// block's header. (`window_start` : lowest block id whose outputs are still in the window)
fn audit_demo_nft_supply(
    blockchain: &crate::core::consensus::blockchain::Blockchain,
    block: Option<&Block>,
    genesis_period: u64,
) -> u128 {
    let tip = match block {
        Some(block) => block,
        None => blockchain.get_latest_block().unwrap(),
    };
    let window_start = tip.id.saturating_sub(genesis_period);
    let mut supply: u128 = 0;
    for (key, spendable) in blockchain.utxoset.iter() {
        if *spendable {
            let slip = Slip::parse_slip_from_utxokey(key).unwrap();
            if slip.slip_type != SlipType::Bound && slip.block_id >= window_start {
                supply += slip.amount as u128;
            }
        }
    }
    if let Some(block) = block {
        for tx in block.transactions.iter() {
            for output in tx.to.iter() {
                if output.slip_type != SlipType::Bound {
                    supply += output.amount as u128;
                }
            }
            for input in tx.from.iter() {
                // (the outputs a rebroadcast consumes have just left the window)
                if input.slip_type != SlipType::Bound && input.block_id >= window_start {
                    supply -= input.amount as u128;
                }
            }
        }
    }
    supply
        + tip.treasury as u128
        + tip.graveyard as u128
        + tip.previous_block_unpaid as u128
        + tip.total_fees as u128
}

/// the block an honest producer builds on the tip from the given transactions
async fn audit_demo_nft_build_block(
    t: &TestManager,
    timestamp: u64,
    txs: Vec<Transaction>,
    with_golden_ticket: bool,
) -> Block {
    let (public_key, private_key) = {
        let wallet = t.wallet_lock.read().await;
        (wallet.public_key, wallet.private_key)
    };
    let configs = t.config_lock.read().await;
    let blockchain = t.blockchain_lock.read().await;
    let parent = blockchain.get_latest_block().unwrap();
    let parent_hash = parent.hash;
    let gt_tx = if with_golden_ticket {
        let golden_ticket = TestManager::create_golden_ticket(
            t.wallet_lock.clone(),
            parent_hash,
            parent.difficulty,
        )
        .await;
        Some(
            crate::core::consensus::wallet::Wallet::create_golden_ticket_transaction(golden_ticket, &public_key, &private_key)
                .await,
        )
    } else {
        None
    };
    let mut transactions: ahash::AHashMap<crate::core::defs::SaitoSignature, Transaction> =
        Default::default();
    for mut tx in txs {
        tx.generate(&public_key, 0, 0);
        transactions.insert(tx.signature, tx);
    }
    let mut block = Block::create(
        &mut transactions,
        parent_hash,
        &blockchain,
        timestamp,
        &public_key,
        &private_key,
        gt_tx,
        std::ops::Deref::deref(&configs),
        &t.storage,
    )
    .await
    .unwrap();
    block.generate().unwrap();
    block
}

/// a signed transaction spending the wallet's output of `amount` nolan created in block
/// `block_id`, paying `fee` and returning the rest to the wallet
async fn audit_demo_nft_spend(
    t: &TestManager,
    block_id: u64,
    amount: Currency,
    fee: Currency,
) -> Transaction {
    let (public_key, private_key) = {
        let wallet = t.wallet_lock.read().await;
        (wallet.public_key, wallet.private_key)
    };
    let blockchain = t.blockchain_lock.read().await;
    let input = blockchain
        .get_slips_for(public_key)
        .into_iter()
        .find(|slip| slip.block_id == block_id && slip.amount == amount)
        .expect("the output to spend is in the utxoset");
    let mut tx = Transaction::default();
    tx.add_from_slip(input);
    let mut output = Slip::default();
    output.public_key = public_key;
    output.amount = amount - fee;
    tx.add_to_slip(output);
    tx.sign(&private_key);
    tx
}

#[tokio::test]
#[serial_test::serial]
async fn payload_of_an_nft_group_whose_bound_slip_was_spent_is_not_lost() {
    #[allow(unused_imports)] use crate::core::consensus::wallet::Wallet;
    #[allow(unused_imports)] use crate::core::util::test::test_manager::test::TestManager;
    #[allow(unused_imports)] use crate::core::consensus::slip::Slip;
    #[allow(unused_imports)] use crate::core::consensus::slip::SlipType;
    #[allow(unused_imports)] use crate::core::defs::Currency;
    #[allow(unused_imports)] use crate::core::consensus::transaction::Transaction;
    #[allow(unused_imports)] use crate::core::consensus::transaction::TransactionType;
    #[allow(unused_imports)] use crate::core::consensus::block::Block;
    #[allow(unused_imports)] use std::panic::AssertUnwindSafe;
    use crate::core::consensus::blockchain::{AddBlockResult, Blockchain};
    use std::sync::Arc;
    use tokio::sync::RwLock;

    const GENESIS_PERIOD: u64 = 5;
    let mut t = TestManager::default();
    t.config_lock = Arc::new(RwLock::new(AuditDemoNftConfig {
        consensus: crate::core::util::configuration::ConsensusConfig {
            genesis_period: GENESIS_PERIOD,
            heartbeat_interval: 100,
            prune_after_blocks: 8,
            max_staker_recursions: 3,
            default_social_stake: 0,
            default_social_stake_period: 60,
        },
        blockchain: Default::default(),
    }));
    t.blockchain_lock = Arc::new(RwLock::new(Blockchain::new(
        t.wallet_lock.clone(),
        GENESIS_PERIOD,
        0,
        60,
    )));
    let (public_key, private_key) = {
        let wallet = t.wallet_lock.read().await;
        (wallet.public_key, wallet.private_key)
    };

    // block 1 issues 1_000_000 + 1_000 nolan to the wallet
    let mut issued = vec![];
    for amount in [1_000_000u64, 1_000] {
        let mut slip = Slip::default();
        slip.public_key = public_key;
        slip.amount = amount;
        issued.push(slip);
    }
    t.initialize_from_slips(issued).await;
    let initial_supply: u128 = 1_000_000 + 1_000;
    let ts = t.get_latest_block().await.timestamp;
    {
        let blockchain = t.blockchain_lock.read().await;
        assert_eq!(blockchain.get_latest_block_id(), 1);
        assert_eq!(
            audit_demo_nft_supply(&blockchain, None, GENESIS_PERIOD),
            initial_supply
        );
    }

    // block 2 : the wallet turns its 1_000_000 nolan output into an NFT group
    // [Bound 1, Normal 500_000 (the payload), Bound 0] plus 500_000 nolan change
    let create_nft = {
        let blockchain = t.blockchain_lock.read().await;
        let input = blockchain
            .get_slips_for(public_key)
            .into_iter()
            .find(|slip| slip.amount == 1_000_000)
            .unwrap();
        let uuid = Wallet::create_nft_uuid(&input, "audit");
        let mut tx = Transaction::default();
        tx.transaction_type = TransactionType::Bound;
        tx.add_from_slip(input);
        for (key, amount, slip_type) in [
            (public_key, 1u64, SlipType::Bound),
            (public_key, 500_000, SlipType::Normal),
            (uuid, 0, SlipType::Bound),
            (public_key, 500_000, SlipType::Normal),
        ] {
            let mut output = Slip::default();
            output.public_key = key;
            output.amount = amount;
            output.slip_type = slip_type;
            tx.add_to_slip(output);
        }
        tx.sign(&private_key);
        tx
    };

    for id in 2..=7u64 {
        let txs = match id {
            2 => vec![create_nft.clone()],
            3 => {
                // block 3 : a "transfer" of the NFT that names the two Bound slips of the group and,
                // between them, a zero-amount slip in the place of the 500_000 nolan payload: the
                // first Bound slip is spent, the payload is not
                let blockchain = t.blockchain_lock.read().await;
                let bound1 = blockchain
                    .get_slips_for(public_key)
                    .into_iter()
                    .find(|slip| slip.slip_type == SlipType::Bound && slip.block_id == 2)
                    .expect("the first Bound slip of the group is in the utxoset");
                assert_eq!(bound1.slip_index, 0);
                let mut zero_payload = bound1.clone();
                zero_payload.slip_type = SlipType::Normal;
                zero_payload.amount = 0;
                zero_payload.slip_index = 1;
                let mut bound3 = bound1.clone();
                bound3.public_key = create_nft.to[2].public_key;
                bound3.amount = 0;
                bound3.slip_index = 2;
                let mut tx = Transaction::default();
                tx.transaction_type = TransactionType::Bound;
                for slip in [bound1, zero_payload, bound3] {
                    let mut output = slip.clone();
                    output.block_id = 0;
                    output.tx_ordinal = 0;
                    tx.add_from_slip(slip);
                    tx.add_to_slip(output);
                }
                tx.sign(&private_key);
                vec![tx]
            }
            // (a block needs a transaction : free ones, moving the 1_000 nolan output along)
            4 => vec![audit_demo_nft_spend(&t, 1, 1_000, 0).await],
            6 => vec![audit_demo_nft_spend(&t, 4, 1_000, 0).await],
            _ => vec![],
        };
        let block = audit_demo_nft_build_block(&t, ts + id * 120_000, txs, id % 2 == 1).await;
        {
            // control : every one of these blocks conserves the supply
            let blockchain = t.blockchain_lock.read().await;
            assert_eq!(
                audit_demo_nft_supply(&blockchain, Some(&block), GENESIS_PERIOD),
                initial_supply,
                "block {}",
                id
            );
        }
        let result = t.add_block(block).await;
        assert!(
            matches!(result, AddBlockResult::BlockAddedSuccessfully(_, true, _)),
            "block {}",
            id
        );
    }
    {
        let blockchain = t.blockchain_lock.read().await;
        assert_eq!(blockchain.get_latest_block_id(), 7);
        // the payload is still unspent, the first Bound slip of its group is not
        let slips = blockchain.get_slips_for(public_key);
        assert!(slips.iter().any(|slip| slip.block_id == 2
            && slip.slip_index == 1
            && slip.amount == 500_000
            && slip.slip_type == SlipType::Normal));
        assert!(!slips
            .iter()
            .any(|slip| slip.block_id == 2 && slip.slip_type == SlipType::Bound));
        assert_eq!(
            audit_demo_nft_supply(&blockchain, None, GENESIS_PERIOD),
            initial_supply
        );
    }

    // block 8, as an honest producer builds it : block 2 leaves the window, its unspent outputs are
    // due for rebroadcast
    let block8 = audit_demo_nft_build_block(&t, ts + 8 * 120_000, vec![], false).await;
    let rebroadcast: Vec<Currency> = block8
        .transactions
        .iter()
        .filter(|tx| tx.transaction_type == TransactionType::ATR)
        .map(|tx| tx.from.iter().map(|slip| slip.amount).sum())
        .collect();
    let block8_fees_atr = block8.total_fees_atr;
    let (block8_valid, block8_supply);
    {
        let configs = t.config_lock.read().await;
        let blockchain = t.blockchain_lock.read().await;
        block8_valid = block8
            .validate(
                &blockchain,
                &blockchain.utxoset,
                std::ops::Deref::deref(&configs),
                &t.storage,
                true,
            )
            .await;
        block8_supply = audit_demo_nft_supply(&blockchain, Some(&block8), GENESIS_PERIOD);
    }
    let outcome = futures::FutureExt::catch_unwind(std::panic::AssertUnwindSafe(
        t.add_block(block8),
    ))
    .await;
    let node_reaction = match &outcome {
        Ok(AddBlockResult::BlockAddedSuccessfully(..)) => "add_block accepted it",
        Ok(_) => "add_block refused it",
        Err(_) => "add_block accepted it and the node then panicked in check_total_supply",
    };

    if !(!block8_valid || block8_supply == initial_supply) { witness(format!("block 8, built by Block::create and accepted by Block::validate ({}), lets block 2 leave the window with its unspent 500000 nolan NFT payload neither rebroadcast (rebroadcast inputs: {:?}, the change output alone) nor collected as a fee (total_fees_atr {}): because the first Bound slip of the group was spent the whole group is skipped, the supply falls from {} to {}", node_reaction, rebroadcast, block8_fees_atr, initial_supply, block8_supply)); }
}

/// C11: a decodable block whose transactions claim fees up to u64::MAX is refused, not fatal, also once the chain pays rebroadcast fees
#[tokio::test]
#[serial_test::serial]
async fn fetched_block_with_saturated_fees_on_a_chain_that_rebroadcasts_is_refused_not_fatal() {
    #[allow(unused_imports)] use crate::core::util::crypto::generate_keys;
    #[allow(unused_imports)] use crate::core::util::test::node_tester::test::NodeTester;
    #[allow(unused_imports)] use crate::core::consensus::slip::Slip;
    #[allow(unused_imports)] use crate::core::defs::NOLAN_PER_SAITO;
    #[allow(unused_imports)] use crate::core::defs::PrintForLog;
    #[allow(unused_imports)] use crate::core::defs::Currency;
    #[allow(unused_imports)] use crate::core::consensus::transaction::Transaction;
    #[allow(unused_imports)] use crate::core::consensus::block::Block;
    #[allow(unused_imports)] use crate::core::util::crypto::hash;
    #[allow(unused_imports)] use std::panic::AssertUnwindSafe;
    #[allow(unused_imports)] use crate::core::io::storage::Storage;
    use crate::core::util::test::test_io_handler::test::TestIOHandler;
    use futures::FutureExt;
    use std::ops::Deref;

    NodeTester::delete_data().await.unwrap();
    let mut tester = NodeTester::new(10, None, None);
    let public_key = tester.get_public_key().await;
    let issuance = vec![
        (public_key.to_base58(), 100_000 * NOLAN_PER_SAITO),
        (
            "27UK2MuBTdeARhYp97XBnCovGkEquJjkrQntCgYoqj6GC".to_string(),
            50_000 * NOLAN_PER_SAITO,
        ),
    ];
    tester.set_issuance(issuance).await.unwrap();
    tester.set_staking_enabled(false).await;
    tester.init().await.unwrap();
    tester.wait_till_block_id(1).await.unwrap();

    // an honest chain as long as its genesis period (10 here) plus one, with fee-paying transactions: the next
    // block lets the outputs of block 1 fall off the chain (the unspent issuance of the second key is
    // rebroadcast and pays a rebroadcast fee)
    for i in 2..=11 {
        let tx = tester
            .create_transaction(10, 1_000_000, public_key)
            .await
            .unwrap();
        tester.add_transaction(tx).await;
        tester.wait_till_block_id(i).await.unwrap();
    }

    let blockchain = tester.consensus_thread.blockchain_lock.read().await;
    let configs = tester.consensus_thread.config_lock.read().await;
    let storage = Storage::new(Box::new(TestIOHandler::new()));
    let tip = blockchain.get_latest_block().unwrap();

    // the block a peer sends: built on the tip, one transaction claiming an input of u64::MAX
    let attacker = generate_keys();
    let mut block = Block::new();
    block.id = tip.id + 1;
    block.previous_block_hash = tip.hash;
    block.timestamp = tip.timestamp + 60_000;
    block.creator = attacker.0;

    // (setup) the payout computation of a block at this height finds rebroadcast fees
    let cv = block
        .generate_consensus_values(&blockchain, &storage, configs.deref())
        .await;
    assert!(
        cv.total_fees_atr > 0,
        "setup : outputs are falling off the chain at this height and pay rebroadcast fees"
    );

    let mut tx = Transaction::default();
    let mut input = Slip::default();
    input.public_key = attacker.0;
    input.amount = Currency::MAX;
    input.block_id = 1;
    tx.add_from_slip(input);
    let mut output = Slip::default();
    output.public_key = attacker.0;
    output.amount = 0;
    tx.add_to_slip(output);
    tx.sign(&attacker.1);
    block.add_transaction(tx);
    block.merkle_root = block.generate_merkle_root(false, false);
    block.generate().unwrap();
    block.sign(&attacker.1);
    block.generate().unwrap();
    assert_eq!(block.transactions[0].total_fees, Currency::MAX);

    let verdict = std::panic::AssertUnwindSafe(block.validate(
        &blockchain,
        &blockchain.utxoset,
        configs.deref(),
        &storage,
        true,
    ))
    .catch_unwind()
    .await;
    if !(verdict.is_ok()) { witness(format!("a decodable block with one transaction claiming an input of u64::MAX still stops the node with an arithmetic overflow instead of being refused, as soon as the chain pays rebroadcast fees : commit 8ca5c7f saturates total_fees_new but the next lines add total_fees_atr to it unchecked")); }
    assert_eq!(verdict.unwrap(), false, "the block must be refused");
}

/// C06: two blocks with the same hash carry the same content: the signature bytes of a block-generated transaction are part of it
#[tokio::test]
#[serial_test::serial]
async fn signature_bytes_of_the_fee_transaction_of_a_signed_block_cannot_be_rewritten() {
    #[allow(unused_imports)] use crate::core::util::crypto::generate_keys;
    #[allow(unused_imports)] use ahash::AHashMap;
    #[allow(unused_imports)] use crate::core::consensus::wallet::Wallet;
    #[allow(unused_imports)] use crate::core::util::test::test_manager::test::TestManager;
    #[allow(unused_imports)] use crate::core::defs::PrintForLog;
    #[allow(unused_imports)] use crate::core::consensus::transaction::Transaction;
    #[allow(unused_imports)] use crate::core::consensus::transaction::TransactionType;
    #[allow(unused_imports)] use crate::core::consensus::block::Block;
    #[allow(unused_imports)] use crate::core::consensus::block::BlockType;
    use crate::core::consensus::blockchain::AddBlockResult;
    use crate::core::defs::SaitoSignature;
    use std::ops::Deref;

    let mut t = TestManager::default();
    t.initialize(10, 1_000_000).await;
    let genesis = t.get_latest_block().await;
    assert_eq!(genesis.id, 1);

    // block 2: one transaction with a fee of 1000, no golden ticket
    let block2 = t
        .create_block(genesis.hash, genesis.timestamp + 120_000, 1, 1000, 1000, false)
        .await;
    let block2_hash = block2.hash;
    let block2_timestamp = block2.timestamp;
    let block2_difficulty = block2.difficulty;
    let result = t.add_block(block2).await;
    assert!(matches!(
        result,
        AddBlockResult::BlockAddedSuccessfully(_, true, _)
    ));

    // block 3 by the wallet key: one transaction and a golden ticket for block 2, hence a fee
    // transaction that pays block 2's fees out
    let (public_key, private_key) = {
        let wallet = t.wallet_lock.read().await;
        (wallet.public_key, wallet.private_key)
    };
    let mut tx = {
        let mut wallet = t.wallet_lock.write().await;
        Transaction::create(&mut wallet, public_key, 1000, 1000, false, None, 2, 100).unwrap()
    };
    tx.sign(&private_key);
    tx.generate(&public_key, 0, 0);
    let mut transactions: AHashMap<SaitoSignature, Transaction> = Default::default();
    transactions.insert(tx.signature, tx);
    let golden_ticket =
        TestManager::create_golden_ticket(t.wallet_lock.clone(), block2_hash, block2_difficulty)
            .await;
    let mut gttx =
        crate::core::consensus::wallet::Wallet::create_golden_ticket_transaction(golden_ticket, &public_key, &private_key).await;
    gttx.generate(&public_key, 0, 0);
    let mut block3 = {
        let configs = t.config_lock.read().await;
        let blockchain = t.blockchain_lock.read().await;
        Block::create(
            &mut transactions,
            block2_hash,
            &blockchain,
            block2_timestamp + 120_000,
            &public_key,
            &private_key,
            Some(gttx),
            configs.deref(),
            &t.storage,
        )
        .await
        .unwrap()
    };
    block3.generate().unwrap();
    block3.sign(&private_key);
    assert_eq!(block3.id, 3);
    let fee_pos = block3
        .transactions
        .iter()
        .position(|tx| tx.transaction_type == TransactionType::Fee)
        .expect("block 3 carries a fee transaction");
    assert!(!block3.transactions[fee_pos].to.is_empty());
    let signed_id = block3.transactions[fee_pos].signature;

    let original_bytes = block3.serialize_for_net(BlockType::Full);

    // control 0: the block as signed is valid on this chain
    {
        let configs = t.config_lock.read().await;
        let blockchain = t.blockchain_lock.read().await;
        let mut honest = Block::deserialize_from_net(&original_bytes).unwrap();
        honest.generate().unwrap();
        assert!(
            honest
                .validate(&blockchain, &blockchain.utxoset, configs.deref(), &t.storage, true)
                .await
        );
    }

    // control 1: the untouched bytes decode to the block the creator signed
    let mut same = Block::deserialize_from_net(&original_bytes).unwrap();
    same.generate().unwrap();
    assert_eq!(same.hash, block3.hash);

    // control 2: an edit the commitment does cover (the first payout goes to somebody else) is refused
    let mut redirected = Block::deserialize_from_net(&original_bytes).unwrap();
    redirected.transactions[fee_pos].to[0].public_key = generate_keys().0;
    let redirected =
        Block::deserialize_from_net(&redirected.serialize_for_net(BlockType::Full)).unwrap();
    let result = t.add_block(redirected).await;
    assert!(matches!(result, AddBlockResult::FailedNotValid));
    {
        let blockchain = t.blockchain_lock.read().await;
        assert!(!blockchain.blocks.contains_key(&block3.hash));
        assert_eq!(blockchain.get_latest_block_id(), 2);
    }

    // hostile edit by a keyless third party: the signature field of the fee transaction, which is
    // the id transactions are known by (mempool, wallet, explorers), is overwritten with 0xAB bytes
    let mut edited = Block::deserialize_from_net(&original_bytes).unwrap();
    edited.transactions[fee_pos].signature = [0xAB; 64];
    let edited_bytes = edited.serialize_for_net(BlockType::Full);
    assert_eq!(edited_bytes.len(), original_bytes.len());
    assert_ne!(edited_bytes, original_bytes);
    let mut edited = Block::deserialize_from_net(&edited_bytes).unwrap();
    edited.generate().unwrap();
    assert_ne!(edited.transactions[fee_pos].signature, signed_id);
    // header, signature and therefore the block hash are those of the signed block
    assert_eq!(edited.merkle_root, block3.merkle_root);
    assert_eq!(edited.signature, block3.signature);
    assert_eq!(edited.hash, block3.hash);

    let edited = Block::deserialize_from_net(&edited_bytes).unwrap();
    let result = t.add_block(edited).await;
    if !(!matches!(result, AddBlockResult::BlockAddedSuccessfully(..))) { witness(format!("block 3 ({}) was accepted after a keyless third party overwrote the 64 signature bytes of its fee transaction (position {}) with 0xAB; merkle root, creator signature and block hash are unchanged because the merkle leaf of a transaction is the hash of the bytes its signature is made over and the signature of a fee transaction is never verified, so two different transaction lists (the fee transaction is known by two different ids) are acceptable under one block hash", block3.hash.to_hex(), fee_pos)); }
}

/// C18: the lite block a server builds is accepted by the browser node it is built for, also when the full block carries a golden ticket and its fee transaction does not concern the client
#[allow(dead_code)]
// append to saito-core/src/core/consensus/block.rs
//
// 49a1fad ("a block with a golden ticket carries the fee transaction that pays out") refuses every
// block that has a golden ticket, no fee transaction and a non-empty expected payout. generate_lite_block
// keeps the golden ticket of every block (`|| tx.is_golden_ticket()`) but replaces the fee transaction by
// a placeholder unless one of its outputs pays a key of the lite client. so the lite block a full node
// serves to a browser node for any block with a golden ticket is now refused by that browser node as soon
// as the parent block is held as a (lite) block too, i.e. whenever two consecutive blocks concern the
// client.
#[derive(Debug)]
struct AuditDemoBrowserConfig {
    consensus: crate::core::util::configuration::ConsensusConfig,
    blockchain: crate::core::util::configuration::BlockchainConfig,
}
impl crate::core::util::configuration::Configuration for AuditDemoBrowserConfig {
    fn get_server_configs(&self) -> Option<&crate::core::util::configuration::Server> {
        None
    }
    fn get_peer_configs(&self) -> &Vec<crate::core::util::configuration::PeerConfig> {
        todo!()
    }
    fn get_blockchain_configs(&self) -> &crate::core::util::configuration::BlockchainConfig {
        &self.blockchain
    }
    fn get_block_fetch_url(&self) -> String {
        "".to_string()
    }
    fn is_spv_mode(&self) -> bool {
        false
    }
    fn is_browser(&self) -> bool {
        true
    }
    fn replace(&mut self, _config: &dyn crate::core::util::configuration::Configuration) {
        todo!()
    }
    fn get_consensus_config(
        &self,
    ) -> Option<&crate::core::util::configuration::ConsensusConfig> {
        Some(&self.consensus)
    }
}

/// a block of the full node `t` on top of `parent` with `txs` payments of the node to `to_key`
/// (each paying `fee`), and, if asked for, a golden ticket solving the parent handed to
/// Block::create the way the bundler hands it over
async fn audit_demo_block_paying(
    t: &mut TestManager,
    parent: &Block,
    to_key: SaitoPublicKey,
    txs: usize,
    fee: Currency,
    with_golden_ticket: bool,
) -> Block {
    use std::ops::Deref;
    let configs = t.config_lock.read().await;
    let genesis_period = configs.get_consensus_config().unwrap().genesis_period;
    let (public_key, private_key) = {
        let wallet = t.wallet_lock.read().await;
        (wallet.public_key, wallet.private_key)
    };
    let mut transactions: AHashMap<crate::core::defs::SaitoSignature, Transaction> =
        Default::default();
    for _ in 0..txs {
        let mut tx = {
            let mut wallet = t.wallet_lock.write().await;
            Transaction::create(
                &mut wallet,
                to_key,
                1_000,
                fee,
                false,
                None,
                parent.id,
                genesis_period,
            )
            .unwrap()
        };
        tx.sign(&private_key);
        tx.generate(&public_key, 0, 0);
        transactions.insert(tx.signature, tx);
    }
    let mut gt_tx = None;
    if with_golden_ticket {
        let golden_ticket =
            TestManager::create_golden_ticket(t.wallet_lock.clone(), parent.hash, parent.difficulty)
                .await;
        let mut tx =
            crate::core::consensus::wallet::Wallet::create_golden_ticket_transaction(golden_ticket, &public_key, &private_key)
                .await;
        tx.generate(&public_key, 0, 0);
        gt_tx = Some(tx);
    }
    let blockchain = t.blockchain_lock.read().await;
    let mut block = Block::create(
        &mut transactions,
        parent.hash,
        blockchain.deref(),
        parent.timestamp + 120_000,
        &public_key,
        &private_key,
        gt_tx,
        configs.deref(),
        &t.storage,
    )
    .await
    .unwrap();
    block.generate().unwrap();
    block
}

#[tokio::test]
#[serial_test::serial]
async fn browser_node_accepts_the_lite_block_of_a_block_with_a_golden_ticket() {
    #[allow(unused_imports)] use crate::core::util::crypto::generate_keys;
    #[allow(unused_imports)] use crate::core::consensus::wallet::Wallet;
    #[allow(unused_imports)] use crate::core::util::test::test_manager::test::TestManager;
    #[allow(unused_imports)] use crate::core::consensus::transaction::TransactionType;
    #[allow(unused_imports)] use crate::core::consensus::block::Block;
    #[allow(unused_imports)] use crate::core::consensus::block::BlockType;
    #[allow(unused_imports)] use crate::core::defs::SaitoPublicKey;
    #[allow(unused_imports)] use crate::core::consensus::golden_ticket::GoldenTicket;
    #[allow(unused_imports)] use crate::core::util::crypto::hash;
    #[allow(unused_imports)] use crate::core::io::storage::Storage;
    use crate::core::consensus::blockchain::{AddBlockResult, Blockchain};
    use crate::core::consensus::mempool::Mempool;
    use crate::core::util::test::test_io_handler::test::TestIOHandler;
    use std::sync::Arc;
    use tokio::sync::RwLock;

    // ---- the full node ----
    let mut t = TestManager::default();
    t.initialize(100, 200_000_000_000).await;
    let block1 = t.get_latest_block().await;

    // the key of the lite (browser) client
    let lite_keys = generate_keys();
    let lite_key: SaitoPublicKey = lite_keys.0;

    // block 2 : payments to the lite client that pay fees
    let block2 = audit_demo_block_paying(&mut t, &block1, lite_key, 2, 50_000, false).await;
    assert!(block2.total_fees > 0);
    let result = t.add_block(block2.clone()).await;
    assert!(
        matches!(result, AddBlockResult::BlockAddedSuccessfully(_, true, _)),
        "setup : the full node accepts block 2"
    );

    // block 3 : another payment to the lite client, and the golden ticket that pays block 2 out
    let block3 = audit_demo_block_paying(&mut t, &block2, lite_key, 1, 50_000, true).await;
    assert!(block3.has_golden_ticket, "setup : block 3 has a golden ticket");
    assert!(block3.has_fee_transaction, "setup : block 3 has a fee transaction");
    assert!(
        !block3.transactions[block3.fee_transaction_index as usize]
            .to
            .is_empty(),
        "setup : the fee transaction of block 3 pays out"
    );
    let result = t.add_block(block3.clone()).await;
    assert!(
        matches!(result, AddBlockResult::BlockAddedSuccessfully(_, true, _)),
        "setup : the full node accepts block 3"
    );

    // ---- what the full node serves the lite client ----
    let serve = |block: &Block| -> Block {
        let lite = block.generate_lite_block(vec![lite_key]);
        let buffer = lite.serialize_for_net(BlockType::Full);
        let mut received = Block::deserialize_from_net(&buffer).unwrap();
        received.generate().unwrap();
        received
    };
    let lite2 = serve(&block2);
    let lite3 = serve(&block3);
    assert_eq!(lite2.hash, block2.hash);
    assert_eq!(lite3.hash, block3.hash);
    assert!(
        lite3
            .transactions
            .iter()
            .any(|tx| tx.transaction_type == TransactionType::GoldenTicket),
        "setup : the lite block keeps the golden ticket"
    );
    assert!(
        !lite3
            .transactions
            .iter()
            .any(|tx| tx.transaction_type == TransactionType::Fee),
        "setup : the fee transaction (which pays the miner and the router, not the client) is a placeholder"
    );
    assert!(
        lite3.transactions.iter().any(|tx| tx
            .to
            .iter()
            .any(|slip| slip.public_key == lite_key)),
        "setup : the lite block carries the client's payment"
    );

    // ---- the browser node of the lite client ----
    let browser_configs = AuditDemoBrowserConfig {
        consensus: crate::core::util::configuration::ConsensusConfig {
            genesis_period: 100,
            heartbeat_interval: 100,
            prune_after_blocks: 8,
            max_staker_recursions: 3,
            default_social_stake: 0,
            default_social_stake_period: 60,
        },
        blockchain: Default::default(),
    };
    let lite_wallet = Arc::new(RwLock::new(Wallet::new(lite_keys.1, lite_keys.0)));
    let mut lite_blockchain = Blockchain::new(lite_wallet.clone(), 100, 0, 60);
    let mut lite_mempool = Mempool::new(lite_wallet.clone());
    let mut lite_storage = Storage::new(Box::new(TestIOHandler::new()));

    let result = lite_blockchain
        .add_block(lite2, &mut lite_storage, &mut lite_mempool, &browser_configs)
        .await;
    assert!(
        matches!(result, AddBlockResult::BlockAddedSuccessfully(_, true, _)),
        "setup : the browser node accepts the lite block of block 2 : {:?}",
        result
    );
    assert_eq!(lite_blockchain.get_latest_block_id(), 2);

    let result = lite_blockchain
        .add_block(lite3, &mut lite_storage, &mut lite_mempool, &browser_configs)
        .await;
    if !(matches!(result, AddBlockResult::BlockAddedSuccessfully(_, true, _))) { witness(format!("a browser (lite) node refuses the honest lite block of a block with a golden ticket, because the lite block keeps the golden ticket but replaces the fee transaction by a placeholder and commit 49a1fad refuses a golden ticket without fee transaction : {:?}", result)); }
    assert_eq!(lite_blockchain.get_latest_block_id(), 3);
}

/// C01: a transaction that bypasses the signature and ownership checks through a privileged type is rejected by the pool too, whatever way it comes in
#[tokio::test]
#[serial_test::serial]
async fn pool_refuses_transactions_of_block_generated_types() {
    #[allow(unused_imports)] use crate::core::util::crypto::generate_keys;
    #[allow(unused_imports)] use crate::core::util::test::test_manager::test::TestManager;
    #[allow(unused_imports)] use crate::core::consensus::slip::Slip;
    #[allow(unused_imports)] use crate::core::consensus::transaction::Transaction;
    #[allow(unused_imports)] use crate::core::consensus::transaction::TransactionType;
    let mut t = TestManager::default();
    let (victim_public_key, _victim_private_key) = generate_keys();
    let (thief_public_key, _thief_private_key) = generate_keys();

    let mut issued = Slip::default();
    issued.public_key = victim_public_key;
    issued.amount = 1000;
    t.initialize_from_slips_and_value(vec![issued], 5000).await;

    let victim_output: Slip = {
        let blockchain = t.blockchain_lock.read().await;
        assert_eq!(blockchain.get_latest_block_id(), 1);
        let block1 = blockchain.get_latest_block().unwrap();
        let found: Vec<Slip> = block1
            .transactions
            .iter()
            .flat_map(|tx| tx.to.iter())
            .filter(|slip| slip.public_key == victim_public_key)
            .cloned()
            .collect();
        assert_eq!(found.len(), 1);
        assert!(found[0].validate(&blockchain.utxoset));
        found[0].clone()
    };

    let build = |transaction_type: TransactionType| {
        let mut output = Slip::default();
        output.public_key = thief_public_key;
        output.amount = 1000;
        let mut tx = Transaction::default();
        tx.timestamp = crate::core::util::test::test_manager::test::create_timestamp();
        tx.transaction_type = transaction_type;
        tx.add_from_slip(victim_output.clone());
        tx.add_to_slip(output);
        // nobody signs : the thief does not have the victim's key
        tx
    };

    let blockchain = t.blockchain_lock.read().await;
    let mut mempool = t.mempool_lock.write().await;
    assert_eq!(mempool.transactions.len(), 0);

    // control : as a normal transaction the unsigned spend is refused by the pool
    mempool
        .add_transaction_if_validates(build(TransactionType::Normal), &blockchain)
        .await;
    assert_eq!(mempool.transactions.len(), 0);

    // the same spend, typed ATR
    mempool
        .add_transaction_if_validates(build(TransactionType::ATR), &blockchain)
        .await;
    let pooled = mempool.transactions.len();
    let reserved = mempool
        .utxo_map
        .contains_key(&victim_output.get_utxoset_key());

    if !((pooled) == (0)) { witness(format!("the pool admitted an unsigned ATR-typed transaction that moves the victim's output 1-{}-0 (1000) to another key ({} pooled, victim's output reserved in the pool: {}); the identical spend typed Normal was refused: the privileged type bypasses the signature and ownership checks at the pool, and the next block this node bundles carries it", victim_output.tx_ordinal, pooled, reserved)); }
}
