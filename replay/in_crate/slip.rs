// Replay / extraction-validation module for slip.rs (compiled only under --cfg saito_verif in the test build)
#[allow(unused_imports)]
use super::*;
include!("/verif/replay/in_crate/common.rs");

pub fn rand_slip(rng: &mut Rng) -> Slip {
    let mut s = Slip::default();
    s.public_key = rng.arr::<33>();
    s.amount = rng.edge_u64();
    s.block_id = rng.edge_u64();
    s.tx_ordinal = rng.edge_u64();
    s.slip_index = rng.next() as u8;
    s.slip_type = SlipType::from_u8((rng.below(10)) as u8).unwrap();
    s
}

/// twins of the slip unit's contracts on the real functions
#[test]
fn codec_contract() {
    let mut rng = Rng::from_env();
    for _ in 0..3000 {
        let mut s = rand_slip(&mut rng);
        let e = s.serialize_for_net();
        let mut expect = s.public_key.to_vec();
        expect.extend(s.amount.to_be_bytes()); expect.extend(s.block_id.to_be_bytes()); expect.extend(s.tx_ordinal.to_be_bytes());
        expect.push(s.slip_index); expect.push(s.slip_type as u8);
        if e != expect || e.len() != 59 { witness(format!("serialize_for_net layout differs for {:?}", s)); }
        let d = Slip::deserialize_from_net(&e).unwrap_or_else(|_| witness("valid slip rejected".to_string()));
        if d.public_key != s.public_key || d.amount != s.amount || d.block_id != s.block_id || d.tx_ordinal != s.tx_ordinal || d.slip_index != s.slip_index || d.slip_type != s.slip_type { witness("slip does not round trip".to_string()); }
        let k = s.get_utxoset_key();
        let mut ke = s.public_key.to_vec();
        ke.extend(s.block_id.to_be_bytes()); ke.extend(s.tx_ordinal.to_be_bytes()); ke.push(s.slip_index); ke.extend(s.amount.to_be_bytes()); ke.push(s.slip_type as u8);
        if k.to_vec() != ke { witness("utxoset key layout differs".to_string()); }
        s.generate_utxoset_key();
        let p = Slip::parse_slip_from_utxokey(&k).unwrap_or_else(|_| witness("valid key rejected".to_string()));
        if p.get_utxoset_key() != k { witness("parse_slip_from_utxokey does not invert get_utxoset_key".to_string()); }
        let n = rng.below(70) as usize;
        let junk = rng.bytes(n);
        if n != 59 && Slip::deserialize_from_net(&junk).is_ok() { witness(format!("slip of {} bytes accepted", n)); }
    }
}

/// twins: validate / on_chain_reorganization against the Map view
#[test]
fn utxo_contract() {
    let mut rng = Rng::from_env();
    for _ in 0..3000 {
        let mut utxo: UtxoSet = Default::default();
        let mut s = rand_slip(&mut rng);
        if rng.below(3) == 0 { s.amount = 0; }
        s.generate_utxoset_key();
        let other = { let mut o = rand_slip(&mut rng); o.amount = 5; o.generate_utxoset_key(); o };
        utxo.insert(other.utxoset_key, true);
        match rng.below(3) { 0 => {}, 1 => { utxo.insert(s.utxoset_key, true); }, _ => { utxo.insert(s.utxoset_key, false); } }
        let expect_valid = s.amount == 0 || utxo.get(&s.utxoset_key) == Some(&true);
        if s.validate(&utxo) != expect_valid { witness(format!("Slip::validate gave {} for amount {} entry {:?}", !expect_valid, s.amount, utxo.get(&s.utxoset_key))); }
        let before = utxo.clone();
        let spend = rng.below(2) == 0;
        s.on_chain_reorganization(&mut utxo, spend);
        let mut expect = before.clone();
        if s.amount > 0 { if spend { expect.insert(s.utxoset_key, true); } else { expect.remove(&s.utxoset_key); } }
        if utxo != expect { witness(format!("on_chain_reorganization(spendable={}) delta wrong for amount {}", spend, s.amount)); }
    }
}

/// extraction validation of the assumed constructor contracts (external_body stubs in the units): the values the real
/// `Default` / `new` constructors produce are the ones the contracts state
#[test]
fn constructor_stubs_state_the_real_defaults() {
    let s = Slip::default();
    if s.public_key != [0u8; 33] || s.amount != 0 || s.slip_index != 0 || s.block_id != 0 || s.tx_ordinal != 0 || s.slip_type != SlipType::Normal || s.utxoset_key != [0u8; 59] || s.is_utxoset_key_set {
        witness("Slip::default() is not the all-zero Normal slip the unit stubs assume".to_string());
    }
    let t = crate::core::consensus::transaction::Transaction::default();
    if !t.from.is_empty() || !t.to.is_empty() || !t.data.is_empty() || !t.path.is_empty() || t.total_fees != 0 || t.txs_replacements != 1 {
        witness("Transaction::default() is not the empty transaction the unit stubs assume".to_string());
    }
    let b = crate::core::consensus::block::Block::new();
    if !b.transactions.is_empty() || b.block_type != crate::core::consensus::block::BlockType::Full { witness("Block::new() is not the empty full block the unit stubs assume".to_string()); }
    let w = crate::core::consensus::wallet::WalletSlip::new();
    if w.amount != 0 || w.block_id != 0 || w.tx_ordinal != 0 || !w.lc || w.slip_index != 0 || w.spent || w.slip_type != SlipType::Normal { witness("WalletSlip::new() differs from the stub contract".to_string()); }
}
