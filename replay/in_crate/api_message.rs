// Replay / extraction-validation module for api_message.rs (compiled only under --cfg saito_verif in the test build)
#[allow(unused_imports)]
use super::*;
include!("/verif/replay/in_crate/common.rs");
