// Replay / extraction-validation module for blockring.rs (compiled only under --cfg saito_verif in the test build)
#[allow(unused_imports)]
use super::*;
include!("/verif/replay/in_crate/common.rs");

fn lc_at(r: &BlockRing, id: u64) -> Option<SaitoHash> {
    let it = &r.ring[(id % (r.genesis_period * 2)) as usize];
    match it.lc_pos { Some(p) if p < it.block_ids.len() && it.block_ids[p] == id => Some(it.block_hashes[p]), _ => None }
}

/// twins of the BlockRing contracts: random op sequences against a model {height → chain block}
#[test]
fn ring_contract() {
    let mut rng = Rng::from_env();
    for run in 0..400 {
        let gp = 2 + rng.below(3);
        let mut ring = BlockRing::new(gp);
        let mut trace: Vec<String> = vec![];
        for _ in 0..30 {
            let id = 1 + rng.below(gp * 2 + 2);
            let h = [(id * 10 + rng.below(3)) as u8; 32];
            let before: Vec<Option<SaitoHash>> = (0..=gp * 2 + 3).map(|i| lc_at(&ring, i)).collect();
            match rng.below(4) {
                0 => {
                    let mut b = Block::new(); b.id = id; b.hash = h;
                    ring.add_block(&b);
                    trace.push(format!("add({},{})", id, h[0]));
                    for i in 0..before.len() { if lc_at(&ring, i as u64) != before[i] { witness(format!("run {}: add_block changed the chain entry at height {}: {:?}", run, i, trace)); } }
                }
                1 => {
                    ring.delete_block(id, h);
                    trace.push(format!("delete({},{})", id, h[0]));
                    for i in 0..before.len() {
                        let now = lc_at(&ring, i as u64);
                        match before[i] {
                            Some(bh) if !(i as u64 == id && bh == h) => { if now != before[i] { witness(format!("run {}: deleting a side block changed the chain entry at height {} from {:?} to {:?}: {:?}", run, i, before[i].map(|x| x[0]), now.map(|x| x[0]), trace)); } }
                            None => { if now.is_some() { witness(format!("run {}: delete_block created a chain entry at height {} ({:?}): {:?}", run, i, now.map(|x| x[0]), trace)); } }
                            _ => {}
                        }
                    }
                }
                2 => {
                    let present = ring.contains_block_hash_at_block_id(id, h);
                    ring.on_chain_reorganization(id, h, true);
                    trace.push(format!("wind({},{})", id, h[0]));
                    if present && ring.get_block_hashes_at_block_id(id).contains(&h) {
                        let slot = &ring.ring[(id % (gp * 2)) as usize];
                        let first = slot.block_hashes.iter().position(|x| *x == h).unwrap();
                        if slot.block_ids[first] == id {
                            if lc_at(&ring, id) != Some(h) { witness(format!("run {}: wind did not set the chain block: {:?}", run, trace)); }
                            if ring.get_latest_block_id() != id || ring.get_latest_block_hash() != h { witness(format!("run {}: wind did not move the tip: {:?}", run, trace)); }
                        }
                    }
                }
                _ => {
                    let was_tip = ring.lc_pos == Some((id % (gp * 2)) as usize);
                    let prev = lc_at(&ring, id - 1);
                    ring.on_chain_reorganization(id, h, false);
                    trace.push(format!("unwind({},{})", id, h[0]));
                    if lc_at(&ring, id).is_some() { witness(format!("run {}: unwind left a chain entry: {:?}", run, trace)); }
                    if was_tip {
                        match prev { Some(ph) => { if ring.get_latest_block_id() != id - 1 || ring.get_latest_block_hash() != ph { witness(format!("run {}: tip did not roll back to height {}: {:?}", run, id - 1, trace)); } }
                                     None => { if ring.get_latest_block_id() != 0 { witness(format!("run {}: tip rolled back to a non-chain block: {:?}", run, trace)); } } }
                    }
                }
            }
            for it in ring.ring.iter() { if it.block_ids.len() != it.block_hashes.len() { witness("ring item lengths differ".into()); } if let Some(p) = it.lc_pos { if p >= it.block_ids.len() { witness(format!("run {}: lc_pos out of range: {:?}", run, trace)); } } }
            for i in 0..before.len() as u64 { if ring.get_longest_chain_block_hash_at_block_id(i) != lc_at(&ring, i) { witness("get_longest_chain_block_hash_at_block_id disagrees with the index".into()); } }
        }
    }
}
