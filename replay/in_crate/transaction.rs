// Replay / extraction-validation module for transaction.rs (compiled only under --cfg saito_verif in the test build)
#[allow(unused_imports)]
use super::*;
include!("/verif/replay/in_crate/common.rs");

fn rand_slip(rng: &mut Rng) -> Slip {
    let mut s = Slip::default();
    s.public_key = rng.arr::<33>();
    s.amount = rng.edge_u64();
    s.block_id = rng.edge_u64();
    s.tx_ordinal = rng.edge_u64();
    s.slip_index = rng.next() as u8;
    s.slip_type = SlipType::from_u8((rng.below(10)) as u8).unwrap();
    s
}

pub fn rand_tx(rng: &mut Rng, max_slips: u64) -> Transaction {
    let mut tx = Transaction::default();
    tx.timestamp = rng.edge_u64();
    for _ in 0..rng.below(max_slips + 1) { tx.from.push(rand_slip(rng)); }
    for _ in 0..rng.below(max_slips + 1) { tx.to.push(rand_slip(rng)); }
    let n = rng.below(40) as usize;
    tx.data = rng.bytes(n);
    tx.transaction_type = TransactionType::from_u8(rng.below(9) as u8).unwrap();
    tx.txs_replacements = rng.next() as u32;
    tx.signature = rng.arr::<64>();
    for _ in 0..rng.below(4) {
        let mut h = Hop::default();
        h.from = rng.arr::<33>(); h.to = rng.arr::<33>(); h.sig = rng.arr::<64>();
        tx.path.push(h);
    }
    tx
}

fn decode_guarded(buf: &[u8]) -> Result<Result<Transaction, std::io::Error>, String> {
    let b = buf.to_vec();
    let prev = std::panic::take_hook();
    std::panic::set_hook(Box::new(|_| {}));
    let r = std::panic::catch_unwind(move || Transaction::deserialize_from_net(&b));
    std::panic::set_hook(prev);
    r.map_err(|e| e.downcast_ref::<String>().cloned().or_else(|| e.downcast_ref::<&str>().map(|s| s.to_string())).unwrap_or_default())
}

/// C10: Transaction::deserialize_from_net returns Ok/Err for every byte string (all truncations, count-field corruptions, random)
#[test]
fn decoder_total() {
    let mut rng = Rng::from_env();
    for round in 0..400 {
        let tx = rand_tx(&mut rng, 3);
        let enc = tx.serialize_for_net();
        // all truncations
        for cut in 0..enc.len() {
            if let Err(p) = decode_guarded(&enc[..cut]) {
                witness(format!("Transaction::deserialize_from_net panicked on a {}-byte truncation of a valid {}-byte encoding (inputs={}, outputs={}, data={}, hops={}): {}", cut, enc.len(), tx.from.len(), tx.to.len(), tx.data.len(), tx.path.len(), p));
            }
        }
        // corrupt each length/count field with boundary values
        for field in 0..4 {
            for v in [0u32, 1, 2, 255, 256, 0x7fff_ffff, 0xffff_ffff, rng.next() as u32] {
                let mut b = enc.clone();
                b[field * 4..field * 4 + 4].copy_from_slice(&v.to_be_bytes());
                if let Err(p) = decode_guarded(&b) {
                    witness(format!("Transaction::deserialize_from_net panicked: valid {}-byte encoding with length field #{} set to {}: {}", enc.len(), field, v, p));
                }
            }
        }
        let n = rng.below(300) as usize;
        let junk = rng.bytes(n);
        if let Err(p) = decode_guarded(&junk) {
            witness(format!("Transaction::deserialize_from_net panicked on random {}-byte buffer {:?} (round {}): {}", n, &junk[..n.min(20)], round, p));
        }
    }
}

/// C09: decode(encode(tx)) == tx on wire fields, predicted size == real size, re-encode identical
#[test]
fn roundtrip() {
    let mut rng = Rng::from_env();
    for _ in 0..2000 {
        let tx = rand_tx(&mut rng, 4);
        let enc = tx.serialize_for_net();
        if enc.len() != tx.get_serialized_size() { witness(format!("get_serialized_size {} != real {}", tx.get_serialized_size(), enc.len())); }
        let d = match Transaction::deserialize_from_net(&enc) { Ok(d) => d, Err(e) => witness(format!("valid encoding rejected: {:?}", e)) };
        if d.timestamp != tx.timestamp || d.from != tx.from || d.to != tx.to || d.data != tx.data || d.transaction_type != tx.transaction_type
            || d.txs_replacements != tx.txs_replacements || d.signature != tx.signature || d.path != tx.path {
            witness(format!("decode(encode(tx)) != tx for {:?}", tx));
        }
        if d.serialize_for_net() != enc { witness("re-encoding differs".to_string()); }
    }
}

/// C02: output / input sums are computed without 64-bit wrap-around: a transaction whose outputs exceed its inputs in
/// unbounded arithmetic must never end up with total_out <= total_in
#[test]
fn fee_sums_do_not_wrap() {
    let mut rng = Rng::from_env();
    for round in 0..3000 {
        let mut tx = Transaction::default();
        // the surplus is the fee whatever type the transaction carries (a golden-ticket transaction may pay one too)
        tx.transaction_type = [TransactionType::Normal, TransactionType::GoldenTicket, TransactionType::Normal, TransactionType::Vip, TransactionType::BlockStake][(rng.below(5)) as usize];
        let ttype = tx.transaction_type;
        let nin = 1 + rng.below(3); let nout = 1 + rng.below(3);
        for _ in 0..nin { let mut s = Slip::default(); s.amount = if round % 2 == 0 { rng.below(1000) } else { rng.edge_u64() }; s.public_key = [2; 33]; tx.from.push(s); }
        for _ in 0..nout { let mut s = Slip::default(); s.amount = rng.edge_u64(); s.public_key = [3; 33]; tx.to.push(s); }
        let sum_in: u128 = tx.from.iter().map(|s| s.amount as u128).sum();
        let sum_out: u128 = tx.to.iter().map(|s| s.amount as u128).sum();
        let desc = format!("inputs {:?} outputs {:?}", tx.from.iter().map(|s| s.amount).collect::<Vec<_>>(), tx.to.iter().map(|s| s.amount).collect::<Vec<_>>());
        let prev = std::panic::take_hook();
        std::panic::set_hook(Box::new(|_| {}));
        let r = std::panic::catch_unwind(move || { let mut t = tx; t.generate_total_fees(0, 0); (t.total_in, t.total_out, t.total_fees) });
        std::panic::set_hook(prev);
        match r {
            Err(_) => witness(format!("Transaction::generate_total_fees panicked (arithmetic overflow; wraps silently in a release build): {}", desc)),
            Ok((ti, to, tf)) => {
                // (inputs of an accepted transaction are distinct existing outputs, so their sum is below the supply, far below 2^64)
                if sum_out > sum_in && sum_in < u64::MAX as u128 && to <= ti { witness(format!("outputs exceed inputs ({} > {}) but total_out={} <= total_in={}: {}", sum_out, sum_in, to, ti, desc)); }
                if sum_in <= u64::MAX as u128 && sum_out <= u64::MAX as u128 && (ti as u128 != sum_in || to as u128 != sum_out || tf as u128 != sum_in.saturating_sub(sum_out)) { witness(format!("{:?} transaction: total_in={} total_out={} total_fees={} — the fee must be the surplus of inputs over outputs: {}", ttype, ti, to, tf, desc)); }
            }
        }
    }
}

use crate::core::util::test::test_manager::test::TestManager;
use crate::core::util::crypto::generate_keys;
#[allow(unused_imports)]
use crate::core::defs::{SaitoPrivateKey as _SPK};

fn validate_guarded(tx: Transaction, bc: &Blockchain) -> Result<bool, String> {
    let prev = std::panic::take_hook();
    std::panic::set_hook(Box::new(|_| {}));
    let r = std::panic::catch_unwind(std::panic::AssertUnwindSafe(|| tx.validate(&bc.utxoset, bc, false)));
    std::panic::set_hook(prev);
    r.map_err(|e| e.downcast_ref::<String>().cloned().or_else(|| e.downcast_ref::<&str>().map(|s| s.to_string())).unwrap_or_default())
}

/// C01/C10: Transaction::validate returns a verdict (never panics) for hostile but well-formed transactions
#[tokio::test]
#[serial_test::serial]
async fn validate_is_total_on_hostile_fields() {
    let t = TestManager::default();
    let bc = t.blockchain_lock.read().await;
    let (pk, sk) = generate_keys();
    let mut rng = Rng::from_env();
    for round in 0..400 {
        let mut tx = Transaction::default();
        let bound = round % 2 == 0;
        tx.transaction_type = if bound { TransactionType::Bound } else { TransactionType::BlockStake };
        let base = match rng.below(3) { 0 => 255u8, 1 => 254u8, _ => rng.next() as u8 };
        for i in 0..3u8 {
            let mut s = Slip::default(); s.public_key = pk; s.block_id = 7; s.tx_ordinal = 1;
            s.slip_index = if i == 0 { base } else if i == 1 { base.wrapping_add(1) } else { base.wrapping_add(2) };
            s.slip_type = if bound { if i == 1 { SlipType::Normal } else { SlipType::Bound } } else { SlipType::BlockStake };
            s.amount = if bound { if i == 2 { 0 } else { 10 } } else { rng.edge_u64() };
            let mut o = s.clone();
            if !bound { o.amount = rng.edge_u64(); }
            tx.from.push(s); tx.to.push(o);
        }
        tx.sign(&sk);
        tx.generate(&pk, 0, 0);
        let desc = format!("type {:?}, input slip_index {:?}, output amounts {:?}", tx.transaction_type, tx.from.iter().map(|s| s.slip_index).collect::<Vec<_>>(), tx.to.iter().map(|s| s.amount).collect::<Vec<_>>());
        if let Err(p) = validate_guarded(tx, &bc) { witness(format!("Transaction::validate panicked ({}) on {}", p, desc)); }
    }
}

/// C01: every value-carrying input must belong to the key whose signature authorises the transaction
#[tokio::test]
#[serial_test::serial]
async fn foreign_owned_input_is_rejected() {
    let mut t = TestManager::default();
    t.initialize(10, 1_000_000_000).await;
    let bc = t.blockchain_lock.read().await;
    let (attacker_pk, attacker_sk) = generate_keys();
    let (victim_pk, _) = generate_keys();
    // a spendable output of every slip type owned by somebody else (placed in a private copy of the ledger), at every
    // input position behind a zero-valued slip of the attacker
    for ty in 0u8..10 {
        let slip_type = SlipType::from_u8(ty).unwrap();
        if slip_type == SlipType::Bound { continue; }   // Bound slips carry an NFT id, not an owner, in public_key
        for pos in 1..3usize {
            let mut utxo = bc.utxoset.clone();
            let mut victim = Slip::default();
            victim.public_key = victim_pk; victim.amount = 5_000; victim.block_id = 1; victim.tx_ordinal = 77; victim.slip_index = ty; victim.slip_type = slip_type;
            victim.generate_utxoset_key();
            utxo.insert(victim.utxoset_key, true);
            let mut tx = Transaction::default();
            for i in 0..=pos {
                if i == pos { tx.from.push(victim.clone()); } else { let mut own = Slip::default(); own.public_key = attacker_pk; own.amount = 0; own.slip_index = i as u8; tx.from.push(own); }
            }
            let mut out = Slip::default(); out.public_key = attacker_pk; out.amount = victim.amount;
            tx.to.push(out);
            tx.sign(&attacker_sk);
            tx.generate(&attacker_pk, 0, 0);
            if tx.validate(&utxo, &bc, true) {
                witness(format!("transaction signed only by key {:?}… spends a spendable {:?} output of {} nolan owned by a different key {:?}… (input position {}) and Transaction::validate(.., validate_against_utxo = true) returned true",
                    &attacker_pk[..4], slip_type, victim.amount, &victim_pk[..4], pos));
            }
        }
    }
}

/// C08: a routing path is accepted iff every hop is signed by its sender over (tx signature ‖ next node), is not a
/// self-hop, and continues the previous hop; routing work is credited only along such a path ending at the creator
#[test]
fn routing_path_contract() {
    let mut rng = Rng::from_env();
    let keys: Vec<(SaitoPublicKey, SaitoPrivateKey)> = (0..5).map(|_| generate_keys()).collect();
    for round in 0..400 {
        let mut tx = Transaction::default();
        tx.signature = rng.arr::<64>();
        tx.total_fees = rng.below(1000);
        let n = rng.below(4) as usize;
        let mut cur = rng.below(5) as usize;
        let mut model_ok = true;
        let mut desc: Vec<String> = vec![];
        for i in 0..n {
            let kind = rng.below(8);
            let from = if kind == 0 && i > 0 { (cur + 1) % 5 } else { cur };          // discontinuity
            let to = if kind == 1 { from } else { (from + 1 + rng.below(4) as usize) % 5 };   // self-hop
            let mut hop = Hop::generate(&keys[from].1, &keys[from].0, &keys[to].0, &tx);
            if kind == 2 { hop.sig[3] ^= 1; }                                          // bad signature
            if from != cur && i > 0 { model_ok = false; }
            if to == from { model_ok = false; }
            if kind == 2 { model_ok = false; }
            desc.push(format!("{}→{}{}", from, to, if kind == 2 { "(bad sig)" } else { "" }));
            tx.path.push(hop);
            cur = to;
        }
        let got = tx.validate_routing_path();
        if got != model_ok { witness(format!("validate_routing_path returned {} for path {:?} (round {}), expected {}", got, desc, round, model_ok)); }
        // routing work: contiguous path ending at me → fees halved per extra hop; otherwise 0; never more than the fees
        if n > 0 {
            let me = tx.path[n - 1].to;
            let contiguous = (1..n).all(|i| tx.path[i].from == tx.path[i - 1].to);
            tx.generate_total_work(&me);
            let mut expect = tx.total_fees; for _ in 1..n { expect -= expect / 2; }
            if !contiguous { expect = 0; }
            if tx.total_work_for_me != expect || tx.total_work_for_me > tx.total_fees { witness(format!("generate_total_work gave {} for fees {} over path {:?}, expected {}", tx.total_work_for_me, tx.total_fees, desc, expect)); }
            let other = keys.iter().map(|k| k.0).find(|k| *k != me).unwrap();
            tx.generate_total_work(&other);
            if tx.total_work_for_me != 0 { witness(format!("routing work {} credited to a node that is not the end of the path {:?}", tx.total_work_for_me, desc)); }
        }
    }
}


/// C02 (second sentence): an accepted user transaction never pays out more than it consumes — for plain payments and
/// for NFT-creating (Bound) transactions alike; surplus on the input side is fine
#[tokio::test]
#[serial_test::serial]
async fn accepted_transaction_creates_no_value() {
    use crate::core::consensus::wallet::Wallet;
    let (pk, sk) = crate::core::util::crypto::generate_keys();
    let wallet_lock = std::sync::Arc::new(tokio::sync::RwLock::new(Wallet::new(sk, pk)));
    let mut blockchain = Blockchain::new(wallet_lock, 1_000, 0, 60);
    let mut rng = Rng::from_env();
    for round in 0..60 {
        let nft = round % 2 == 1;
        let input_amount = 1 + rng.below(1_000_000);
        let out_amount = match rng.below(3) { 0 => input_amount, 1 => input_amount + 1 + rng.below(1_000_000_000), _ => rng.below(input_amount + 1) };
        let mut tx = Transaction::default();
        let mut input = Slip::default(); input.public_key = pk; input.amount = input_amount; input.block_id = 7; input.tx_ordinal = round; input.slip_index = 1;
        tx.add_from_slip(input.clone());
        if nft {
            tx.transaction_type = TransactionType::Bound;
            let mut o1 = Slip::default(); o1.public_key = pk; o1.amount = 1; o1.slip_type = SlipType::Bound;
            let mut o2 = Slip::default(); o2.public_key = pk; o2.amount = out_amount;
            let mut o3 = Slip::default(); o3.public_key = Wallet::create_nft_uuid(&input, "demo"); o3.amount = 0; o3.slip_type = SlipType::Bound;
            tx.add_to_slip(o1); tx.add_to_slip(o2); tx.add_to_slip(o3);
        } else {
            let mut o = Slip::default(); o.public_key = pk; o.amount = out_amount; tx.add_to_slip(o);
        }
        tx.sign(&sk);
        tx.generate(&pk, 0, 8);
        blockchain.utxoset.insert(tx.from[0].utxoset_key, true);
        let accepted = tx.validate(&blockchain.utxoset, &blockchain, true);
        let consumed: u128 = tx.from.iter().filter(|s| s.slip_type != SlipType::Bound).map(|s| s.amount as u128).sum();
        let paid: u128 = tx.to.iter().filter(|s| s.slip_type != SlipType::Bound).map(|s| s.amount as u128).sum();
        if accepted && paid > consumed {
            witness(format!("round {}: a {:?} transaction with inputs worth {} and value-carrying outputs worth {} was accepted by Transaction::validate — it pays out {} more than it consumes",
                round, tx.transaction_type, consumed, paid, paid - consumed));
        }
        if !nft && !accepted && paid <= consumed { witness(format!("round {}: a plain payment with inputs {} and outputs {} was refused", round, consumed, paid)); }
    }
    // an NFT changing hands ([Bound, Normal, Bound] in and out): the quantity in the Bound input is not value; also a
    // transaction whose only input carries no value at all
    for round in 0..40u64 {
        let zero_input = round % 4 == 3;
        let units = 1 + rng.below(1_000_000);
        let nolan_in = if zero_input { 0 } else { 1 + rng.below(1_000) };
        let nolan_out = match rng.below(3) { 0 => nolan_in, 1 => nolan_in + units, _ => nolan_in + 1 + rng.below(1_000_000_000) };
        let mut tx = Transaction::default();
        if zero_input {
            let mut i = Slip::default(); i.public_key = pk; i.amount = 0; i.block_id = 9; i.tx_ordinal = round; tx.add_from_slip(i);
            let mut o = Slip::default(); o.public_key = pk; o.amount = nolan_out; tx.add_to_slip(o);
        } else {
            tx.transaction_type = TransactionType::Bound;
            let mut ins = [Slip::default(), Slip::default(), Slip::default()];
            ins[0].public_key = pk; ins[0].amount = units; ins[0].slip_type = SlipType::Bound;
            ins[1].public_key = pk; ins[1].amount = nolan_in;
            ins[2].public_key = [7; 33]; ins[2].amount = 0; ins[2].slip_type = SlipType::Bound;
            for (k, i) in ins.iter_mut().enumerate() { i.block_id = 9; i.tx_ordinal = round; i.slip_index = k as u8; }
            let mut outs = [Slip::default(), Slip::default(), Slip::default()];
            outs[0].public_key = pk; outs[0].amount = units; outs[0].slip_type = SlipType::Bound;
            outs[1].public_key = pk; outs[1].amount = nolan_out;
            outs[2].public_key = [7; 33]; outs[2].amount = 0; outs[2].slip_type = SlipType::Bound;
            for i in ins.iter() { tx.add_from_slip(i.clone()); }
            for o in outs.iter() { tx.add_to_slip(o.clone()); }
        }
        tx.sign(&sk);
        tx.generate(&pk, 0, 10);
        for i in tx.from.iter() { if i.amount > 0 { blockchain.utxoset.insert(i.utxoset_key, true); } }
        let accepted = tx.validate(&blockchain.utxoset, &blockchain, true);
        let consumed: u128 = tx.from.iter().filter(|s| s.slip_type != SlipType::Bound).map(|s| s.amount as u128).sum();
        let paid: u128 = tx.to.iter().filter(|s| s.slip_type != SlipType::Bound).map(|s| s.amount as u128).sum();
        if accepted && paid > consumed {
            witness(format!("{}: inputs worth {} nolan{}, value-carrying outputs worth {} — accepted by Transaction::validate, it pays out {} more than it consumes",
                if zero_input { "a transaction whose only input carries no value".to_string() } else { "an NFT transfer".to_string() }, consumed,
                if zero_input { String::new() } else { format!(" (plus {} NFT units in the Bound input)", units) }, paid, paid - consumed));
        }
        if !zero_input && nolan_out == nolan_in && !accepted { witness(format!("an honest NFT transfer ({} nolan in, {} out) was refused", nolan_in, nolan_out)); }
    }
}

/// C01: whatever type the sender puts on a transaction (other than the exempt Fee / SPV / BlockStake), acceptance implies
/// that every value-carrying input exists in the ledger and is unspent
#[tokio::test]
#[serial_test::serial]
async fn spent_input_is_refused_for_every_checked_type() {
    use crate::core::consensus::wallet::Wallet;
    let (pk, sk) = crate::core::util::crypto::generate_keys();
    let wallet_lock = std::sync::Arc::new(tokio::sync::RwLock::new(Wallet::new(sk, pk)));
    let mut blockchain = Blockchain::new(wallet_lock, 1_000, 0, 60);
    let types = [TransactionType::Normal, TransactionType::GoldenTicket, TransactionType::ATR, TransactionType::Vip, TransactionType::Issuance, TransactionType::Bound];
    for (n, ty) in types.iter().enumerate() {
        for state in 0..3 {   // 0: never existed, 1: spent (present, false), 2: unspent (control)
            let mut tx = Transaction::default();
            tx.transaction_type = *ty;
            let mut input = Slip::default(); input.public_key = pk; input.amount = 500; input.block_id = 3; input.tx_ordinal = (n * 3 + state) as u64; input.slip_index = 0;
            tx.add_from_slip(input);
            let mut o = Slip::default(); o.public_key = pk; o.amount = 500; tx.add_to_slip(o);
            if *ty == TransactionType::GoldenTicket { tx.data = vec![7u8; 97]; }   // a golden ticket transaction carries a ticket
            tx.sign(&sk);
            tx.generate(&pk, 0, 8);
            match state { 1 => { blockchain.utxoset.insert(tx.from[0].utxoset_key, false); } 2 => { blockchain.utxoset.insert(tx.from[0].utxoset_key, true); } _ => {} }
            let accepted = tx.validate(&blockchain.utxoset, &blockchain, true);
            if accepted && state != 2 {
                witness(format!("a {:?}-typed transaction whose 500-nolan input {} was accepted by Transaction::validate(validate_against_utxo = true)", ty, if state == 0 { "does not exist in the ledger" } else { "is already spent" }));
            }
        }
    }
}

/// C03: winding a transaction spends its inputs and creates its outputs; unwinding it gives the inputs back and removes the
/// outputs — the spendable set after wind + unwind is what it was
#[test]
fn wind_then_unwind_restores_the_spendable_set() {
    use crate::core::defs::UtxoSet;
    let mut rng = Rng::from_env();
    for round in 0..500 {
        let mut utxo: UtxoSet = Default::default();
        let mut tx = Transaction::default();
        let n_in = 1 + rng.below(3); let n_out = 1 + rng.below(3);
        for i in 0..n_in { let mut s = Slip::default(); s.public_key = [1u8; 33]; s.amount = if rng.below(4) == 0 { 0 } else { 1 + rng.below(1000) }; s.block_id = 2; s.tx_ordinal = round; s.slip_index = i as u8; s.generate_utxoset_key(); if s.amount > 0 { utxo.insert(s.utxoset_key, true); } tx.from.push(s); }
        for i in 0..n_out { let mut s = Slip::default(); s.public_key = [2u8; 33]; s.amount = if rng.below(4) == 0 { 0 } else { 1 + rng.below(1000) }; s.block_id = 5; s.tx_ordinal = round; s.slip_index = i as u8; s.generate_utxoset_key(); tx.to.push(s); }
        let before = utxo.clone();
        tx.on_chain_reorganization(&mut utxo, true);
        for s in tx.from.iter() { if s.amount > 0 && utxo.get(&s.utxoset_key) == Some(&true) { witness(format!("round {}: an input is still spendable after winding the transaction that spends it", round)); } }
        for s in tx.to.iter() { if s.amount > 0 && utxo.get(&s.utxoset_key) != Some(&true) { witness(format!("round {}: an output is not spendable after winding the transaction that creates it", round)); } }
        tx.on_chain_reorganization(&mut utxo, false);
        let spendable = |u: &UtxoSet| { let mut v: Vec<_> = u.iter().filter(|(_, x)| **x).map(|(k, _)| *k).collect(); v.sort(); v };
        if spendable(&utxo) != spendable(&before) {
            witness(format!("round {}: transaction with inputs {:?} and outputs {:?}: after wind + unwind the spendable set has {} entries, before it had {} — unwinding did not give the spent inputs back (or left created outputs behind)",
                round, tx.from.iter().map(|s| s.amount).collect::<Vec<_>>(), tx.to.iter().map(|s| s.amount).collect::<Vec<_>>(), spendable(&utxo).len(), spendable(&before).len()));
        }
    }
}

/// C01: an output is not spent twice inside one transaction — a transaction naming the same value-carrying output twice
/// (its inputs would count double) is refused by Transaction::validate, which is what the pool and the verification
/// thread rely on
#[tokio::test]
#[serial_test::serial]
async fn duplicate_input_inside_a_transaction_is_refused() {
    use crate::core::consensus::wallet::Wallet;
    let (pk, sk) = crate::core::util::crypto::generate_keys();
    let wallet_lock = std::sync::Arc::new(tokio::sync::RwLock::new(Wallet::new(sk, pk)));
    let mut blockchain = Blockchain::new(wallet_lock, 1_000, 0, 60);
    for copies in 2..4usize {
        for lead_zero in 0..2usize {
            let mut tx = Transaction::default();
            for _ in 0..lead_zero { let mut z = Slip::default(); z.public_key = pk; tx.add_from_slip(z); }
            let mut input = Slip::default(); input.public_key = pk; input.amount = 500; input.block_id = 3; input.tx_ordinal = (copies * 2 + lead_zero) as u64; input.slip_index = 0;
            for _ in 0..copies { tx.add_from_slip(input.clone()); }
            let mut o = Slip::default(); o.public_key = pk; o.amount = 500 * copies as u64; tx.add_to_slip(o);
            tx.sign(&sk);
            tx.generate(&pk, 0, 8);
            blockchain.utxoset.insert(tx.from[lead_zero].utxoset_key, true);
            if tx.validate(&blockchain.utxoset, &blockchain, true) {
                witness(format!("a transaction that names the same unspent 500-nolan output {} times as input (behind {} zero-amount input(s)) and pays out {} is accepted by Transaction::validate: the output is counted {} times", copies, lead_zero, 500 * copies, copies));
            }
        }
    }
}

/// C01 / C02: the type field is chosen by the sender — typing a transaction as BlockStake must not exempt it from the
/// sender's signature, the ownership of the inputs and the rule that it pays out no more than it consumes
#[tokio::test]
#[serial_test::serial]
async fn staking_typed_transaction_gets_no_exemption() {
    use crate::core::consensus::wallet::Wallet;
    let (victim_pk, _victim_sk) = crate::core::util::crypto::generate_keys();
    let (attacker_pk, attacker_sk) = crate::core::util::crypto::generate_keys();
    let wallet_lock = std::sync::Arc::new(tokio::sync::RwLock::new(Wallet::new(attacker_sk, attacker_pk)));
    let mut blockchain = Blockchain::new(wallet_lock, 1_000, 0, 60);
    for payout in [400u64, 500, 1_000_000] {
        let mut tx = Transaction::default();
        tx.transaction_type = TransactionType::BlockStake;
        let mut input = Slip::default(); input.public_key = victim_pk; input.amount = 500; input.block_id = 3; input.tx_ordinal = payout % 97; input.slip_index = 0;
        tx.add_from_slip(input);
        let mut o = Slip::default(); o.public_key = attacker_pk; o.amount = payout; tx.add_to_slip(o);
        tx.sign(&attacker_sk);                  // not the owner of the input
        tx.generate(&attacker_pk, 0, 8);
        blockchain.utxoset.insert(tx.from[0].utxoset_key, true);
        if tx.validate(&blockchain.utxoset, &blockchain, true) {
            witness(format!("a BlockStake-typed transaction that spends somebody else's unspent 500-nolan output (signed by a key that does not own it) and pays {} to the signer is accepted by Transaction::validate", payout));
        }
    }
}

/// C09 ("a transaction that crosses the wire keeps its hash, its signature validity and its validity verdict"): what a node
/// judges after Transaction::generate is what it stores and sends on — received with whatever output numbering, a
/// transaction has the same hash and the same signature verdict on this node and on the next one that decodes this node's
/// re-encoding of it
#[test]
fn received_transaction_keeps_hash_and_signature_verdict_on_the_next_hop() {
    use crate::core::util::crypto::{generate_keys, sign, verify_signature};
    let mut rng = Rng::from_env();
    let (pk, sk) = generate_keys();
    for round in 0..600 {
        let mut tx = rand_tx(&mut rng, 4);
        tx.transaction_type = TransactionType::Normal;
        for s in tx.from.iter_mut() { s.public_key = pk; }
        let honest_numbering = rng.below(2) == 0;
        if honest_numbering { for (i, s) in tx.to.iter_mut().enumerate() { s.slip_index = i as u8; } }
        // signed by its sender over exactly the bytes it sends
        tx.signature = sign(&tx.serialize_for_signature(), &sk);
        let sent = tx.serialize_for_net();
        let mut first = Transaction::deserialize_from_net(&sent).unwrap();
        first.generate(&pk, 0, 0);
        let verdict_first = verify_signature(first.hash_for_signature.as_ref().unwrap(), &first.signature, &pk);
        let mut second = Transaction::deserialize_from_net(&first.serialize_for_net()).unwrap();
        second.generate(&pk, 0, 0);
        let verdict_second = verify_signature(second.hash_for_signature.as_ref().unwrap(), &second.signature, &pk);
        if first.hash_for_signature != second.hash_for_signature || verdict_first != verdict_second {
            witness(format!("round {}: a signed transaction with {} outputs numbered {:?} on the wire: the node that receives it computes hash {} (signature valid: {}), the node that receives that node's re-encoding computes hash {} (signature valid: {})",
                round, tx.to.len(), tx.to.iter().map(|s| s.slip_index).collect::<Vec<_>>(), hex::encode(&first.hash_for_signature.unwrap()[0..6]), verdict_first,
                hex::encode(&second.hash_for_signature.unwrap()[0..6]), verdict_second));
        }
        if honest_numbering && !verdict_first { witness(format!("round {}: a transaction signed over outputs numbered by position does not verify after generate()", round)); }
    }
}

/// C02: no transaction is accepted that pays out more than it consumes, for amount vectors near 2^63 / 2^64 too: two saturated sums compare equal
#[tokio::test]
#[serial_test::serial]
async fn saturated_sums_never_pass_for_equal() {
    #[allow(unused_imports)] use crate::core::consensus::slip::Slip;
    #[allow(unused_imports)] use crate::core::consensus::transaction::Transaction;
    use crate::core::defs::UtxoSet;
    use crate::core::util::crypto::generate_keys;
    use crate::core::util::test::test_manager::test::TestManager;

    let t = TestManager::default();
    let blockchain = t.blockchain_lock.read().await;
    let (public_key, private_key) = generate_keys();
    const HALF: u64 = 1 << 63;

    // the transaction spends the given two outputs of block 1 and creates three outputs of 2^63
    let build = |input_amounts: [u64; 2]| -> (Transaction, UtxoSet) {
        let mut utxoset: UtxoSet = Default::default();
        let mut tx = Transaction::default();
        for (ordinal, amount) in input_amounts.iter().enumerate() {
            let mut input = Slip::default();
            input.public_key = public_key;
            input.amount = *amount;
            input.block_id = 1;
            input.tx_ordinal = ordinal as u64;
            input.generate_utxoset_key();
            utxoset.insert(input.utxoset_key, true);
            tx.add_from_slip(input);
        }
        for _ in 0..3 {
            let mut output = Slip::default();
            output.public_key = public_key;
            output.amount = HALF;
            tx.add_to_slip(output);
        }
        tx.sign(&private_key);
        tx.generate(&public_key, 0, 2);
        (tx, utxoset)
    };

    // control : inputs worth 2^64 - 2 in all, outputs worth 3 * 2^63 : refused
    let (control, utxoset) = build([HALF, HALF - 2]);
    assert_eq!(control.total_in, u64::MAX - 1);
    assert!(!control.validate(&utxoset, &blockchain, true));

    // inputs worth 2^64 - 1 in all (a supply that still fits 64 bits), the same outputs
    let (tx, utxoset) = build([HALF, HALF - 1]);
    let consumed: u128 = tx.from.iter().map(|slip| slip.amount as u128).sum();
    let paid_out: u128 = tx.to.iter().map(|slip| slip.amount as u128).sum();
    assert_eq!(consumed, u64::MAX as u128);
    assert_eq!(paid_out, 3 * (HALF as u128));
    let accepted = tx.validate(&utxoset, &blockchain, true);
    if !(!accepted || paid_out <= consumed) { witness(format!("Transaction::validate accepted a transaction that consumes {} nolan and pays out {} nolan: the output sum saturates at 2^64 - 1 (total_out {}), the input sum is 2^64 - 1 as well (total_in {}), so total_out > total_in is false and {} nolan are created", consumed, paid_out, tx.total_out, tx.total_in, paid_out - consumed)); }
}
