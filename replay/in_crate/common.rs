// shared by every in-crate replay module (include!d): deterministic PRNG seeded from VERIF_SEED
#[allow(dead_code)]
pub struct Rng(pub u64);
#[allow(dead_code)]
impl Rng {
    pub fn from_env() -> Rng {
        let s = std::env::var("VERIF_SEED").ok().and_then(|x| x.parse::<u64>().ok()).unwrap_or(0);
        Rng(s.wrapping_mul(0x9E3779B97F4A7C15) ^ 0xD1B54A32D192ED03)
    }
    pub fn next(&mut self) -> u64 {
        let mut x = self.0;
        x ^= x << 13;
        x ^= x >> 7;
        x ^= x << 17;
        self.0 = x;
        x
    }
    pub fn below(&mut self, n: u64) -> u64 {
        if n == 0 { 0 } else { self.next() % n }
    }
    pub fn bytes(&mut self, n: usize) -> Vec<u8> {
        (0..n).map(|_| self.next() as u8).collect()
    }
    pub fn arr<const N: usize>(&mut self) -> [u8; N] {
        let mut a = [0u8; N];
        for x in a.iter_mut() { *x = self.next() as u8; }
        a
    }
    /// small-universe hash: one of `k` distinct hashes
    pub fn small_hash(&mut self, k: u64) -> [u8; 32] {
        [self.below(k) as u8 + 1; 32]
    }
    /// u64 biased toward boundary values
    pub fn edge_u64(&mut self) -> u64 {
        match self.below(8) {
            0 => 0,
            1 => 1,
            2 => u64::MAX,
            3 => 1u64 << 63,
            4 => (1u64 << 63) - 1,
            5 => self.below(1000),
            _ => self.next(),
        }
    }
}
#[allow(dead_code)]
pub fn witness(s: String) -> ! {
    println!("WITNESS: {}", s);
    panic!("verif replay: property clause violated on the real code: {}", s);
}
