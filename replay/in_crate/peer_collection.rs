// Replay / extraction-validation module for peer_collection.rs (compiled only under --cfg saito_verif in the test build)
#[allow(unused_imports)]
use super::*;
include!("/verif/replay/in_crate/common.rs");
use crate::core::consensus::peers::peer::{Peer, PeerStatus};

/// C17 (last clause): when a connection authenticates under a key the node already knows, only a peer object that
/// carries that key and is NOT connected may be taken out of the table; connected peers — in particular an
/// authenticated peer with the same key — stay where they are, and other keys keep their by-key entry
#[test]
fn reconnection_never_removes_a_connected_peer() {
    let mut rng = Rng::from_env();
    for round in 0..2000 {
        let mut pc = PeerCollection::default();
        let keys: Vec<SaitoPublicKey> = (1..4u8).map(|k| [k; 33]).collect();
        let n = rng.below(6);
        let mut desc = vec![];
        for i in 1..=n {
            let mut p = Peer::new(i);
            let k = rng.below(4);
            if k < 3 { p.public_key = Some(keys[k as usize]); }
            p.peer_status = match rng.below(3) { 0 => PeerStatus::Connected, 1 => PeerStatus::Disconnected(0, 0), _ => PeerStatus::Connecting };
            if let Some(key) = p.public_key { if rng.below(2) == 0 { pc.address_to_peers.insert(key, i); } }
            desc.push((i, p.public_key.map(|k| k[0]), matches!(p.peer_status, PeerStatus::Connected)));
            pc.index_to_peers.insert(i, p);
        }
        let key = keys[rng.below(3) as usize];
        let before: Vec<(u64, Option<SaitoPublicKey>, bool)> = pc.index_to_peers.iter().map(|(i, p)| (*i, p.public_key, matches!(p.peer_status, PeerStatus::Connected))).collect();
        let by_key_before = pc.address_to_peers.clone();
        let removed = pc.remove_reconnected_peer(&key);
        let what = format!("round {}: peers (index, key, connected) {:?}, handshake completed under key {}", round, desc, key[0]);
        for (i, _k, connected) in before.iter() {
            if *connected && !pc.index_to_peers.contains_key(i) { witness(format!("a CONNECTED peer (index {}) was removed from the table: {}", i, what)); }
        }
        match removed {
            Some(p) => {
                if p.public_key != Some(key) || matches!(p.peer_status, PeerStatus::Connected) { witness(format!("removed peer {} does not carry the key or is connected: {}", p.index, what)); }
                if pc.index_to_peers.len() + 1 != before.len() { witness(format!("more than one peer removed: {}", what)); }
            }
            None => { if pc.index_to_peers.len() != before.len() { witness(format!("nothing reported as removed but the table shrank: {}", what)); } }
        }
        for (k, v) in by_key_before.iter() { if *k != key && pc.address_to_peers.get(k) != Some(v) { witness(format!("the by-key entry of another key changed: {}", what)); } }
    }
}

// ---------------------------------------------------------------------------------------------------------------------
// network-level twins: the real Network / Peer / PeerCollection code between honest nodes and an attacker that holds no
// key and can only open connections and move observed messages around (it cannot forge signatures)
mod net {
    use super::*;
    use crate::core::consensus::blockchain::Blockchain;
    use crate::core::consensus::peers::peer_service::PeerService;
    use crate::core::consensus::wallet::Wallet;
    use crate::core::defs::{BlockId, SaitoHash};
    use crate::core::io::interface_io::{InterfaceEvent, InterfaceIO};
    use crate::core::io::network::Network;
    use crate::core::msg::handshake::{HandshakeChallenge, HandshakeResponse};
    use crate::core::msg::message::Message;
    use crate::core::process::keep_time::{KeepTime, Timer};
    use crate::core::process::version::Version;
    use crate::core::util::configuration::{BlockchainConfig, Configuration, ConsensusConfig, PeerConfig, Server};
    use crate::core::util::crypto::generate_keys;
    use crate::core::util::serialize::Serialize;
    use async_trait::async_trait;
    use std::io::{Error, ErrorKind};
    use std::sync::{Arc, Mutex};
    use tokio::sync::RwLock;

    /// IO boundary double: records what the node sends and which connections it drops
    #[derive(Clone, Debug, Default)]
    pub struct WireTap { pub sent: Arc<Mutex<Vec<(u64, Vec<u8>)>>>, pub dropped: Arc<Mutex<Vec<u64>>> }
    #[async_trait]
    impl InterfaceIO for WireTap {
        async fn send_message(&self, peer_index: u64, buffer: &[u8]) -> Result<(), Error> { self.sent.lock().unwrap().push((peer_index, buffer.to_vec())); Ok(()) }
        async fn send_message_to_all(&self, _b: &[u8], _e: Vec<u64>) -> Result<(), Error> { Ok(()) }
        async fn connect_to_peer(&mut self, _u: String, _p: PeerIndex) -> Result<(), Error> { Ok(()) }
        async fn disconnect_from_peer(&self, peer_index: u64) -> Result<(), Error> { self.dropped.lock().unwrap().push(peer_index); Ok(()) }
        async fn fetch_block_from_peer(&self, _h: SaitoHash, _p: u64, _u: &str, _b: BlockId) -> Result<(), Error> { Ok(()) }
        async fn write_value(&self, _k: &str, _v: &[u8]) -> Result<(), Error> { Ok(()) }
        async fn append_value(&mut self, _k: &str, _v: &[u8]) -> Result<(), Error> { Ok(()) }
        async fn flush_data(&mut self, _k: &str) -> Result<(), Error> { Ok(()) }
        async fn read_value(&self, _k: &str) -> Result<Vec<u8>, Error> { Err(Error::from(ErrorKind::NotFound)) }
        async fn load_block_file_list(&self) -> Result<Vec<String>, Error> { Ok(vec![]) }
        async fn is_existing_file(&self, _k: &str) -> bool { false }
        async fn remove_value(&self, _k: &str) -> Result<(), Error> { Ok(()) }
        fn get_block_dir(&self) -> String { "./data/blocks/".to_string() }
        fn get_checkpoint_dir(&self) -> String { "./data/checkpoints/".to_string() }
        fn ensure_block_directory_exists(&self, _d: &str) -> Result<(), Error> { Ok(()) }
        async fn process_api_call(&self, _b: Vec<u8>, _m: u32, _p: PeerIndex) {}
        async fn process_api_success(&self, _b: Vec<u8>, _m: u32, _p: PeerIndex) {}
        async fn process_api_error(&self, _b: Vec<u8>, _m: u32, _p: PeerIndex) {}
        fn send_interface_event(&self, _e: InterfaceEvent) {}
        async fn save_wallet(&self, _w: &mut Wallet) -> Result<(), Error> { Ok(()) }
        async fn load_wallet(&self, _w: &mut Wallet) -> Result<(), Error> { Ok(()) }
        fn get_my_services(&self) -> Vec<PeerService> { vec![] }
    }
    impl WireTap {
        /// the handshake messages the node has sent on one connection, oldest first
        pub fn handshake_messages_to(&self, peer_index: u64) -> Vec<Message> {
            self.sent.lock().unwrap().iter().filter(|(i, _)| *i == peer_index)
                .filter_map(|(_, b)| match Message::deserialize(b.clone()) { Ok(m @ Message::HandshakeChallenge(_)) | Ok(m @ Message::HandshakeResponse(_)) => Some(m), _ => None }).collect()
        }
        pub fn last_challenge_to(&self, peer_index: u64) -> Option<HandshakeChallenge> {
            self.handshake_messages_to(peer_index).into_iter().rev().find_map(|m| if let Message::HandshakeChallenge(c) = m { Some(c) } else { None })
        }
        pub fn last_response_to(&self, peer_index: u64) -> Option<HandshakeResponse> {
            self.handshake_messages_to(peer_index).into_iter().rev().find_map(|m| if let Message::HandshakeResponse(r) = m { Some(r) } else { None })
        }
    }
    #[derive(Debug)]
    struct FullNodeConfig { peers: Vec<PeerConfig>, blockchain: BlockchainConfig }
    impl Configuration for FullNodeConfig {
        fn get_server_configs(&self) -> Option<&Server> { None }
        fn get_peer_configs(&self) -> &Vec<PeerConfig> { &self.peers }
        fn get_blockchain_configs(&self) -> &BlockchainConfig { &self.blockchain }
        fn get_block_fetch_url(&self) -> String { "http://node.example:12101".to_string() }
        fn is_spv_mode(&self) -> bool { false }
        fn is_browser(&self) -> bool { false }
        fn replace(&mut self, _c: &dyn Configuration) {}
        fn get_consensus_config(&self) -> Option<&ConsensusConfig> { None }
    }
    struct Clock {}
    impl KeepTime for Clock { fn get_timestamp_in_ms(&self) -> Timestamp { 1_700_000_000_000 } }

    pub struct Node {
        pub network: Network, pub tap: WireTap, pub wallet_lock: Arc<RwLock<Wallet>>, pub config_lock: Arc<RwLock<dyn Configuration + Send + Sync>>,
        pub blockchain_lock: Arc<RwLock<Blockchain>>, pub peer_lock: Arc<RwLock<PeerCollection>>, pub key: SaitoPublicKey,
    }
    impl Node {
        pub async fn new(static_peers: Vec<PeerConfig>) -> Node {
            let keys = generate_keys();
            let wallet_lock = Arc::new(RwLock::new(Wallet::new(keys.1, keys.0)));
            { let mut w = wallet_lock.write().await; if !w.core_version.is_set() { w.core_version = Version::new(0, 2, 0); } }
            let key = wallet_lock.read().await.public_key;
            let config_lock: Arc<RwLock<dyn Configuration + Send + Sync>> = Arc::new(RwLock::new(FullNodeConfig { peers: static_peers, blockchain: BlockchainConfig::default() }));
            let blockchain_lock = Arc::new(RwLock::new(Blockchain::new(wallet_lock.clone(), 100, 0, 60)));
            let peer_lock = Arc::new(RwLock::new(PeerCollection::default()));
            let tap = WireTap::default();
            let mut network = Network::new(Box::new(tap.clone()), peer_lock.clone(), wallet_lock.clone(), config_lock.clone(),
                Timer { time_reader: Arc::new(Clock {}), hasten_multiplier: 1, start_time: 0 });
            network.initialize_static_peers(config_lock.clone()).await;
            Node { network, tap, wallet_lock, config_lock, blockchain_lock, peer_lock, key }
        }
        pub async fn open(&mut self, conn: PeerIndex) { self.network.handle_new_peer(conn, None).await; }
        pub async fn challenge(&mut self, conn: PeerIndex, c: HandshakeChallenge) {
            self.network.handle_handshake_challenge(conn, c, self.wallet_lock.clone(), self.config_lock.clone()).await;
        }
        pub async fn response(&mut self, conn: PeerIndex, r: HandshakeResponse) {
            self.network.handle_handshake_response(conn, r, self.wallet_lock.clone(), self.blockchain_lock.clone(), self.config_lock.clone()).await;
        }
        pub async fn drop_connection(&mut self, conn: PeerIndex) { self.network.handle_peer_disconnect(conn, crate::core::io::network::PeerDisconnectType::InternalDisconnect).await; }
        pub async fn connected_under(&self, conn: PeerIndex) -> Option<SaitoPublicKey> {
            let peers = self.peer_lock.read().await;
            peers.find_peer_by_index(conn).and_then(|p| if matches!(p.peer_status, PeerStatus::Connected) { p.public_key } else { None })
        }
        pub async fn entry_of(&self, key: &SaitoPublicKey) -> Option<PeerIndex> { self.peer_lock.read().await.address_to_peers.get(key).copied() }
    }
    fn static_peer() -> PeerConfig { PeerConfig { host: "node-a.example".to_string(), port: 12101, protocol: "http".to_string(), synctype: "full".to_string() } }

    /// the honest three-message handshake: B dialled A (connection `at_a` at A, static peer `at_b` at B)
    pub async fn honest_handshake(a: &mut Node, at_a: PeerIndex, b: &mut Node, at_b: PeerIndex) {
        a.open(at_a).await;
        b.open(at_b).await;
        let c = a.tap.last_challenge_to(at_a).expect("A challenges an incoming connection");
        b.challenge(at_b, c).await;
        let r = b.tap.last_response_to(at_b).expect("B answers the challenge");
        a.response(at_a, r).await;
        let r2 = a.tap.last_response_to(at_a).expect("A sends the second response");
        b.response(at_b, r2).await;
    }

    /// C17 ("reflected"): the node's own signature, obtained by sending the node its own challenge on a second connection,
    /// never authenticates a connection — under any key
    #[tokio::test]
    #[serial_test::serial]
    async fn reflected_response_never_connects() {
        let mut a = Node::new(vec![]).await;
        let (x, y) = (11u64, 12u64);
        a.open(x).await;
        a.open(y).await;
        let c = a.tap.last_challenge_to(x).expect("A challenges X");
        a.challenge(y, HandshakeChallenge { challenge: c.challenge }).await;
        let reflected = a.tap.last_response_to(y).expect("A answers on Y");
        a.response(x, reflected).await;
        if let Some(k) = a.connected_under(x).await {
            witness(format!("a party holding no key opened connections X={} and Y={}, sent the node the challenge it had issued on X back on Y, and replayed the node's own answer on X: X is now Connected under key {} (the node's own key: {}); by-key entry of that key = {:?}",
                x, y, hex::encode(k), k == a.key, a.entry_of(&k).await));
        }
        if a.entry_of(&a.key).await.is_some() { witness("the node's own key has an entry in its peer table after a reflected response".to_string()); }
    }

    /// C17 (peer table): after a peer drops and authenticates again on a new connection, the by-key index answers with the
    /// new connection
    #[tokio::test]
    #[serial_test::serial]
    async fn reconnected_peer_is_found_by_its_key() {
        let mut a = Node::new(vec![]).await;
        let mut b = Node::new(vec![static_peer()]).await;
        honest_handshake(&mut a, 1, &mut b, 1).await;
        assert_eq!(a.connected_under(1).await, Some(b.key), "harness: the honest handshake authenticates B at A");
        assert_eq!(a.entry_of(&b.key).await, Some(1));
        a.drop_connection(1).await;
        b.drop_connection(1).await;
        // B dials again: a new connection index at A, the same static peer object at B
        honest_handshake(&mut a, 2, &mut b, 1).await;
        let conn = a.connected_under(2).await;
        let entry = a.entry_of(&b.key).await;
        if conn == Some(b.key) && entry != Some(2) {
            witness(format!("peer B authenticated at A on connection 1, dropped, and authenticated again on connection 2: connection 2 is Connected under B's key but the by-key index answers {:?} for it (find_peer_by_address finds {})",
                entry, if a.peer_lock.read().await.find_peer_by_address(&b.key).is_some() { "a peer" } else { "nothing" }));
        }
        assert_eq!(conn, Some(b.key), "harness: the second honest handshake authenticates B at A");
    }

    /// C17 (last clause): a response honest B produced on another connection, carried over by a party holding no key,
    /// must not take the by-key entry away from B's authenticated connection
    #[tokio::test]
    #[serial_test::serial]
    async fn relayed_response_leaves_the_authenticated_peer_its_key_entry() {
        let mut a = Node::new(vec![]).await;
        let mut b = Node::new(vec![static_peer()]).await;
        honest_handshake(&mut a, 1, &mut b, 1).await;
        assert_eq!(a.connected_under(1).await, Some(b.key), "harness: the honest handshake authenticates B at A");
        let (at_a, at_b) = (2u64, 7u64);
        a.open(at_a).await;
        b.open(at_b).await;
        let c = a.tap.last_challenge_to(at_a).expect("A challenges the new connection");
        b.challenge(at_b, HandshakeChallenge { challenge: c.challenge }).await;
        let lifted = b.tap.last_response_to(at_b).expect("B answers");
        a.response(at_a, lifted).await;
        let entry = a.entry_of(&b.key).await;
        if entry != Some(1) {
            witness(format!("B is authenticated at A on connection 1; a party holding no key opened connection {} to A and connection {} to B, forwarded A's challenge to B and carried B's answer back: the by-key entry of B's key at A moved from connection 1 to {:?} (connection {} is Connected under {:?})",
                at_a, at_b, entry, at_a, a.connected_under(at_a).await.map(hex::encode)));
        }
    }

    /// C17, bounded stand-in: random schedules of an attacker that opens connections to two honest nodes and moves every
    /// handshake message it has seen to any connection, as a challenge or as a response. Checked after every step: no
    /// connection is authenticated under the key of the node it ends at; a connection is authenticated under an honest
    /// node's key only if that node signed the challenge pending on it (signatures are not forged); a completed handshake
    /// is answered by the by-key index with a connection authenticated under that key
    #[tokio::test]
    #[serial_test::serial]
    async fn attacker_schedules_never_authenticate_without_a_signature_by_the_key() {
        let mut rng = Rng::from_env();
        let rounds = std::env::var("VERIF_ROUNDS").ok().and_then(|x| x.parse::<u64>().ok()).unwrap_or(400);
        for round in 0..rounds {
            let mut nodes = vec![Node::new(vec![]).await, Node::new(vec![]).await];
            let mut conns: Vec<Vec<PeerIndex>> = vec![vec![], vec![]];
            let mut seen_challenges: Vec<SaitoHash> = vec![];
            let mut seen_responses: Vec<Vec<u8>> = vec![];
            let mut log: Vec<String> = vec![];
            for step in 0..(6 + rng.below(14)) {
                let n = rng.below(2) as usize;
                match rng.below(4) {
                    0 => {
                        let c = 10 + conns[n].len() as u64;
                        nodes[n].open(c).await;
                        conns[n].push(c);
                        log.push(format!("open {} at node {}", c, n));
                    }
                    1 if !conns[n].is_empty() && !seen_challenges.is_empty() => {
                        let c = conns[n][rng.below(conns[n].len() as u64) as usize];
                        let ch = seen_challenges[rng.below(seen_challenges.len() as u64) as usize];
                        nodes[n].challenge(c, HandshakeChallenge { challenge: ch }).await;
                        log.push(format!("challenge {} on {} at node {}", hex::encode(&ch[0..4]), c, n));
                    }
                    2 if !conns[n].is_empty() && !seen_responses.is_empty() => {
                        let c = conns[n][rng.below(conns[n].len() as u64) as usize];
                        let r = HandshakeResponse::deserialize(&seen_responses[rng.below(seen_responses.len() as u64) as usize]).unwrap();
                        log.push(format!("response signed by node {} on {} at node {}", if r.public_key == nodes[0].key { 0 } else { 1 }, c, n));
                        nodes[n].response(c, r).await;
                    }
                    _ if !conns[n].is_empty() => {
                        let c = conns[n][rng.below(conns[n].len() as u64) as usize];
                        nodes[n].drop_connection(c).await;
                        log.push(format!("drop {} at node {}", c, n));
                    }
                    _ => {}
                }
                // the attacker reads everything the nodes have sent so far
                seen_challenges.clear();
                seen_responses.clear();
                for m in 0..2 { for c in conns[m].iter() { for msg in nodes[m].tap.handshake_messages_to(*c) { match msg {
                    Message::HandshakeChallenge(ch) => seen_challenges.push(ch.challenge),
                    Message::HandshakeResponse(r) => { seen_challenges.push(r.challenge); seen_responses.push(r.serialize()); }
                    _ => {}
                } } } }
                for m in 0..2 {
                    for c in conns[m].iter() {
                        if let Some(k) = nodes[m].connected_under(*c).await {
                            if k == nodes[m].key { witness(format!("round {} step {}: connection {} at node {} is authenticated under that node's OWN key; schedule: {:?}", round, step, c, m, log)); }
                            let peers = nodes[m].peer_lock.read().await;
                            let p = peers.find_peer_by_index(*c).unwrap();
                            if p.challenge_for_peer.is_none() {
                                match peers.find_peer_by_address(&k) {
                                    Some(q) if q.public_key == Some(k) => {}
                                    other => witness(format!("round {} step {}: connection {} at node {} completed a handshake under a key the by-key index answers with {:?}; schedule: {:?}", round, step, c, m, other.map(|q| q.index), log)),
                                }
                            }
                        }
                    }
                }
            }
        }
    }
}

/// C17: a challenge is accepted at most once — also when the node could not send its own answer after verifying the response (auditor's scenario, round 5; its own recording InterfaceIO)
#[allow(dead_code, unused)]
mod audit_f17_twice {
    #[allow(unused_imports)] use crate::core::io::network::*;
    #[allow(unused_imports)] use crate::core::util::configuration::Configuration;
    #[allow(unused_imports)] use std::io::{Error, ErrorKind};
    #[allow(unused_imports)] use std::sync::Arc;
    #[allow(unused_imports)] use log::{debug, error, info, trace, warn};
    #[allow(unused_imports)] use tokio::sync::RwLock;
    #[allow(unused_imports)] use crate::core::consensus::block::Block;
    #[allow(unused_imports)] use crate::core::consensus::blockchain::Blockchain;
    #[allow(unused_imports)] use crate::core::consensus::mempool::Mempool;
    #[allow(unused_imports)] use crate::core::consensus::peers::peer::{Peer, PeerStatus};
    #[allow(unused_imports)] use crate::core::consensus::peers::peer_collection::PeerCollection;
    #[allow(unused_imports)] use crate::core::consensus::transaction::{Transaction, TransactionType};
    #[allow(unused_imports)] use crate::core::consensus::wallet::Wallet;
    #[allow(unused_imports)] use crate::core::defs::{BlockId, PeerIndex, PrintForLog, SaitoHash, SaitoPublicKey, Timestamp};
    #[allow(unused_imports)] use crate::core::io::interface_io::{InterfaceEvent, InterfaceIO};
    #[allow(unused_imports)] use crate::core::msg::block_request::BlockchainRequest;
    #[allow(unused_imports)] use crate::core::msg::handshake::{HandshakeChallenge, HandshakeResponse};
    #[allow(unused_imports)] use crate::core::msg::message::Message;
    #[allow(unused_imports)] use crate::core::process::keep_time::Timer;
    #[allow(unused_imports)] use crate::core::process::version::Version;
    use crate::core::util::crypto::generate_keys;
    use crate::core::util::test::node_tester::test::{TestConfiguration, TestTimeKeeper};
    use std::sync::atomic::{AtomicBool, Ordering as AtomicOrdering};
    use std::sync::Mutex;

    /// io layer of one node under test: records what the node sends and whom it disconnects, can fail sends
    #[derive(Clone, Debug, Default)]
    struct AuditIo {
        sent: Arc<Mutex<Vec<(u64, Vec<u8>)>>>,
        disconnected: Arc<Mutex<Vec<u64>>>,
        fail_sends: Arc<AtomicBool>,
        events: Arc<Mutex<Vec<String>>>,
    }

    #[async_trait::async_trait]
    impl InterfaceIO for AuditIo {
        async fn send_message(&self, peer_index: u64, buffer: &[u8]) -> Result<(), Error> {
            if self.fail_sends.load(AtomicOrdering::SeqCst) {
                return Err(Error::from(ErrorKind::BrokenPipe));
            }
            self.sent.lock().unwrap().push((peer_index, buffer.to_vec()));
            Ok(())
        }
        async fn send_message_to_all(&self, _b: &[u8], _e: Vec<u64>) -> Result<(), Error> {
            Ok(())
        }
        async fn connect_to_peer(&mut self, _url: String, _p: PeerIndex) -> Result<(), Error> {
            Ok(())
        }
        async fn disconnect_from_peer(&self, peer_index: u64) -> Result<(), Error> {
            self.disconnected.lock().unwrap().push(peer_index);
            Ok(())
        }
        async fn fetch_block_from_peer(
            &self,
            _h: SaitoHash,
            _p: u64,
            _u: &str,
            _i: BlockId,
        ) -> Result<(), Error> {
            Ok(())
        }
        async fn write_value(&self, _k: &str, _v: &[u8]) -> Result<(), Error> {
            Ok(())
        }
        async fn append_value(&mut self, _k: &str, _v: &[u8]) -> Result<(), Error> {
            Ok(())
        }
        async fn flush_data(&mut self, _k: &str) -> Result<(), Error> {
            Ok(())
        }
        async fn read_value(&self, _k: &str) -> Result<Vec<u8>, Error> {
            Err(Error::from(ErrorKind::NotFound))
        }
        async fn load_block_file_list(&self) -> Result<Vec<String>, Error> {
            Ok(vec![])
        }
        async fn is_existing_file(&self, _k: &str) -> bool {
            false
        }
        async fn remove_value(&self, _k: &str) -> Result<(), Error> {
            Ok(())
        }
        fn get_block_dir(&self) -> String {
            "./data/blocks/".to_string()
        }
        fn get_checkpoint_dir(&self) -> String {
            "./data/checkpoints/".to_string()
        }
        fn ensure_block_directory_exists(&self, _d: &str) -> Result<(), Error> {
            Ok(())
        }
        async fn process_api_call(&self, _b: Vec<u8>, _m: u32, _p: PeerIndex) {}
        async fn process_api_success(&self, _b: Vec<u8>, _m: u32, _p: PeerIndex) {}
        async fn process_api_error(&self, _b: Vec<u8>, _m: u32, _p: PeerIndex) {}
        fn send_interface_event(&self, event: InterfaceEvent) {
            let text = match event {
                InterfaceEvent::PeerHandshakeComplete(index) => format!("PeerHandshakeComplete({})", index),
                InterfaceEvent::PeerConnected(index) => format!("PeerConnected({})", index),
                InterfaceEvent::PeerConnectionDropped(index, _) => format!("PeerConnectionDropped({})", index),
                _ => "other".to_string(),
            };
            self.events.lock().unwrap().push(text);
        }
        async fn save_wallet(&self, _w: &mut Wallet) -> Result<(), Error> {
            Ok(())
        }
        async fn load_wallet(&self, _w: &mut Wallet) -> Result<(), Error> {
            Ok(())
        }
        fn get_my_services(&self) -> Vec<crate::core::consensus::peers::peer_service::PeerService> {
            vec![]
        }
    }

    /// one honest node: the real Network over the recording io layer, with its own wallet key
    struct AuditNode {
        network: Network,
        io: AuditIo,
        wallet_lock: Arc<RwLock<Wallet>>,
        blockchain_lock: Arc<RwLock<Blockchain>>,
        config_lock: Arc<RwLock<dyn Configuration + Send + Sync>>,
        public_key: SaitoPublicKey,
    }

    fn audit_node() -> AuditNode {
        let keys = generate_keys();
        let wallet_lock = Arc::new(RwLock::new(Wallet::new(keys.1, keys.0)));
        let blockchain_lock = Arc::new(RwLock::new(Blockchain::new(wallet_lock.clone(), 100, 0, 60)));
        let config_lock: Arc<RwLock<dyn Configuration + Send + Sync>> =
            Arc::new(RwLock::new(TestConfiguration::default()));
        let io = AuditIo::default();
        let network = Network::new(
            Box::new(io.clone()),
            Arc::new(RwLock::new(PeerCollection::default())),
            wallet_lock.clone(),
            config_lock.clone(),
            Timer {
                time_reader: Arc::new(TestTimeKeeper {}),
                hasten_multiplier: 1,
                start_time: 0,
            },
        );
        AuditNode {
            network,
            io,
            wallet_lock,
            blockchain_lock,
            config_lock,
            public_key: keys.0,
        }
    }

    /// the oldest not yet taken message the node has sent on the connection `peer_index` (raw wire bytes)
    fn audit_take(node: &AuditNode, peer_index: u64) -> Vec<u8> {
        let mut sent = node.io.sent.lock().unwrap();
        let position = sent
            .iter()
            .position(|(index, _)| *index == peer_index)
            .expect("the node has sent nothing on this connection");
        sent.remove(position).1
    }

    /// hands wire bytes to the node as arriving on connection `peer_index`, the way RoutingThread dispatches them
    async fn audit_deliver(node: &mut AuditNode, peer_index: u64, buffer: Vec<u8>) {
        match Message::deserialize(buffer).expect("wire bytes parse") {
            Message::HandshakeChallenge(challenge) => {
                node.network
                    .handle_handshake_challenge(
                        peer_index,
                        challenge,
                        node.wallet_lock.clone(),
                        node.config_lock.clone(),
                    )
                    .await
            }
            Message::HandshakeResponse(response) => {
                node.network
                    .handle_handshake_response(
                        peer_index,
                        response,
                        node.wallet_lock.clone(),
                        node.blockchain_lock.clone(),
                        node.config_lock.clone(),
                    )
                    .await
            }
            _ => panic!("only handshake messages are delivered in this demo"),
        }
    }

    async fn audit_is_connected_under(node: &AuditNode, peer_index: u64, key: &SaitoPublicKey) -> bool {
        let peers = node.network.peer_lock.read().await;
        match peers.find_peer_by_index(peer_index) {
            Some(peer) => {
                matches!(peer.peer_status, PeerStatus::Connected) && peer.public_key == Some(*key)
            }
            None => false,
        }
    }

    async fn audit_entry_of(node: &AuditNode, key: &SaitoPublicKey) -> Option<u64> {
        node.network.peer_lock.read().await.address_to_peers.get(key).copied()
    }

    /// honest handshake: `client` dials `server`; connection index `client_index` at the client (a static peer there),
    /// `server_index` at the server (an incoming connection there). returns the client's first response as seen on the wire
    async fn audit_honest_handshake(
        client: &mut AuditNode,
        client_index: u64,
        server: &mut AuditNode,
        server_index: u64,
    ) -> Vec<u8> {
        {
            let mut peers = client.network.peer_lock.write().await;
            let mut peer = Peer::new(client_index);
            peer.static_peer_config = Some(crate::core::util::configuration::PeerConfig {
                host: "server".to_string(),
                port: 12101,
                protocol: "http".to_string(),
                synctype: "full".to_string(),
            });
            peers.index_to_peers.insert(client_index, peer);
        }
        client.network.handle_new_peer(client_index, None).await;
        server.network.handle_new_peer(server_index, None).await;
        let challenge = audit_take(server, server_index);
        audit_deliver(client, client_index, challenge).await;
        let first_response = audit_take(client, client_index);
        audit_deliver(server, server_index, first_response.clone()).await;
        let second_response = audit_take(server, server_index);
        audit_deliver(client, client_index, second_response).await;
        first_response
    }

    /// C17: "each challenge is accepted at most once". The outstanding challenge is cleared only at the very end
    /// of Peer::handle_handshake_response, after the send of the second response; when that send fails the function
    /// leaves early with the peer already marked Connected and the challenge still outstanding.
    #[tokio::test]
    async fn response_is_not_accepted_twice_after_a_failed_send() {
        use crate::core::util::crypto::sign;

        let mut a = audit_node();
        let (remote_key, remote_private_key) = generate_keys();

        a.network.handle_new_peer(2, None).await;
        let challenge = match Message::deserialize(audit_take(&a, 2)).unwrap() {
            Message::HandshakeChallenge(challenge) => challenge.challenge,
            _ => panic!("node A opens with a challenge"),
        };
        let core_version = a.wallet_lock.read().await.core_version;
        assert!(core_version.is_set());
        let response_bytes = Message::HandshakeResponse(HandshakeResponse {
            public_key: remote_key,
            signature: sign(&challenge, &remote_private_key),
            is_lite: false,
            block_fetch_url: "".to_string(),
            challenge: [7; 32],
            services: vec![],
            wallet_version: Default::default(),
            core_version,
        })
        .serialize();

        // control: without a fault the challenge is consumed by its first acceptance. another remote key answers
        // the challenge of connection 4 and the identical bytes are delivered twice: one PeerConnected(4), not two
        {
            let (control_key, control_private_key) = generate_keys();
            a.network.handle_new_peer(4, None).await;
            let control_challenge = match Message::deserialize(audit_take(&a, 4)).unwrap() {
                Message::HandshakeChallenge(challenge) => challenge.challenge,
                _ => panic!("node A opens with a challenge"),
            };
            let control_bytes = Message::HandshakeResponse(HandshakeResponse {
                public_key: control_key,
                signature: sign(&control_challenge, &control_private_key),
                is_lite: false,
                block_fetch_url: "".to_string(),
                challenge: [8; 32],
                services: vec![],
                wallet_version: Default::default(),
                core_version,
            })
            .serialize();
            audit_deliver(&mut a, 4, control_bytes.clone()).await;
            assert_eq!(audit_entry_of(&a, &control_key).await, Some(4));
            audit_deliver(&mut a, 4, control_bytes).await;
            let connected_events = a.io.events.lock().unwrap().iter().filter(|e| *e == "PeerConnected(4)").count();
            assert_eq!(connected_events, 1);
            a.io.disconnected.lock().unwrap().clear();
        }

        // first delivery: the answer is valid, but the connection breaks while node A sends its own response
        a.io.fail_sends.store(true, AtomicOrdering::SeqCst);
        audit_deliver(&mut a, 2, response_bytes.clone()).await;
        a.io.fail_sends.store(false, AtomicOrdering::SeqCst);
        // Network treated the handshake as failed: it dropped the connection and registered nothing
        assert_eq!(a.io.disconnected.lock().unwrap().as_slice(), &[2]);
        assert_eq!(audit_entry_of(&a, &remote_key).await, None);
        let (status_after_failure, outstanding_after_failure) = {
            let peers = a.network.peer_lock.read().await;
            let peer = peers.find_peer_by_index(2).unwrap();
            (peer.peer_status.clone(), peer.challenge_for_peer)
        };

        assert!(!a.io.events.lock().unwrap().iter().any(|e| e == "PeerConnected(2)"));

        // second delivery of the identical bytes (a replay: the remote side signs nothing new)
        audit_deliver(&mut a, 2, response_bytes).await;
        let entry = audit_entry_of(&a, &remote_key).await;
        let connected_now = a.io.events.lock().unwrap().iter().any(|e| e == "PeerConnected(2)");
        assert!(
            entry.is_none() && !connected_now,
            "the response to challenge {:?}.. was accepted a second time: after the first delivery was aborted (send \
             failed, Network disconnected peer 2, peer left with status {:?} and outstanding challenge {:?}) the \
             replay of the identical bytes registered address_to_peers[K] = {:?} and raised PeerConnected; a \
             challenge must be consumed by its first acceptance",
            &challenge[0..4],
            status_after_failure,
            outstanding_after_failure.map(|c| c[0..4].to_vec()),
            entry
        );
    }
}


/// C17: unsolicited responses never disturb an existing authenticated peer — not the one they arrive on either (auditor's scenario, round 5; its own recording InterfaceIO)
#[allow(dead_code, unused)]
mod audit_f17_unsolicited {
    #[allow(unused_imports)] use crate::core::io::network::*;
    #[allow(unused_imports)] use crate::core::util::configuration::Configuration;
    #[allow(unused_imports)] use std::io::{Error, ErrorKind};
    #[allow(unused_imports)] use std::sync::Arc;
    #[allow(unused_imports)] use log::{debug, error, info, trace, warn};
    #[allow(unused_imports)] use tokio::sync::RwLock;
    #[allow(unused_imports)] use crate::core::consensus::block::Block;
    #[allow(unused_imports)] use crate::core::consensus::blockchain::Blockchain;
    #[allow(unused_imports)] use crate::core::consensus::mempool::Mempool;
    #[allow(unused_imports)] use crate::core::consensus::peers::peer::{Peer, PeerStatus};
    #[allow(unused_imports)] use crate::core::consensus::peers::peer_collection::PeerCollection;
    #[allow(unused_imports)] use crate::core::consensus::transaction::{Transaction, TransactionType};
    #[allow(unused_imports)] use crate::core::consensus::wallet::Wallet;
    #[allow(unused_imports)] use crate::core::defs::{BlockId, PeerIndex, PrintForLog, SaitoHash, SaitoPublicKey, Timestamp};
    #[allow(unused_imports)] use crate::core::io::interface_io::{InterfaceEvent, InterfaceIO};
    #[allow(unused_imports)] use crate::core::msg::block_request::BlockchainRequest;
    #[allow(unused_imports)] use crate::core::msg::handshake::{HandshakeChallenge, HandshakeResponse};
    #[allow(unused_imports)] use crate::core::msg::message::Message;
    #[allow(unused_imports)] use crate::core::process::keep_time::Timer;
    #[allow(unused_imports)] use crate::core::process::version::Version;
    use crate::core::util::crypto::generate_keys;
    use crate::core::util::test::node_tester::test::{TestConfiguration, TestTimeKeeper};
    use std::sync::atomic::{AtomicBool, Ordering as AtomicOrdering};
    use std::sync::Mutex;

    /// io layer of one node under test: records what the node sends and whom it disconnects, can fail sends
    #[derive(Clone, Debug, Default)]
    struct AuditIo {
        sent: Arc<Mutex<Vec<(u64, Vec<u8>)>>>,
        disconnected: Arc<Mutex<Vec<u64>>>,
        fail_sends: Arc<AtomicBool>,
        events: Arc<Mutex<Vec<String>>>,
    }

    #[async_trait::async_trait]
    impl InterfaceIO for AuditIo {
        async fn send_message(&self, peer_index: u64, buffer: &[u8]) -> Result<(), Error> {
            if self.fail_sends.load(AtomicOrdering::SeqCst) {
                return Err(Error::from(ErrorKind::BrokenPipe));
            }
            self.sent.lock().unwrap().push((peer_index, buffer.to_vec()));
            Ok(())
        }
        async fn send_message_to_all(&self, _b: &[u8], _e: Vec<u64>) -> Result<(), Error> {
            Ok(())
        }
        async fn connect_to_peer(&mut self, _url: String, _p: PeerIndex) -> Result<(), Error> {
            Ok(())
        }
        async fn disconnect_from_peer(&self, peer_index: u64) -> Result<(), Error> {
            self.disconnected.lock().unwrap().push(peer_index);
            Ok(())
        }
        async fn fetch_block_from_peer(
            &self,
            _h: SaitoHash,
            _p: u64,
            _u: &str,
            _i: BlockId,
        ) -> Result<(), Error> {
            Ok(())
        }
        async fn write_value(&self, _k: &str, _v: &[u8]) -> Result<(), Error> {
            Ok(())
        }
        async fn append_value(&mut self, _k: &str, _v: &[u8]) -> Result<(), Error> {
            Ok(())
        }
        async fn flush_data(&mut self, _k: &str) -> Result<(), Error> {
            Ok(())
        }
        async fn read_value(&self, _k: &str) -> Result<Vec<u8>, Error> {
            Err(Error::from(ErrorKind::NotFound))
        }
        async fn load_block_file_list(&self) -> Result<Vec<String>, Error> {
            Ok(vec![])
        }
        async fn is_existing_file(&self, _k: &str) -> bool {
            false
        }
        async fn remove_value(&self, _k: &str) -> Result<(), Error> {
            Ok(())
        }
        fn get_block_dir(&self) -> String {
            "./data/blocks/".to_string()
        }
        fn get_checkpoint_dir(&self) -> String {
            "./data/checkpoints/".to_string()
        }
        fn ensure_block_directory_exists(&self, _d: &str) -> Result<(), Error> {
            Ok(())
        }
        async fn process_api_call(&self, _b: Vec<u8>, _m: u32, _p: PeerIndex) {}
        async fn process_api_success(&self, _b: Vec<u8>, _m: u32, _p: PeerIndex) {}
        async fn process_api_error(&self, _b: Vec<u8>, _m: u32, _p: PeerIndex) {}
        fn send_interface_event(&self, event: InterfaceEvent) {
            let text = match event {
                InterfaceEvent::PeerHandshakeComplete(index) => format!("PeerHandshakeComplete({})", index),
                InterfaceEvent::PeerConnected(index) => format!("PeerConnected({})", index),
                InterfaceEvent::PeerConnectionDropped(index, _) => format!("PeerConnectionDropped({})", index),
                _ => "other".to_string(),
            };
            self.events.lock().unwrap().push(text);
        }
        async fn save_wallet(&self, _w: &mut Wallet) -> Result<(), Error> {
            Ok(())
        }
        async fn load_wallet(&self, _w: &mut Wallet) -> Result<(), Error> {
            Ok(())
        }
        fn get_my_services(&self) -> Vec<crate::core::consensus::peers::peer_service::PeerService> {
            vec![]
        }
    }

    /// one honest node: the real Network over the recording io layer, with its own wallet key
    struct AuditNode {
        network: Network,
        io: AuditIo,
        wallet_lock: Arc<RwLock<Wallet>>,
        blockchain_lock: Arc<RwLock<Blockchain>>,
        config_lock: Arc<RwLock<dyn Configuration + Send + Sync>>,
        public_key: SaitoPublicKey,
    }

    fn audit_node() -> AuditNode {
        let keys = generate_keys();
        let wallet_lock = Arc::new(RwLock::new(Wallet::new(keys.1, keys.0)));
        let blockchain_lock = Arc::new(RwLock::new(Blockchain::new(wallet_lock.clone(), 100, 0, 60)));
        let config_lock: Arc<RwLock<dyn Configuration + Send + Sync>> =
            Arc::new(RwLock::new(TestConfiguration::default()));
        let io = AuditIo::default();
        let network = Network::new(
            Box::new(io.clone()),
            Arc::new(RwLock::new(PeerCollection::default())),
            wallet_lock.clone(),
            config_lock.clone(),
            Timer {
                time_reader: Arc::new(TestTimeKeeper {}),
                hasten_multiplier: 1,
                start_time: 0,
            },
        );
        AuditNode {
            network,
            io,
            wallet_lock,
            blockchain_lock,
            config_lock,
            public_key: keys.0,
        }
    }

    /// the oldest not yet taken message the node has sent on the connection `peer_index` (raw wire bytes)
    fn audit_take(node: &AuditNode, peer_index: u64) -> Vec<u8> {
        let mut sent = node.io.sent.lock().unwrap();
        let position = sent
            .iter()
            .position(|(index, _)| *index == peer_index)
            .expect("the node has sent nothing on this connection");
        sent.remove(position).1
    }

    /// hands wire bytes to the node as arriving on connection `peer_index`, the way RoutingThread dispatches them
    async fn audit_deliver(node: &mut AuditNode, peer_index: u64, buffer: Vec<u8>) {
        match Message::deserialize(buffer).expect("wire bytes parse") {
            Message::HandshakeChallenge(challenge) => {
                node.network
                    .handle_handshake_challenge(
                        peer_index,
                        challenge,
                        node.wallet_lock.clone(),
                        node.config_lock.clone(),
                    )
                    .await
            }
            Message::HandshakeResponse(response) => {
                node.network
                    .handle_handshake_response(
                        peer_index,
                        response,
                        node.wallet_lock.clone(),
                        node.blockchain_lock.clone(),
                        node.config_lock.clone(),
                    )
                    .await
            }
            _ => panic!("only handshake messages are delivered in this demo"),
        }
    }

    async fn audit_is_connected_under(node: &AuditNode, peer_index: u64, key: &SaitoPublicKey) -> bool {
        let peers = node.network.peer_lock.read().await;
        match peers.find_peer_by_index(peer_index) {
            Some(peer) => {
                matches!(peer.peer_status, PeerStatus::Connected) && peer.public_key == Some(*key)
            }
            None => false,
        }
    }

    async fn audit_entry_of(node: &AuditNode, key: &SaitoPublicKey) -> Option<u64> {
        node.network.peer_lock.read().await.address_to_peers.get(key).copied()
    }

    /// honest handshake: `client` dials `server`; connection index `client_index` at the client (a static peer there),
    /// `server_index` at the server (an incoming connection there). returns the client's first response as seen on the wire
    async fn audit_honest_handshake(
        client: &mut AuditNode,
        client_index: u64,
        server: &mut AuditNode,
        server_index: u64,
    ) -> Vec<u8> {
        {
            let mut peers = client.network.peer_lock.write().await;
            let mut peer = Peer::new(client_index);
            peer.static_peer_config = Some(crate::core::util::configuration::PeerConfig {
                host: "server".to_string(),
                port: 12101,
                protocol: "http".to_string(),
                synctype: "full".to_string(),
            });
            peers.index_to_peers.insert(client_index, peer);
        }
        client.network.handle_new_peer(client_index, None).await;
        server.network.handle_new_peer(server_index, None).await;
        let challenge = audit_take(server, server_index);
        audit_deliver(client, client_index, challenge).await;
        let first_response = audit_take(client, client_index);
        audit_deliver(server, server_index, first_response.clone()).await;
        let second_response = audit_take(server, server_index);
        audit_deliver(client, client_index, second_response).await;
        first_response
    }

    /// C17: "unsolicited responses ... never disturb an existing authenticated peer with the same key". Every refusal
    /// in Peer::handle_handshake_response calls mark_as_disconnected on the peer the message arrived for, also when
    /// that peer has completed its handshake and has no challenge outstanding.
    #[tokio::test]
    async fn replayed_response_leaves_the_authenticated_peer_alone() {
        let mut a = audit_node();
        let mut v = audit_node();

        let observed_first_response_of_v = audit_honest_handshake(&mut v, 1, &mut a, 1).await;
        assert!(audit_is_connected_under(&a, 1, &v.public_key).await);
        assert_eq!(audit_entry_of(&a, &v.public_key).await, Some(1));
        assert!(a.io.disconnected.lock().unwrap().is_empty());

        // control: replayed on a fresh connection 3 the old response is refused and the peer of V is left alone
        a.network.handle_new_peer(3, None).await;
        audit_deliver(&mut a, 3, observed_first_response_of_v.clone()).await;
        assert!(!audit_is_connected_under(&a, 3, &v.public_key).await);
        assert!(audit_is_connected_under(&a, 1, &v.public_key).await);

        // the same observed bytes replayed into the established connection 1 (no challenge is outstanding there)
        audit_deliver(&mut a, 1, observed_first_response_of_v).await;
        let still_connected = audit_is_connected_under(&a, 1, &v.public_key).await;
        let status = a.network.peer_lock.read().await.find_peer_by_index(1).unwrap().peer_status.clone();
        assert!(
            still_connected,
            "an unsolicited (replayed, already consumed) handshake response delivered on connection 1 turned the \
             authenticated peer of V from Connected into {:?} and made node A drop the connection (disconnect calls: \
             {:?}), while address_to_peers[V] still names peer {:?}: a response that is refused must not change the \
             state of the peer that is authenticated under that key",
            status,
            a.io.disconnected.lock().unwrap(),
            audit_entry_of(&a, &v.public_key).await
        );
    }
}

