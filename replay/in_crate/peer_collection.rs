// Replay / extraction-validation module for peer_collection.rs (compiled only under --cfg saito_verif in the test build)
#[allow(unused_imports)]
use super::*;
include!("/verif/replay/in_crate/common.rs");
use crate::core::consensus::peers::peer::{Peer, PeerStatus};

/// C17 (last clause): when a connection authenticates under a key the node already knows, only a peer object that
/// carries that key and is NOT connected may be taken out of the table; connected peers — in particular an
/// authenticated peer with the same key — stay where they are, and other keys keep their by-key entry
#[test]
fn reconnection_never_removes_a_connected_peer() {
    let mut rng = Rng::from_env();
    for round in 0..2000 {
        let mut pc = PeerCollection::default();
        let keys: Vec<SaitoPublicKey> = (1..4u8).map(|k| [k; 33]).collect();
        let n = rng.below(6);
        let mut desc = vec![];
        for i in 1..=n {
            let mut p = Peer::new(i);
            let k = rng.below(4);
            if k < 3 { p.public_key = Some(keys[k as usize]); }
            p.peer_status = match rng.below(3) { 0 => PeerStatus::Connected, 1 => PeerStatus::Disconnected(0, 0), _ => PeerStatus::Connecting };
            if let Some(key) = p.public_key { if rng.below(2) == 0 { pc.address_to_peers.insert(key, i); } }
            desc.push((i, p.public_key.map(|k| k[0]), matches!(p.peer_status, PeerStatus::Connected)));
            pc.index_to_peers.insert(i, p);
        }
        let key = keys[rng.below(3) as usize];
        let before: Vec<(u64, Option<SaitoPublicKey>, bool)> = pc.index_to_peers.iter().map(|(i, p)| (*i, p.public_key, matches!(p.peer_status, PeerStatus::Connected))).collect();
        let by_key_before = pc.address_to_peers.clone();
        let removed = pc.remove_reconnected_peer(&key);
        let what = format!("round {}: peers (index, key, connected) {:?}, handshake completed under key {}", round, desc, key[0]);
        for (i, _k, connected) in before.iter() {
            if *connected && !pc.index_to_peers.contains_key(i) { witness(format!("a CONNECTED peer (index {}) was removed from the table: {}", i, what)); }
        }
        match removed {
            Some(p) => {
                if p.public_key != Some(key) || matches!(p.peer_status, PeerStatus::Connected) { witness(format!("removed peer {} does not carry the key or is connected: {}", p.index, what)); }
                if pc.index_to_peers.len() + 1 != before.len() { witness(format!("more than one peer removed: {}", what)); }
            }
            None => { if pc.index_to_peers.len() != before.len() { witness(format!("nothing reported as removed but the table shrank: {}", what)); } }
        }
        for (k, v) in by_key_before.iter() { if *k != key && pc.address_to_peers.get(k) != Some(v) { witness(format!("the by-key entry of another key changed: {}", what)); } }
    }
}
