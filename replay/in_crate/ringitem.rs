// Replay / extraction-validation module for saito-core/src/core/consensus/ringitem.rs
// compiled only under --cfg saito_verif in the crate's test build.
use super::*;
include!("/verif/replay/in_crate/common.rs");

fn mk(rng: &mut Rng, n: usize) -> RingItem {
    let mut it = RingItem::default();
    for _ in 0..n {
        it.add_block(rng.below(3) + 1, rng.small_hash(3));
    }
    it.lc_pos = if n == 0 || rng.below(3) == 0 { None } else { Some(rng.below(n as u64) as usize) };
    it
}

fn lc_block(it: &RingItem) -> Option<(u64, SaitoHash)> {
    it.lc_pos.map(|p| (it.block_ids[p], it.block_hashes[p]))
}

/// executable twin of C03 RingItem::delete_block contract
#[test]
fn delete_block_contract() {
    let mut rng = Rng::from_env();
    for round in 0..20000 {
        let n = (round % 5) as usize;
        let mut it = mk(&mut rng, n);
        let ids = it.block_ids.clone();
        let hs = it.block_hashes.clone();
        let old_lc = lc_block(&it);
        let (bid, h) = (rng.below(3) + 1, rng.small_hash(3));
        it.delete_block(bid, h);
        let expect: Vec<(u64, SaitoHash)> = ids.iter().cloned().zip(hs.iter().cloned()).filter(|(i, x)| !(*i == bid && *x == h)).collect();
        let got: Vec<(u64, SaitoHash)> = it.block_ids.iter().cloned().zip(it.block_hashes.iter().cloned()).collect();
        let desc = format!("RingItem{{ids:{:?}, hashes(first byte):{:?}, lc_pos:{:?}}}.delete_block({}, [{};32])",
            ids, hs.iter().map(|x| x[0]).collect::<Vec<_>>(), old_lc.map(|_| ()), bid, h[0]);
        if it.block_hashes.len() != it.block_ids.len() { witness(format!("{} → lengths differ", desc)); }
        if got != expect { witness(format!("{} → entries {:?}", desc, got.iter().map(|x| (x.0, x.1[0])).collect::<Vec<_>>())); }
        if let Some(p) = it.lc_pos { if p >= it.block_ids.len() { witness(format!("{} → lc_pos {} out of range (len {})", desc, p, it.block_ids.len())); } }
        let new_lc = lc_block(&it);
        match old_lc {
            Some(b) if !(b.0 == bid && b.1 == h) => { if new_lc != Some(b) { witness(format!("{} → longest-chain marker moved from {:?} to {:?}", desc, (b.0, b.1[0]), new_lc.map(|x| (x.0, x.1[0])))); } }
            _ => { if new_lc.is_some() { witness(format!("{} → item had no surviving longest-chain entry but now marks {:?}", desc, new_lc.map(|x| (x.0, x.1[0])))); } }
        }
    }
}

#[test]
fn add_block_contract() {
    let mut rng = Rng::from_env();
    for round in 0..2000 {
        let mut it = mk(&mut rng, (round % 5) as usize);
        let ids = it.block_ids.clone();
        let old_lc = lc_block(&it);
        let (bid, h) = (rng.next(), rng.arr::<32>());
        it.add_block(bid, h);
        if it.block_ids.len() != ids.len() + 1 || *it.block_ids.last().unwrap() != bid || *it.block_hashes.last().unwrap() != h || it.block_ids[..ids.len()] != ids[..] || lc_block(&it) != old_lc {
            witness(format!("add_block({}, ..) on ids {:?} gave {:?}", bid, ids, it.block_ids));
        }
    }
}
