// Replay / extraction-validation module for golden_ticket.rs (compiled only under --cfg saito_verif in the test build)
#[allow(unused_imports)]
use super::*;
include!("/verif/replay/in_crate/common.rs");

/// C10: GoldenTicket::deserialize_from_net is fed `transaction.data` of peer-supplied golden-ticket transactions
#[test]
fn decoder_total() {
    let mut rng = Rng::from_env();
    for len in (0..200usize).chain([97usize].into_iter()) {
        let b = rng.bytes(len);
        let prev = std::panic::take_hook();
        std::panic::set_hook(Box::new(|_| {}));
        let b2 = b.clone();
        let r = std::panic::catch_unwind(move || GoldenTicket::deserialize_from_net(&b2));
        std::panic::set_hook(prev);
        match r {
            Err(_) => witness(format!("GoldenTicket::deserialize_from_net panicked on a {}-byte payload", len)),
            Ok(gt) => { if gt.serialize_for_net() != b { witness(format!("golden ticket round trip differs for {} bytes", len)); } }
        }
    }
}

#[test]
fn roundtrip() {
    let mut rng = Rng::from_env();
    for _ in 0..500 {
        let gt = GoldenTicket::new(rng.arr(), rng.arr(), rng.arr());
        let b = gt.serialize_for_net();
        let d = GoldenTicket::deserialize_from_net(&b);
        if b.len() != 97 || d.target != gt.target || d.random != gt.random || d.public_key != gt.public_key { witness("golden ticket does not round trip".to_string()); }
    }
}
