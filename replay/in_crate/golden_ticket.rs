// Replay / extraction-validation module for golden_ticket.rs (compiled only under --cfg saito_verif in the test build)
#[allow(unused_imports)]
use super::*;
include!("/verif/replay/in_crate/common.rs");

/// C10: GoldenTicket::deserialize_from_net insists on 97 bytes; it is fed `transaction.data` of peer-supplied
/// golden-ticket transactions. Whatever the payload size, the places that decode it return normally: the transaction is
/// invalid, the pool ignores it, a block carrying it is refused.
#[tokio::test]
#[serial_test::serial]
async fn callers_check_the_payload_size() {
    use crate::core::consensus::mempool::Mempool;
    use crate::core::consensus::transaction::{Transaction, TransactionType};
    use crate::core::consensus::blockchain::Blockchain;
    use crate::core::consensus::wallet::Wallet;
    use crate::core::consensus::slip::Slip;
    let (pk, sk) = crate::core::util::crypto::generate_keys();
    let wallet_lock = std::sync::Arc::new(tokio::sync::RwLock::new(Wallet::new(sk, pk)));
    let blockchain = Blockchain::new(wallet_lock.clone(), 1_000, 0, 60);
    let mut rng = Rng::from_env();
    for len in (0..200usize).chain([97usize].into_iter()) {
        let mut tx = Transaction::default();
        tx.transaction_type = TransactionType::GoldenTicket;
        let mut i = Slip::default(); i.public_key = pk; i.amount = 0; tx.add_from_slip(i);
        let mut o = Slip::default(); o.public_key = pk; o.amount = 0; tx.add_to_slip(o);
        tx.data = rng.bytes(len);
        tx.sign(&sk);
        tx.generate(&pk, 0, 0);
        let accepted = tx.validate(&blockchain.utxoset, &blockchain, true);
        if accepted && len != 97 { witness(format!("a golden-ticket transaction with a {}-byte payload is accepted by Transaction::validate", len)); }
        let mut mempool = Mempool::new(wallet_lock.clone());
        let t2 = tx.clone();
        let r = futures::FutureExt::catch_unwind(std::panic::AssertUnwindSafe(async { mempool.add_golden_ticket(t2).await; mempool.delete_transactions(&vec![tx.clone()]); })).await;
        if r.is_err() { witness(format!("the transaction pool panicked on a golden-ticket transaction with a {}-byte payload", len)); }
    }
}

#[test]
fn roundtrip() {
    let mut rng = Rng::from_env();
    for _ in 0..500 {
        let gt = GoldenTicket::new(rng.arr(), rng.arr(), rng.arr());
        let b = gt.serialize_for_net();
        let d = GoldenTicket::deserialize_from_net(&b);
        if b.len() != 97 || d.target != gt.target || d.random != gt.random || d.public_key != gt.public_key { witness("golden ticket does not round trip".to_string()); }
    }
}
