// Replay / extraction-validation module for blockchain.rs (compiled only under --cfg saito_verif in the test build)
#[allow(unused_imports)]
use super::*;
include!("/verif/replay/in_crate/common.rs");

/// C05: past start-up, a block is acceptable iff the six-block window ending at it holds at least two golden tickets
#[test]
fn golden_ticket_window_contract() {
    let mut rng = Rng::from_env();
    for _ in 0..20000 {
        let n = rng.below(9) as usize; // ancestors available
        let mut blocks: Vec<Block> = vec![];
        for i in 0..n {
            let mut b = Block::new();
            b.id = (n - i) as u64;
            b.hash = [(i + 1) as u8; 32];
            b.previous_block_hash = [(i + 2) as u8; 32];
            b.has_golden_ticket = rng.below(2) == 0;
            blocks.push(b);
        }
        let cur_gt = rng.below(2) == 0;
        let bypass = rng.below(8) == 0;
        let got = is_golden_ticket_count_valid_([1u8; 32], cur_gt, bypass, |h| blocks.iter().find(|b| b.hash == h));
        let depth = n.min(5);
        let gts = blocks.iter().take(5).filter(|b| b.has_golden_ticket).count() + if cur_gt { 1 } else { 0 };
        let desc = format!("ancestors={} tickets(prev5)={:?} current_has_gt={} bypass={}", n, blocks.iter().take(5).map(|b| b.has_golden_ticket).collect::<Vec<_>>(), cur_gt, bypass);
        if depth == 5 && !bypass && got != (gts >= 2) { witness(format!("is_golden_ticket_count_valid_ returned {} with {} tickets in the six-block window: {}", got, gts, desc)); }
        if depth == 4 && !bypass && got != (gts >= 1) { witness(format!("start-up (4 ancestors): returned {} with {} tickets: {}", got, gts, desc)); }
        if (depth < 4 || bypass) && !got { witness(format!("start-up/bypass must accept: {}", desc)); }
    }
}
