// Replay / extraction-validation module for blockchain.rs (compiled only under --cfg saito_verif in the test build)
#[allow(unused_imports)]
use super::*;
include!("/verif/replay/in_crate/common.rs");
#[allow(unused_imports)] use std::ops::Deref;

/// C05: past start-up, a block is acceptable iff the six-block window ending at it holds at least two golden tickets
#[test]
fn golden_ticket_window_contract() {
    let mut rng = Rng::from_env();
    for _ in 0..20000 {
        let n = rng.below(9) as usize; // ancestors available
        let mut blocks: Vec<Block> = vec![];
        for i in 0..n {
            let mut b = Block::new();
            b.id = (n - i) as u64;
            b.hash = [(i + 1) as u8; 32];
            b.previous_block_hash = [(i + 2) as u8; 32];
            b.has_golden_ticket = rng.below(2) == 0;
            blocks.push(b);
        }
        let cur_gt = rng.below(2) == 0;
        let bypass = rng.below(8) == 0;
        let got = is_golden_ticket_count_valid_([1u8; 32], cur_gt, bypass, |h| blocks.iter().find(|b| b.hash == h));
        let depth = n.min(5);
        let gts = blocks.iter().take(5).filter(|b| b.has_golden_ticket).count() + if cur_gt { 1 } else { 0 };
        let desc = format!("ancestors={} tickets(prev5)={:?} current_has_gt={} bypass={}", n, blocks.iter().take(5).map(|b| b.has_golden_ticket).collect::<Vec<_>>(), cur_gt, bypass);
        if depth == 5 && !bypass && got != (gts >= 2) { witness(format!("is_golden_ticket_count_valid_ returned {} with {} tickets in the six-block window: {}", got, gts, desc)); }
        if depth == 4 && !bypass && got != (gts >= 1) { witness(format!("start-up (4 ancestors): returned {} with {} tickets: {}", got, gts, desc)); }
        if (depth < 4 || bypass) && !got { witness(format!("start-up/bypass must accept: {}", desc)); }
    }
}

use crate::core::util::test::test_manager::test::TestManager;

/// C04: every attempt to add a block terminates (bounded by the lengths of the two competing chain segments) and a
/// rejected block leaves the tip where it was. Scenario: a 3-block fork overtakes a 2-block chain segment, its first two
/// blocks are valid and its tip is invalid.
#[test]
#[serial_test::serial]
fn failed_reorg_terminates_and_restores_tip() {
    let (tx_done, rx_done) = std::sync::mpsc::channel::<(SaitoHash, SaitoHash)>();
    std::thread::spawn(move || {
        let rt = tokio::runtime::Builder::new_current_thread().enable_all().build().unwrap();
        rt.block_on(async move {
            let mut t = TestManager::default();
            t.initialize(100, 200_000_000_000_000).await;
            let (b1, ts) = { let bc = t.blockchain_lock.read().await; let b = bc.get_latest_block().unwrap(); (b.hash, b.timestamp) };
            // main chain b1 - b2 - b3
            let mut b2 = t.create_block(b1, ts + 120000, 0, 0, 0, true).await; b2.generate().unwrap(); let b2h = b2.hash; t.add_block(b2).await;
            let mut b3 = t.create_block(b2h, ts + 240000, 0, 0, 0, true).await; b3.generate().unwrap(); let b3h = b3.hash; t.add_block(b3).await;
            assert_eq!(t.blockchain_lock.read().await.get_latest_block_hash(), b3h);
            // fork b1 - f2 - f3 - f4, f4 misreports its burn fee (and is properly re-signed by its producer)
            let mut f2 = t.create_block(b1, ts + 120001, 0, 0, 0, true).await; f2.generate().unwrap(); let f2h = f2.hash; t.add_block(f2).await;
            let mut f3 = t.create_block(f2h, ts + 240001, 0, 0, 0, true).await; f3.generate().unwrap(); let f3h = f3.hash; t.add_block(f3).await;
            assert_eq!(t.blockchain_lock.read().await.get_latest_block_hash(), b3h, "equal-length fork must not move the tip");
            let mut f4 = t.create_block(f3h, ts + 360001, 0, 0, 0, true).await;
            f4.burnfee += 1;
            let sk = { t.wallet_lock.read().await.private_key };
            f4.sign(&sk);
            f4.generate().unwrap();
            let _ = t.add_block(f4).await;   // ← must return
            let tip = t.blockchain_lock.read().await.get_latest_block_hash();
            let _ = tx_done.send((tip, b3h));
        });
    });
    match rx_done.recv_timeout(std::time::Duration::from_secs(40)) {
        Ok((tip, expected)) => { if tip != expected { witness(format!("after a reorganisation attempt that failed at the candidate tip, the node's tip is {:?}… instead of the previous tip {:?}…", &tip[..4], &expected[..4])); } }
        Err(_) => {
            use std::io::Write;
            let _ = writeln!(std::io::stderr(), "WITNESS: Blockchain::add_block did not return within 40 s: 2-block chain [b3,b2] vs 3-block fork [f4,f3,f2] from the same parent, f2 and f3 valid, f4 invalid (burnfee off by one, correctly signed) — the wind/unwind loop of Blockchain::validate re-winds the new chain forever");
            let _ = writeln!(std::io::stderr(), "test core::consensus::blockchain::verif_replay::failed_reorg_terminates_and_restores_tip ... FAILED");
            std::process::exit(3);
        }
    }
}

/// C04: a reorganisation attempt that cannot go through because a block of the current chain carries an operator
/// checkpoint (Blockchain::add_blocks_from_mempool sets Block::has_checkpoint from a checkpoint file) must leave the
/// tip, the chain index and the spendable set where they were. Scenario: chain b1-b2-b3-b4 with the checkpoint on b3,
/// a valid fork b1-f2-f3-f4-f5 overtakes it.
#[test]
#[serial_test::serial]
fn reorg_across_a_checkpoint_leaves_no_trace() {
    let (tx_done, rx_done) = std::sync::mpsc::channel::<(SaitoHash, SaitoHash, u64, u64, bool, usize, usize)>();
    std::thread::spawn(move || {
        let rt = tokio::runtime::Builder::new_current_thread().enable_all().build().unwrap();
        rt.block_on(async move {
            let mut t = TestManager::default();
            t.initialize(100, 200_000_000_000_000).await;
            let (b1, ts) = { let bc = t.blockchain_lock.read().await; let b = bc.get_latest_block().unwrap(); (b.hash, b.timestamp) };
            let mut prev = b1; let mut main = vec![];
            for k in 1..=3u64 { let mut b = t.create_block(prev, ts + 120000 * k, 0, 0, 0, true).await; b.generate().unwrap(); prev = b.hash; main.push(b.hash); t.add_block(b).await; }
            let b4h = prev;
            assert_eq!(t.blockchain_lock.read().await.get_latest_block_hash(), b4h);
            let mut prev = b1; let mut fork = vec![];
            for k in 1..=3u64 { let mut b = t.create_block(prev, ts + 120000 * k + 1, 0, 0, 0, true).await; b.generate().unwrap(); prev = b.hash; fork.push(b.hash); t.add_block(b).await; }
            assert_eq!(t.blockchain_lock.read().await.get_latest_block_hash(), b4h, "equal-length fork must not move the tip");
            // the operator's checkpoint sits on b3 (second block of the segment that would have to be unwound)
            { let mut bc = t.blockchain_lock.write().await; bc.blocks.get_mut(&main[1]).unwrap().has_checkpoint = true; }
            let (utxo_before, lc_before) = { let bc = t.blockchain_lock.read().await; (bc.utxoset.iter().filter(|(_, v)| **v).count(), bc.blocks.get(&b4h).unwrap().in_longest_chain) };
            let mut f5 = t.create_block(prev, ts + 120000 * 4 + 1, 0, 0, 0, true).await; f5.generate().unwrap();
            let _ = t.add_block(f5).await;
            let bc = t.blockchain_lock.read().await;
            let _ = tx_done.send((bc.get_latest_block_hash(), b4h, bc.get_latest_block_id(), 4, bc.blocks.get(&b4h).unwrap().in_longest_chain && lc_before, bc.utxoset.iter().filter(|(_, v)| **v).count(), utxo_before));
        });
    });
    match rx_done.recv_timeout(std::time::Duration::from_secs(40)) {
        Ok((tip, expected, tip_id, expected_id, still_lc, utxo_after, utxo_before)) => {
            if tip != expected || tip_id != expected_id || !still_lc || utxo_after != utxo_before {
                witness(format!("chain b1-b2-b3-b4 (checkpoint flag on b3), fork b1-f2-f3-f4-f5 offered: the reorganisation unwinds b4, refuses to unwind b3 and stops there — afterwards tip id {} (was {}), tip hash {} previous tip, b4 on the longest chain: {}, spendable outputs {} (were {})",
                    tip_id, expected_id, if tip == expected { "==" } else { "!=" }, still_lc, utxo_after, utxo_before));
            }
        }
        Err(_) => {
            use std::io::Write;
            let _ = writeln!(std::io::stderr(), "WITNESS: Blockchain::add_block did not return within 40 s (reorganisation across a checkpoint block)");
            let _ = writeln!(std::io::stderr(), "test core::consensus::blockchain::verif_replay::reorg_across_a_checkpoint_leaves_no_trace ... FAILED");
            std::process::exit(3);
        }
    }
}

fn fill_chain(bc: &mut Blockchain, shared: u64, tip: u64, tag: u8) {
    for id in 1..=tip {
        let mut b = Block::new();
        b.id = id;
        // shared prefix carries the same hashes on both chains; the suffix is chain specific
        let mut h = [0u8; 32];
        // (beyond the fork point the two chains differ in every odd byte only: a comparison that looks at less than the
        // sampled byte PAIR would take them for the same block)
        for (k, x) in h.iter_mut().enumerate() { *x = (id as u8).wrapping_mul(31).wrapping_add(k as u8 * 7).wrapping_add(if id <= shared || k % 2 == 0 { 0 } else { tag }); }
        h[31] = if id <= shared { 0 } else { tag };
        b.hash = h;
        bc.blockring.add_block(&b);
        bc.blockring.on_chain_reorganization(id, h, true);
    }
}

/// C15 (second sentence): the common-ancestor estimate computed from the peer's fork id is never above the true fork
/// point, and both chains hold the same block at the estimated height
#[tokio::test]
#[serial_test::serial]
async fn shared_ancestor_estimate_contract() {
    let mut rng = Rng::from_env();
    for round in 0..60 {
        let ta = TestManager::default();
        let tb = TestManager::default();
        let mut a = ta.blockchain_lock.write().await;
        let mut b = tb.blockchain_lock.write().await;
        let ring = a.blockring.get_ring_buffer_size();
        let max_tip = (ring - 1).min(150);
        let tip_a = 1 + rng.below(max_tip);
        let tip_b = 1 + rng.below(max_tip);
        let shared = rng.below(tip_a.min(tip_b) + 1);
        fill_chain(&mut a, shared, tip_a, 0xA0);
        fill_chain(&mut b, shared, tip_b, 0xB0);
        // b asks a: a estimates the last shared ancestor from b's fork id
        let fork_id_b = b.generate_fork_id(tip_b).unwrap();
        let est = a.generate_last_shared_ancestor(tip_b, fork_id_b);
        let desc = format!("round {}: shared prefix 1..={}, my tip {}, peer tip {} → estimate {}", round, shared, tip_a, tip_b, est);
        if est > tip_a { witness(format!("estimate above my own tip: {}", desc)); }
        if est > shared {
            // a 2-byte collision could make this legitimate; the generated hashes differ in every byte beyond the prefix
            witness(format!("common-ancestor estimate is above the true fork point (blocks would be skipped): {}", desc));
        }
        if est > 0 && a.blockring.get_longest_chain_block_hash_at_block_id(est) != b.blockring.get_longest_chain_block_hash_at_block_id(est) {
            witness(format!("the two chains hold different blocks at the estimated height: {}", desc));
        }
    }
}

/// C05: the tip moves only to a chain that is strictly longer, carries at least as much cumulative burn fee over the
/// diverging segment and reaches above the current tip; and such a chain is chosen
#[tokio::test]
#[serial_test::serial]
async fn longest_chain_rule_contract() {
    let mut rng = Rng::from_env();
    let t = TestManager::default();
    let mut bc = t.blockchain_lock.write().await;
    for round in 0..400 {
        bc.blocks.clear();
        bc.blockring = crate::core::consensus::blockring::BlockRing::new(100);
        bc.blockring.empty = false;   // cleared by Blockchain::add_block once the first block is in
        let shared = 1 + rng.below(3);
        let n_old = rng.below(4) as usize;
        let n_new = 1 + rng.below(5) as usize;
        // current chain: ids 1..=shared+n_old on the ring
        let mut old_chain = vec![]; let mut new_chain = vec![];
        for id in 1..=(shared + n_old as u64) {
            let mut b = Block::new(); b.id = id; b.hash = [id as u8; 32]; b.burnfee = rng.below(50);
            bc.blockring.add_block(&b); bc.blockring.on_chain_reorganization(id, b.hash, true);
            if id > shared { old_chain.insert(0, b.hash); }
            bc.blocks.insert(b.hash, b);
        }
        // (gap > 0: the candidate segment is not connected to the chain — a block that arrived before its parent)
        let gap = if rng.below(3) == 0 { 1 + rng.below(3) } else { 0 };
        for k in 1..=(n_new as u64) {
            let mut b = Block::new(); b.id = shared + gap + k; b.hash = [0x80 + (shared + gap + k) as u8; 32]; b.burnfee = rng.below(50);
            new_chain.insert(0, b.hash);
            bc.blocks.insert(b.hash, b);
        }
        let old_bf: u64 = old_chain.iter().map(|h| bc.blocks.get(h).unwrap().burnfee).sum();
        let new_bf: u64 = new_chain.iter().map(|h| bc.blocks.get(h).unwrap().burnfee).sum();
        let tip = shared + n_old as u64;
        let new_tip = shared + gap + n_new as u64;
        let expected = old_chain.len() < new_chain.len() && old_bf <= new_bf && tip < new_tip;
        let got = bc.is_new_chain_the_longest_chain(&new_chain, &old_chain);
        if got != expected {
            witness(format!("round {}: current segment {} blocks with burn fees summing to {}, candidate segment {} blocks summing to {}, tip id {} vs candidate tip id {}: is_new_chain_the_longest_chain = {}, the fork-choice rule says {}",
                round, old_chain.len(), old_bf, new_chain.len(), new_bf, tip, new_tip, got, expected));
        }
    }
}

#[derive(Debug, PartialEq, Eq, Clone)]
struct LedgerSnapshot { tip: (u64, SaitoHash), ring_tip: (u64, SaitoHash), chain: Vec<Option<SaitoHash>>, flags: Vec<(SaitoHash, bool)>, spendable: Vec<SaitoUTXOSetKey>, wallet: (Currency, usize), stored: usize }
async fn ledger_snapshot(t: &TestManager, max_id: u64) -> LedgerSnapshot {
    let bc = t.blockchain_lock.read().await;
    let mut flags: Vec<(SaitoHash, bool)> = bc.blocks.iter().map(|(h, b)| (*h, b.in_longest_chain)).collect(); flags.sort();
    let mut spendable: Vec<SaitoUTXOSetKey> = bc.utxoset.iter().filter(|(_, v)| **v).map(|(k, _)| *k).collect(); spendable.sort();
    let w = t.wallet_lock.read().await;
    LedgerSnapshot { tip: (bc.get_latest_block_id(), bc.get_latest_block_hash()), ring_tip: (bc.blockring.get_latest_block_id(), bc.blockring.get_latest_block_hash()),
        chain: (1..=max_id).map(|id| bc.blockring.get_longest_chain_block_hash_at_block_id(id)).collect(), flags, spendable,
        wallet: (w.get_available_balance(), w.get_unspent_slip_count() as usize), stored: bc.blocks.len() }
}

/// C04 (first sentence): a fork of n+1 blocks overtakes a segment of n blocks; its p-th block is invalid (wrong burn fee,
/// re-signed by the producer, and it replays a transaction of the shared part, i.e. names an input spent long ago).
/// Whatever n and p: after the rejected reorganisation tip, index, on-chain flags, spendable outputs and wallet are
/// what they were before the last fork block was offered.
#[test]
#[serial_test::serial]
fn rejected_reorg_leaves_no_trace() {
    let (tx_done, rx_done) = std::sync::mpsc::channel::<Option<String>>();
    std::thread::spawn(move || {
        let rt = tokio::runtime::Builder::new_current_thread().enable_all().build().unwrap();
        rt.block_on(async move {
            for n in 1..=3u64 {
                for p in 1..=(n + 1) {
                    let mut t = TestManager::default();
                    t.initialize(100, 200_000_000_000_000).await;
                    let (b1, ts) = { let bc = t.blockchain_lock.read().await; let b = bc.get_latest_block().unwrap(); (b.hash, b.timestamp) };
                    let sk = { t.wallet_lock.read().await.private_key };
                    // shared block 2 spends an output of block 1
                    let mut b2 = t.create_block(b1, ts + 120000, 1, 1000, 0, true).await; b2.generate().unwrap(); let b2h = b2.hash;
                    let spent_tx = b2.transactions.iter().find(|tx| tx.transaction_type == TransactionType::Normal && !tx.from.is_empty()).unwrap().clone();
                    t.add_block(b2).await;
                    let mut prev = b2h;
                    for k in 1..=n { let mut b = t.create_block(prev, ts + 120000 * (k + 1), 0, 0, 0, true).await; b.generate().unwrap(); prev = b.hash; t.add_block(b).await; }
                    let main_tip = prev;
                    let mut prev = b2h; let mut last = None;
                    for k in 1..=(n + 1) {
                        let mut b = t.create_block(prev, ts + 120000 * (k + 1) + 1, 0, 0, 0, true).await;
                        if k == p { b.transactions.push(spent_tx.clone()); b.burnfee += 1; b.sign(&sk); }
                        b.generate().unwrap(); prev = b.hash;
                        if k == n + 1 { last = Some(b); } else { t.add_block(b).await; }
                    }
                    assert_eq!(t.blockchain_lock.read().await.get_latest_block_hash(), main_tip, "a fork that is not longer must not move the tip");
                    let before = ledger_snapshot(&t, n + 4).await;
                    let _ = t.add_block(last.unwrap()).await;
                    let mut after = ledger_snapshot(&t, n + 4).await;
                    after.stored = before.stored;   // whether the rejected block itself stays stored is not compared
                    let flags_after: Vec<_> = after.flags.iter().filter(|(h, _)| before.flags.iter().any(|(h2, _)| h2 == h)).cloned().collect();
                    after.flags = flags_after;
                    if after != before {
                        let what = if after.tip != before.tip { "tip" } else if after.ring_tip != before.ring_tip { "index tip" } else if after.chain != before.chain { "by-height index" }
                            else if after.flags != before.flags { "on-chain flags" } else if after.spendable != before.spendable { "spendable outputs" } else { "wallet" };
                        let _ = tx_done.send(Some(format!("segment of {} block(s) vs fork of {} whose block #{} is invalid: after the rejected reorganisation the {} differ(s) — tip {:?}→{:?}, spendable outputs {}→{}, wallet {:?}→{:?}",
                            n, n + 1, p, what, before.tip.0, after.tip.0, before.spendable.len(), after.spendable.len(), before.wallet, after.wallet)));
                        return;
                    }
                }
            }
            let _ = tx_done.send(None);
        });
    });
    match rx_done.recv_timeout(std::time::Duration::from_secs(120)) {
        Ok(None) => {}
        Ok(Some(w)) => witness(w),
        Err(_) => {
            use std::io::Write;
            let _ = writeln!(std::io::stderr(), "WITNESS: Blockchain::add_block did not return within 120 s in one of the failed-reorganisation scenarios");
            let _ = writeln!(std::io::stderr(), "test core::consensus::blockchain::verif_replay::rejected_reorg_leaves_no_trace ... FAILED");
            std::process::exit(3);
        }
    }
}

/// C14: after a block has been applied, every pooled transaction is still valid against the ledger, the block's own
/// transactions have left the pool, still-valid transactions outside the block stay, and no reservation is left behind
/// by a dropped transaction. Random pools / ledgers / blocks against the real Blockchain::remove_block_transactions.
#[tokio::test]
#[serial_test::serial]
async fn pool_is_swept_after_a_block() {
    use crate::core::consensus::slip::Slip;
    use crate::core::util::crypto::generate_keys;
    let t = TestManager::default();
    let (pk, sk) = generate_keys();
    let mut rng = Rng::from_env();
    for run in 0..200 {
        let mut blockchain = Blockchain::new(t.wallet_lock.clone(), 100, 0, 60);
        let mut mempool = Mempool::new(t.wallet_lock.clone());
        // eight outputs, each unspent / spent / absent from the ledger index
        let mut slips: Vec<Slip> = vec![];
        let mut state: Vec<u64> = vec![];
        for ord in 0..8u64 {
            let mut s = Slip::default(); s.public_key = pk; s.amount = 10; s.block_id = 1; s.tx_ordinal = ord; s.slip_index = 0;
            s.generate_utxoset_key();
            let st = rng.below(3);
            if st < 2 { blockchain.utxoset.insert(s.utxoset_key, st == 0); }
            slips.push(s); state.push(st);
        }
        // pooled transactions over disjoint inputs (the pool invariant), each spending one or two of the outputs
        let mut free: Vec<usize> = (0..8).collect();
        let mut pooled: Vec<(Transaction, Vec<usize>)> = vec![];
        while free.len() >= 2 && pooled.len() < 4 {
            let n_in = 1 + rng.below(2) as usize;
            let mut ins = vec![];
            for _ in 0..n_in { let k = rng.below(free.len() as u64) as usize; ins.push(free.remove(k)); }
            let mut tx = Transaction::default();
            if rng.below(4) == 0 {
                // a transaction that moves no value (one zero-valued input): the ledger never invalidates it, so only
                // its inclusion in a block takes it out of the pool
                for i in ins.drain(..) { free.push(i); }
                let mut z = Slip::default(); z.public_key = pk; z.amount = 0; z.tx_ordinal = 100 + pooled.len() as u64; z.generate_utxoset_key();
                tx.from.push(z);
            }
            for i in ins.iter() { tx.from.push(slips[*i].clone()); }
            let mut o = Slip::default(); o.public_key = pk; o.amount = if ins.is_empty() { 0 } else { 1 }; tx.to.push(o);
            tx.data = vec![pooled.len() as u8];
            tx.sign(&sk);
            tx.generate(&pk, 0, 0);
            mempool.add_transaction(tx.clone()).await;
            if !mempool.transactions.contains_key(&tx.signature) { panic!("setup: disjoint transaction refused"); }
            pooled.push((tx, ins));
        }
        // the block carries some of the pooled transactions (their inputs are spent by it: mark them spent in the index)
        let mut block = Block::new();
        block.hash = [7u8; 32];
        block.in_longest_chain = true;   // (the block has just been wound onto the chain: a block merely stored next to it confirms nothing)
        let mut in_block: Vec<bool> = vec![];
        for (tx, ins) in pooled.iter() {
            let b = rng.below(3) == 0;
            in_block.push(b);
            if b { block.transactions.push(tx.clone()); for i in ins.iter() { blockchain.utxoset.insert(slips[*i].utxoset_key, false); state[*i] = 1; } }
        }
        // ... and, like every second block, a golden ticket somewhere among them
        let gt_at = if rng.below(2) == 0 { Some(rng.below(block.transactions.len() as u64 + 1) as usize) } else { None };
        if let Some(at) = gt_at {
            let mut gt = Transaction::default();
            gt.transaction_type = TransactionType::GoldenTicket;
            gt.data = vec![run as u8; 97];
            gt.sign(&sk);
            block.transactions.insert(at, gt);
        }
        blockchain.blocks.insert(block.hash, block);
        let desc = format!("run {}: golden ticket at {:?} of the block; ledger(0=unspent,1=spent,2=absent)={:?} pooled inputs={:?} in_block={:?}", run, gt_at, state, pooled.iter().map(|p| p.1.clone()).collect::<Vec<_>>(), in_block);

        blockchain.remove_block_transactions(&[7u8; 32], &mut mempool);

        for (k, (tx, ins)) in pooled.iter().enumerate() {
            let valid = ins.iter().all(|i| state[*i] == 0);
            // (the oracle is the ledger state the harness built; the verdict of Transaction::validate must agree with it)
            if tx.validate(&blockchain.utxoset, &blockchain, true) != valid { panic!("setup: Transaction::validate disagrees with the harness about tx #{} ({}): {}", k, valid, desc); }
            let present = mempool.transactions.contains_key(&tx.signature);
            if present && !valid { witness(format!("a pooled transaction whose input is spent or unknown to the ledger is still pooled after the block (tx #{}): {}", k, desc)); }
            if present && in_block[k] { witness(format!("a transaction of the block is still pooled (tx #{}): {}", k, desc)); }
            if !present && valid && !in_block[k] { witness(format!("a still-valid transaction outside the block was dropped from the pool (tx #{}): {}", k, desc)); }
        }
        if mempool.transactions.len() > pooled.len() { witness(format!("the sweep added transactions to the pool: {}", desc)); }
        for (i, s) in slips.iter().enumerate() {
            let spent_by_pool = mempool.transactions.values().any(|tx| tx.from.iter().any(|x| x.amount > 0 && x.utxoset_key == s.utxoset_key));
            if mempool.utxo_map.contains_key(&s.utxoset_key) && !spent_by_pool { witness(format!("output #{} is still reserved although no pooled transaction spends it: {}", i, desc)); }
            if !mempool.utxo_map.contains_key(&s.utxoset_key) && spent_by_pool { witness(format!("output #{} is spent by a pooled transaction but not reserved: {}", i, desc)); }
        }
    }
}

/// C14: a failed block addition hands the block's transactions back to the pool; afterwards the pool still holds no two
/// transactions spending the same output, and every value-carrying input of a pooled transaction is reserved (so that a
/// later conflicting transaction is refused). History: transaction X2 is pooled; a block created under this node's key
/// that carries X (same inputs as X2) fails validation — and the same with X2 arriving after the failure.
#[test]
#[serial_test::serial]
fn failed_block_addition_keeps_the_pool_consistent() {
    let (tx_done, rx_done) = std::sync::mpsc::channel::<Option<String>>();
    std::thread::spawn(move || {
        let rt = tokio::runtime::Builder::new_current_thread().enable_all().build().unwrap();
        rt.block_on(async move {
            for scenario in 0..3 {
                let conflicting_first = scenario == 0;
                let spent_meanwhile = scenario == 2;
                let mut t = TestManager::default();
                t.initialize(100, 200_000_000_000_000).await;
                let (b1, ts) = { let bc = t.blockchain_lock.read().await; let b = bc.get_latest_block().unwrap(); (b.hash, b.timestamp) };
                let (pk, sk) = { let w = t.wallet_lock.read().await; (w.public_key, w.private_key) };
                let mut b2 = t.create_block(b1, ts + 120000, 1, 1000, 0, true).await;
                let x = b2.transactions.iter().find(|tx| tx.transaction_type == TransactionType::Normal && tx.from.iter().any(|s| s.amount > 0)).unwrap().clone();
                // the same inputs spent by a second, equally valid transaction
                let mut x2 = x.clone();
                x2.data = vec![9, 9, 9];
                x2.sign(&sk);
                x2.generate(&pk, 0, 0);
                assert!(x2.signature != x.signature);
                {
                    let bc = t.blockchain_lock.read().await;
                    assert!(x.validate(&bc.utxoset, &bc, true) && x2.validate(&bc.utxoset, &bc, true), "setup: both transactions are valid on their own");
                }
                if conflicting_first { t.mempool_lock.write().await.add_transaction(x2.clone()).await; }
                if spent_meanwhile {
                    // the ledger has moved on: X's inputs are spent by the time the block fails
                    let mut bc = t.blockchain_lock.write().await;
                    for s in x.from.iter() { if s.amount > 0 { bc.utxoset.insert(s.utxoset_key, false); } }
                }
                // the block is invalid (its burn fee is not the one its parent dictates)
                b2.burnfee += 1; b2.sign(&sk); b2.generate().unwrap();
                let tip_before = t.blockchain_lock.read().await.get_latest_block_hash();
                let _ = t.add_block(b2).await;
                assert_eq!(t.blockchain_lock.read().await.get_latest_block_hash(), tip_before, "setup: the block must be rejected");
                if scenario == 1 { t.mempool_lock.write().await.add_transaction(x2.clone()).await; }
                let mp = t.mempool_lock.read().await;
                if spent_meanwhile && mp.transactions.contains_key(&x.signature) {
                    let _ = tx_done.send(Some(format!("a transaction of a failed block whose inputs are spent in the ledger was handed back to the pool: inputs {:?}",
                        x.from.iter().filter(|s| s.amount > 0).map(|s| (s.block_id, s.tx_ordinal, s.slip_index)).collect::<Vec<_>>())));
                    return;
                }
                let has_x = mp.transactions.contains_key(&x.signature);
                let has_x2 = mp.transactions.contains_key(&x2.signature);
                if has_x && has_x2 {
                    let _ = tx_done.send(Some(format!("after a failed block addition the pool holds two transactions spending the same output ({}): inputs {:?}",
                        if conflicting_first { "the conflicting transaction was pooled before the block failed" } else { "the conflicting transaction arrived after the block failed and was admitted: the returned transaction's inputs are not reserved" },
                        x.from.iter().filter(|s| s.amount > 0).map(|s| (s.block_id, s.tx_ordinal, s.slip_index)).collect::<Vec<_>>())));
                    return;
                }
                for tx in mp.transactions.values() { for s in tx.from.iter() { if s.amount > 0 && !mp.utxo_map.contains_key(&s.utxoset_key) {
                    let _ = tx_done.send(Some(format!("after a failed block addition a pooled transaction's input ({},{},{}) is not reserved", s.block_id, s.tx_ordinal, s.slip_index)));
                    return;
                } } }
            }
            let _ = tx_done.send(None);
        });
    });
    match rx_done.recv_timeout(std::time::Duration::from_secs(120)) {
        Ok(None) => {}
        Ok(Some(w)) => witness(w),
        Err(_) => panic!("scenario did not finish within 120 s"),
    }
}

/// C05 (last sentence) / C03: a block that arrives before its parent neither moves the tip nor disturbs the chain index,
/// the on-chain flags of the stored blocks, the spendable set or the wallet — whatever height it claims (below, at or
/// above the tip).
#[test]
#[serial_test::serial]
fn block_before_its_parent_changes_nothing() {
    let (tx_done, rx_done) = std::sync::mpsc::channel::<Option<String>>();
    std::thread::spawn(move || {
        let rt = tokio::runtime::Builder::new_current_thread().enable_all().build().unwrap();
        rt.block_on(async move {
            let mut found: Vec<String> = vec![];
            for claimed_id in 2..=8u64 {
                let mut t = TestManager::default();
                t.initialize(100, 200_000_000_000_000).await;
                let (b1, ts) = { let bc = t.blockchain_lock.read().await; let b = bc.get_latest_block().unwrap(); (b.hash, b.timestamp) };
                let sk = { t.wallet_lock.read().await.private_key };
                let mut prev = b1;
                let mut hashes = vec![b1];
                for k in 1..=5u64 { let mut b = t.create_block(prev, ts + 120000 * k, 1, 1000, 0, k % 2 == 1).await; b.generate().unwrap(); prev = b.hash; hashes.push(b.hash); t.add_block(b).await; }
                assert_eq!(t.blockchain_lock.read().await.get_latest_block_id(), 6, "setup: six blocks on the chain");
                // a block whose parent this node has never seen
                let mut x = t.create_block(hashes[(claimed_id as usize - 2).min(5)], ts + 120000 * 9, 1, 1000, 0, false).await;
                x.id = claimed_id;
                x.previous_block_hash = [0xEE; 32];
                x.sign(&sk);
                x.generate().unwrap();
                let before = ledger_snapshot(&t, 9).await;
                let _ = t.add_block(x).await;
                let mut after = ledger_snapshot(&t, 9).await;
                after.stored = before.stored;   // whether the block is kept for later is not compared
                let flags_after: Vec<_> = after.flags.iter().filter(|(h, _)| before.flags.iter().any(|(h2, _)| h2 == h)).cloned().collect();
                after.flags = flags_after;
                after.wallet = before.wallet;   // building the block took slips out of the test wallet: not the node's doing
                if after != before {
                    let what = if after.tip != before.tip { "tip" } else if after.ring_tip != before.ring_tip { "index tip" } else if after.chain != before.chain { "by-height index" }
                        else if after.flags != before.flags { "on-chain flags" } else { "spendable outputs" };
                    found.push(format!("chain of 6 blocks; a block claiming height {} whose parent is unknown was delivered: the {} changed — tip {:?}→{:?}, index tip {:?}→{:?}, heights with an on-chain block {:?}→{:?}, stored blocks flagged on-chain {}→{}",
                        claimed_id, what, before.tip.0, after.tip.0, before.ring_tip.0, after.ring_tip.0,
                        before.chain.iter().enumerate().filter(|(_, h)| h.map(|x| x != [0u8; 32]).unwrap_or(false)).map(|(i, _)| i + 1).collect::<Vec<_>>(),
                        after.chain.iter().enumerate().filter(|(_, h)| h.map(|x| x != [0u8; 32]).unwrap_or(false)).map(|(i, _)| i + 1).collect::<Vec<_>>(),
                        before.flags.iter().filter(|f| f.1).count(), after.flags.iter().filter(|f| f.1).count()));
                }
            }
            let _ = tx_done.send(if found.is_empty() { None } else { Some(found.join(" || ")) });
        });
    });
    match rx_done.recv_timeout(std::time::Duration::from_secs(180)) {
        Ok(None) => {}
        Ok(Some(w)) => witness(w),
        Err(_) => panic!("scenario did not finish within 180 s"),
    }
}

/// C05 (last sentence), the remaining case — recorded finding: a node whose chain starts above height 1 (it joined at
/// block 3) receives a parent-less block claiming a height below its first block: the whole chain is taken off the index.
#[test]
#[serial_test::serial]
fn block_below_the_first_known_block_changes_nothing() {
    let (tx_done, rx_done) = std::sync::mpsc::channel::<Option<String>>();
    std::thread::spawn(move || {
        let rt = tokio::runtime::Builder::new_current_thread().enable_all().build().unwrap();
        rt.block_on(async move {
            let mut t = TestManager::default();
            t.initialize(100, 200_000_000_000_000).await;
            let (b1, ts) = { let bc = t.blockchain_lock.read().await; let b = bc.get_latest_block().unwrap(); (b.hash, b.timestamp) };
            let sk = { t.wallet_lock.read().await.private_key };
            let mut prev = b1;
            let mut blocks = vec![];
            for k in 1..=5u64 { let mut b = t.create_block(prev, ts + 120000 * k, 1, 1000, 0, k % 2 == 1).await; b.generate().unwrap(); prev = b.hash; blocks.push(b.clone()); t.add_block(b).await; }
            // a second node that joins at block 3
            let mut t2 = TestManager::default();
            for b in blocks.iter().skip(1) { let _ = t2.add_block(b.clone()).await; }
            assert_eq!(t2.blockchain_lock.read().await.get_latest_block_id(), 6, "setup: the second node follows the chain from block 3 to block 6");
            let mut x = t.create_block(b1, ts + 120000 * 9, 1, 1000, 0, false).await;
            x.id = 2; x.previous_block_hash = [0xEE; 32]; x.sign(&sk); x.generate().unwrap();
            let before = ledger_snapshot(&t2, 9).await;
            let _ = t2.add_block(x).await;
            let after = ledger_snapshot(&t2, 9).await;
            if after.tip != before.tip || after.chain != before.chain {
                let _ = tx_done.send(Some(format!("node following blocks 3..6; a block claiming height 2 whose parent is unknown was delivered: tip {:?}→{:?}, heights with an on-chain block {:?}→{:?}, spendable outputs {}→{}",
                    before.tip.0, after.tip.0,
                    before.chain.iter().enumerate().filter(|(_, h)| h.is_some()).map(|(i, _)| i + 1).collect::<Vec<_>>(),
                    after.chain.iter().enumerate().filter(|(_, h)| h.is_some()).map(|(i, _)| i + 1).collect::<Vec<_>>(),
                    before.spendable.len(), after.spendable.len())));
                return;
            }
            let _ = tx_done.send(None);
        });
    });
    match rx_done.recv_timeout(std::time::Duration::from_secs(180)) {
        Ok(None) => {}
        Ok(Some(w)) => witness(w),
        Err(_) => panic!("scenario did not finish within 180 s"),
    }
}

/// C05: the tip never moves to a chain that has a window of six consecutive blocks with fewer than two golden tickets.
/// Chain 1..10 with a ticket in every even block; a side chain on block 7 whose tickets are placed by `pattern`.
/// Whenever the tip sits on a side-chain block, every six-block window of the chain below it must hold two tickets.
#[test]
#[serial_test::serial]
fn tip_never_moves_to_a_chain_with_a_sparse_window() {
    let (tx_done, rx_done) = std::sync::mpsc::channel::<Option<String>>();
    std::thread::spawn(move || {
        let rt = tokio::runtime::Builder::new_current_thread().enable_all().build().unwrap();
        rt.block_on(async move {
            // tickets of the side chain blocks 8', 9', …
            // (length of the main chain, tickets of the side chain blocks 8', 9', …)
            let patterns: Vec<(u64, Vec<bool>)> = vec![
                (10, vec![false, false, false, false]),                            // 8'..11': the window ending at 11' holds one ticket
                // 8'..21' against a main chain of 20: the side chain overtakes only at 21', whose own window holds three
                // tickets — but 8'..18' hold none
                (20, vec![false, false, false, false, false, false, false, false, false, false, false, true, true, true]),
                // 8'..21' with tickets in 10', 15', 20', 21': every block has a ticket among its five ancestors and the tip
                // carries one, but e.g. 9'..14' hold a single ticket
                (20, vec![false, false, true, false, false, false, false, true, false, false, false, false, true, true]),
            ];
            for (main_len, pattern) in patterns.iter() {
                let main_len = *main_len;
                let mut t = TestManager::default();
                t.initialize(100, 200_000_000_000_000).await;
                let (b1, ts) = { let bc = t.blockchain_lock.read().await; let b = bc.get_latest_block().unwrap(); (b.hash, b.timestamp) };
                let mut main = vec![b1];
                for id in 2..=main_len {
                    let mut b = t.create_block(*main.last().unwrap(), ts + (id - 1) * 120000, 1, 0, 0, id % 2 == 0).await; b.generate().unwrap();
                    main.push(b.hash); t.add_block(b).await;
                }
                assert_eq!(t.blockchain_lock.read().await.get_latest_block_id(), main_len, "setup: main chain");
                let mut parent = main[6];
                let mut side: Vec<SaitoHash> = vec![];
                for (k, gt) in pattern.iter().enumerate() {
                    let id = 8 + k as u64;
                    let mut b = t.create_block(parent, ts + (id - 1) * 120000 + 1000, 1, 0, 0, *gt).await; b.generate().unwrap();
                    parent = b.hash; side.push(b.hash);
                    let prev_of_b = b.previous_block_hash;
                    let r = t.add_block(b).await;
                    let bc = t.blockchain_lock.read().await;
                    let tip = bc.get_latest_block_hash();
                    if std::env::var("VERIF_TRACE").is_ok() { println!("TRACE side block {} gt={} -> tip {} on side: {} ; window rule says {} ; result {}", id, gt, bc.get_latest_block_id(), side.contains(&tip), bc.is_golden_ticket_count_valid(prev_of_b, *gt, false, false),
                        match r { AddBlockResult::BlockAddedSuccessfully(_, lc, _) => format!("added lc={}", lc), AddBlockResult::BlockAlreadyExists => "exists".to_string(), AddBlockResult::FailedButRetry(..) => "retry".to_string(), AddBlockResult::FailedNotValid => "not valid".to_string() }); }
                    if side.contains(&tip) {
                        // walk the adopted chain down from the tip and count tickets in every window of six
                        let mut chain: Vec<(u64, bool)> = vec![];
                        let mut h = tip;
                        while let Some(blk) = bc.blocks.get(&h) { chain.push((blk.id, blk.has_golden_ticket)); h = blk.previous_block_hash; }
                        for w in chain.windows(6) {
                            let tickets = w.iter().filter(|x| x.1).count();
                            if tickets < 2 {
                                let _ = tx_done.send(Some(format!("main chain 1..{} (tickets in even blocks), side chain on block 7 with tickets {:?}: after side block {} the tip is {} on the side chain although blocks {}..{} of that chain hold {} golden ticket(s)",
                                    main_len, pattern, id, bc.get_latest_block_id(), w.last().unwrap().0, w[0].0, tickets)));
                                return;
                            }
                        }
                    }
                }
            }
            let _ = tx_done.send(None);
        });
    });
    match rx_done.recv_timeout(std::time::Duration::from_secs(240)) {
        Ok(None) => {}
        Ok(Some(w)) => witness(w),
        Err(_) => panic!("scenario did not finish within 240 s"),
    }
}

/// C03: after a reorganisation that reaches below the pruning horizon (blocks more than a few below the tip keep only
/// their header in memory) the spendable set equals what a second node gets by applying the winning chain from
/// genesis. Main chain 1..11 with payments, fork 2-3'-…-12' takes over.
#[test]
#[serial_test::serial]
fn reorg_below_the_pruning_horizon_matches_a_replay() {
    let (tx_done, rx_done) = std::sync::mpsc::channel::<Option<String>>();
    std::thread::spawn(move || {
        let rt = tokio::runtime::Builder::new_current_thread().enable_all().build().unwrap();
        rt.block_on(async move {
            let mut t = TestManager::default();
            t.initialize(100, 200_000_000_000_000).await;
            let genesis = { let bc = t.blockchain_lock.read().await; bc.get_latest_block().unwrap().clone() };
            let (b1, ts) = (genesis.hash, genesis.timestamp);
            let mut main: Vec<Block> = vec![];
            let mut prev = b1;
            for id in 2..=11u64 {
                let mut b = if id % 2 == 0 { t.create_block(prev, ts + (id - 1) * 120000, 0, 0, 0, true).await } else { t.create_block(prev, ts + (id - 1) * 120000, 1, 1_000_000, 0, false).await };
                b.generate().unwrap(); prev = b.hash; main.push(b.clone()); t.add_block(b).await;
            }
            assert_eq!(t.blockchain_lock.read().await.get_latest_block_id(), 11, "setup: main chain of eleven blocks");
            let pruned = { let bc = t.blockchain_lock.read().await; main.iter().filter(|b| bc.blocks.get(&b.hash).map(|x| x.block_type != BlockType::Full).unwrap_or(false)).map(|b| b.id).collect::<Vec<_>>() };
            // the fork leaves the main chain after block 2
            let mut fork: Vec<Block> = vec![];
            let mut prev = main[0].hash;
            // (its blocks move no value: the test wallet's slips belong to the main chain)
            for id in 3..=12u64 {
                let mut b = if id % 2 == 1 { t.create_block(prev, ts + (id - 1) * 120000, 0, 0, 0, true).await } else { t.create_block(prev, ts + (id - 1) * 120000, 1, 0, 0, false).await };
                b.generate().unwrap(); prev = b.hash; fork.push(b.clone()); t.add_block(b).await;
            }
            if t.blockchain_lock.read().await.get_latest_block_hash() != prev { panic!("setup: the fork was not adopted (tip {})", t.blockchain_lock.read().await.get_latest_block_id()); }
            {
                // the on-chain flags describe the winning chain: set on 1, 2, 3'..12', cleared on the abandoned 3..11
                let bc = t.blockchain_lock.read().await;
                let wrong_on: Vec<u64> = main.iter().skip(1).filter(|b| bc.blocks.get(&b.hash).map(|x| x.in_longest_chain).unwrap_or(false)).map(|b| b.id).collect();
                let wrong_off: Vec<u64> = fork.iter().filter(|b| !bc.blocks.get(&b.hash).map(|x| x.in_longest_chain).unwrap_or(false)).map(|b| b.id).collect();
                if !wrong_on.is_empty() || !wrong_off.is_empty() {
                    let _ = tx_done.send(Some(format!("main chain 1..11, fork 3'..12' on block 2 adopted (tip {}): abandoned blocks {:?} are still flagged on-chain, adopted blocks {:?} are not", bc.get_latest_block_id(), wrong_on, wrong_off)));
                    return;
                }
            }
            // a second node that only ever sees the winning chain
            let mut t2 = TestManager::default();
            // (blocks travel the way they do between nodes: local flags such as in_longest_chain do not)
            let wire = |b: &Block| -> Block { Block::deserialize_from_net(&b.serialize_for_net(BlockType::Full)).unwrap() };
            let _ = t2.add_block(wire(&genesis)).await;
            let _ = t2.add_block(wire(&main[0])).await;
            for b in fork.iter() { let _ = t2.add_block(wire(b)).await; }
            if t2.blockchain_lock.read().await.get_latest_block_hash() != prev { panic!("setup: the second node did not follow the winning chain"); }
            let a = ledger_snapshot(&t, 12).await;
            let b = ledger_snapshot(&t2, 12).await;
            if std::env::var("VERIF_TRACE").is_ok() { println!("TRACE pruned {:?}; spendable {} vs {}", pruned, a.spendable.len(), b.spendable.len()); }
            if a.spendable != b.spendable || a.chain != b.chain {
                let only_a = a.spendable.iter().filter(|k| !b.spendable.contains(k)).count();
                let only_b = b.spendable.iter().filter(|k| !a.spendable.contains(k)).count();
                let _ = tx_done.send(Some(format!("main chain 1..11 (blocks {:?} pruned to headers), fork 3'..12' on block 2 adopted: the spendable set differs from a replay of the winning chain — {} output(s) spendable here but not in the replay, {} the other way round; by-height index equal: {}",
                    pruned, only_a, only_b, a.chain == b.chain)));
                return;
            }
            let _ = tx_done.send(None);
        });
    });
    match rx_done.recv_timeout(std::time::Duration::from_secs(240)) {
        Ok(None) => {}
        Ok(Some(w)) => witness(w),
        Err(_) => panic!("scenario did not finish within 240 s"),
    }
}

/// C01 / C02: the type field of a transaction is the sender's (or the block producer's) choice. A full block that
/// carries an SPV-typed transaction with an output and no inputs must not put that output into the spendable set.
#[test]
#[serial_test::serial]
fn placeholder_typed_transaction_creates_no_output() { privileged_type_scenario(TransactionType::SPV, false, 1) }

/// C01: one issuance-typed transaction after block 1; one ATR-typed transaction the block's own rebroadcast computation
/// does not produce (paying an ordinary output)
#[test]
#[serial_test::serial]
fn issuance_typed_transaction_after_block_one_creates_no_output() { privileged_type_scenario(TransactionType::Issuance, false, 1) }
#[test]
#[serial_test::serial]
fn unexpected_atr_typed_transaction_creates_no_output() { privileged_type_scenario(TransactionType::ATR, false, 1) }

/// C01: 256 issuance-typed (257 fee-typed) transactions in one block — the counters the block rules look at are bytes
#[test]
#[serial_test::serial]
fn many_issuance_typed_transactions_create_no_output() { privileged_type_scenario(TransactionType::Issuance, false, 256) }
#[test]
#[serial_test::serial]
fn many_fee_typed_transactions_create_no_output() { privileged_type_scenario(TransactionType::Fee, false, 257) }

/// C01 / C02: the same for a Fee-typed transaction that the block's own payout computation does not produce (no golden
/// ticket in the block, so nothing is paid out), and for a second Fee-typed transaction next to the genuine one
#[test]
#[serial_test::serial]
fn unexpected_fee_typed_transaction_creates_no_output() { privileged_type_scenario(TransactionType::Fee, false, 1) }
#[test]
#[serial_test::serial]
fn second_fee_typed_transaction_creates_no_output() { privileged_type_scenario(TransactionType::Fee, true, 1) }

fn privileged_type_scenario(ttype: TransactionType, with_ticket: bool, copies: usize) {
    let (tx_done, rx_done) = std::sync::mpsc::channel::<Option<String>>();
    std::thread::spawn(move || {
        let rt = tokio::runtime::Builder::new_current_thread().enable_all().build().unwrap();
        rt.block_on(async move {
            use crate::core::consensus::slip::Slip;
            let mut t = TestManager::default();
            t.initialize(100, 200_000_000_000_000).await;
            let (b1, ts) = { let bc = t.blockchain_lock.read().await; let b = bc.get_latest_block().unwrap(); (b.hash, b.timestamp) };
            let (pk, sk) = { let w = t.wallet_lock.read().await; (w.public_key, w.private_key) };
            let mut b2 = t.create_block(b1, ts + 120000, 1, 0, 0, if ttype == TransactionType::SPV { true } else { with_ticket }).await;
            let mut minted = Transaction::default();
            minted.transaction_type = ttype;
            let mut o = Slip::default(); o.public_key = pk; o.amount = 1_000_000; minted.add_to_slip(o);
            minted.sign(&sk);
            for extra in 1..copies { let mut m = minted.clone(); m.timestamp = extra as u64; m.sign(&sk); b2.transactions.push(m); }
            if ttype == TransactionType::Fee && with_ticket { b2.transactions.insert(0, minted); } else { b2.transactions.push(minted); }
            let minted_at = if ttype == TransactionType::Fee && with_ticket { 0 } else { b2.transactions.len() as u64 - 1 };
            b2.merkle_root = [0; 32];
            b2.generate().unwrap();
            b2.sign(&sk);
            b2.generate().unwrap();
            let h2 = b2.hash;
            let n_tx = b2.transactions.len() as u64;
            let types: Vec<String> = b2.transactions.iter().map(|tx| format!("{:?}", tx.transaction_type)).collect();
            let before = { let bc = t.blockchain_lock.read().await; bc.utxoset.iter().filter(|(_, v)| **v).count() };
            let _ = t.add_block(b2).await;
            let bc = t.blockchain_lock.read().await;
            let accepted = bc.get_latest_block_hash() == h2;
            let mut probe = Slip::default(); probe.public_key = pk; probe.amount = 1_000_000; probe.block_id = 2; probe.tx_ordinal = minted_at; probe.slip_index = 0; let _ = n_tx;
            probe.generate_utxoset_key();
            let present = bc.utxoset.get(&probe.utxoset_key).copied();
            let after = bc.utxoset.iter().filter(|(_, v)| **v).count();
            if accepted && present == Some(true) {
                let _ = tx_done.send(Some(format!("a block carrying {} {:?}-typed transaction(s) with no inputs and a 1000000-nolan output each (the block's other transactions: {:?}) became the tip and the output is spendable (spendable outputs {} → {})", copies, ttype, types.iter().filter(|x| **x != format!("{:?}", ttype)).collect::<Vec<_>>(), before, after)));
                return;
            }
            if std::env::var("VERIF_TRACE").is_ok() { println!("TRACE accepted {} output {:?} spendable {} -> {}", accepted, present, before, after); }
            let _ = tx_done.send(None);
        });
    });
    match rx_done.recv_timeout(std::time::Duration::from_secs(120)) {
        Ok(None) => {}
        Ok(Some(w)) => witness(w),
        Err(_) => { use std::io::Write; let _ = writeln!(std::io::stderr(), "WITNESS: adding a block that carries {} {:?}-typed transaction(s) with no inputs and a 1000000-nolan output each did not return (the node aborted)", copies, ttype); panic!("scenario did not finish"); }
    }
}

/// C11 (verification thread): whatever block buffer a peer serves, VerificationThread::verify_block returns — here a
/// well-formed block whose first transaction names the same output twice, a truncated buffer, and a buffer whose block
/// does not match the announced hash.
#[test]
#[serial_test::serial]
fn fetched_block_buffers_never_stop_the_verification_thread() {
    use crate::core::verification_thread::VerificationThread;
    use crate::core::defs::StatVariable;
    use crate::core::consensus::peers::peer_collection::PeerCollection;
    let (tx_done, rx_done) = std::sync::mpsc::channel::<Option<String>>();
    std::thread::spawn(move || {
        let rt = tokio::runtime::Builder::new_current_thread().enable_all().build().unwrap();
        rt.block_on(async move {
            let mut t = TestManager::default();
            t.initialize(100, 200_000_000_000_000).await;
            let (b1, ts) = { let bc = t.blockchain_lock.read().await; let b = bc.get_latest_block().unwrap(); (b.hash, b.timestamp) };
            let sk = { t.wallet_lock.read().await.private_key };
            let mut honest = t.create_block(b1, ts + 120000, 1, 0, 0, true).await; honest.generate().unwrap();
            let honest_buffer = honest.serialize_for_net(BlockType::Full);
            let mut b2 = t.create_block(b1, ts + 120000, 1, 1000, 0, true).await;
            // the block's first transaction names the same output twice
            let k = b2.transactions.iter().position(|tx| tx.transaction_type == TransactionType::Normal && tx.from.iter().any(|s| s.amount > 0)).unwrap();
            let mut twice = b2.transactions.remove(k);
            let dup = twice.from.iter().find(|s| s.amount > 0).unwrap().clone();
            twice.from.push(dup);
            twice.sign(&sk);
            b2.transactions.insert(0, twice);
            b2.merkle_root = [0; 32];
            b2.created_hashmap_of_slips_spent_this_block = false;
            let _ = b2.generate();
            b2.sign(&sk);
            let _ = b2.generate();
            let good_buffer = b2.serialize_for_net(BlockType::Full);
            if std::env::var("VERIF_TRACE").is_ok() {
                let mut d = Block::deserialize_from_net(&good_buffer).unwrap();
                let r = d.generate();
                println!("TRACE txs {} generate -> {:?}; types {:?}", d.transactions.len(), r.is_ok(), d.transactions.iter().map(|t| (t.transaction_type, t.from.iter().map(|s| (s.amount, s.block_id, s.tx_ordinal, s.slip_index)).collect::<Vec<_>>())).collect::<Vec<_>>());
            }
            let (stat_tx, _stat_rx) = tokio::sync::mpsc::channel::<String>(100);
            let (cons_tx, mut cons_rx) = tokio::sync::mpsc::channel(100);
            let mut vt = VerificationThread {
                sender_to_consensus: cons_tx,
                blockchain_lock: t.blockchain_lock.clone(),
                peer_lock: {
                    let mut pc = PeerCollection::default();
                    pc.index_to_peers.insert(1, crate::core::consensus::peers::peer::Peer::new(1));
                    std::sync::Arc::new(tokio::sync::RwLock::new(pc))
                },
                wallet_lock: t.wallet_lock.clone(),
                processed_txs: StatVariable::new("a".into(), 10, stat_tx.clone()),
                processed_blocks: StatVariable::new("b".into(), 10, stat_tx.clone()),
                processed_msgs: StatVariable::new("c".into(), 10, stat_tx.clone()),
                invalid_txs: StatVariable::new("d".into(), 10, stat_tx.clone()),
                stat_sender: stat_tx.clone(),
            };
            // (what, buffer, announced hash, announced id, must it reach the consensus thread?)
            let cases: Vec<(&str, Vec<u8>, SaitoHash, u64, bool)> = vec![
                ("a truncated block buffer", honest_buffer[..honest_buffer.len() / 2].to_vec(), honest.hash, 2, false),
                ("a block that does not carry the announced hash", honest_buffer.clone(), [9u8; 32], 2, false),
                ("a block that does not carry the announced id", honest_buffer.clone(), honest.hash, 3, false),
                ("a valid block under its own hash", honest_buffer.clone(), honest.hash, 2, true),
                ("a well-formed block whose first transaction names the same output twice", good_buffer.clone(), b2.hash, 2, false),
            ];
            for (what, buffer, hash, id, expect_forward) in cases {
                let charged_before = format!("{:?}", vt.peer_lock.read().await.index_to_peers.get(&1).unwrap().invalid_block_limiter);
                let r = std::panic::AssertUnwindSafe(vt.verify_block(&buffer, 1, hash, id));
                let r = futures::FutureExt::catch_unwind(r).await;
                if r.is_err() {
                    let _ = tx_done.send(Some(format!("VerificationThread::verify_block panicked on {} ({} bytes) served by a peer — the verification thread is gone", what, buffer.len())));
                    return;
                }
                let charged_after = format!("{:?}", vt.peer_lock.read().await.index_to_peers.get(&1).unwrap().invalid_block_limiter);
                let mut forwarded = 0;
                while cons_rx.try_recv().is_ok() { forwarded += 1; }
                if forwarded > 0 && !expect_forward { let _ = tx_done.send(Some(format!("{} was handed to the consensus thread", what))); return; }
                if forwarded == 0 && expect_forward { let _ = tx_done.send(Some(format!("{} was not handed to the consensus thread", what))); return; }
                if forwarded == 0 && charged_after == charged_before { let _ = tx_done.send(Some(format!("{} was dropped without being counted against the peer that served it", what))); return; }
            }
            // every proper prefix of a valid block buffer: dropped, charged, no panic
            for cut in 0..honest_buffer.len() {
                let r = futures::FutureExt::catch_unwind(std::panic::AssertUnwindSafe(vt.verify_block(&honest_buffer[..cut], 1, honest.hash, 2))).await;
                if r.is_err() { let _ = tx_done.send(Some(format!("VerificationThread::verify_block panicked on the first {} bytes of a valid {}-byte block buffer", cut, honest_buffer.len()))); return; }
                if cons_rx.try_recv().is_ok() { let _ = tx_done.send(Some(format!("the first {} bytes of a valid block buffer were handed to the consensus thread as a block", cut))); return; }
            }
            // a signed transaction whose slip amounts are close to u64::MAX
            {
                use crate::core::consensus::slip::Slip;
                let (pk, sk) = { let w = t.wallet_lock.read().await; (w.public_key, w.private_key) };
                let mut huge = Transaction::default();
                for k in 0..2u64 { let mut i = Slip::default(); i.public_key = pk; i.amount = u64::MAX - 10; i.block_id = 1; i.tx_ordinal = 900 + k; huge.add_from_slip(i); }
                let mut o = Slip::default(); o.public_key = pk; o.amount = u64::MAX - 5; huge.add_to_slip(o.clone()); huge.add_to_slip(o);
                huge.sign(&sk);
                let r = futures::FutureExt::catch_unwind(std::panic::AssertUnwindSafe(vt.verify_tx(huge))).await;
                if r.is_err() { let _ = tx_done.send(Some("VerificationThread::verify_tx panicked on a signed transaction with two inputs and two outputs of about u64::MAX each".to_string())); return; }
                if cons_rx.try_recv().is_ok() { let _ = tx_done.send(Some("a transaction spending two non-existent outputs of about u64::MAX each was handed to the consensus thread".to_string())); return; }
            }
            // transactions: only what Transaction::validate accepts goes on to the consensus thread
            let good_tx = honest.transactions.iter().find(|tx| tx.transaction_type == TransactionType::Normal).unwrap().clone();
            let mut bad_tx = good_tx.clone(); bad_tx.signature = [3u8; 64];
            // transactions of the types only a block may generate, sent loose by a peer
            let mut loose: Vec<(String, Transaction, bool)> = vec![];
            for ty in [TransactionType::Fee, TransactionType::Issuance, TransactionType::ATR, TransactionType::SPV] {
                use crate::core::consensus::slip::Slip;
                let (pk, sk) = { let w = t.wallet_lock.read().await; (w.public_key, w.private_key) };
                let mut x = Transaction::default();
                x.transaction_type = ty;
                if ty != TransactionType::SPV { let mut o = Slip::default(); o.public_key = pk; o.amount = 1_000_000; x.add_to_slip(o); }
                x.sign(&sk);
                loose.push((format!("a loose {:?}-typed transaction without inputs{}", ty, if ty != TransactionType::SPV { " paying 1000000 nolan" } else { "" }), x, false));
            }
            loose.push(("a transaction with a forged signature".to_string(), bad_tx, false));
            loose.push(("a valid transaction".to_string(), good_tx, true));
            for (what, tx, expect_forward) in loose {
                let what = what.as_str();
                let r = futures::FutureExt::catch_unwind(std::panic::AssertUnwindSafe(vt.verify_tx(tx))).await;
                if r.is_err() { let _ = tx_done.send(Some(format!("VerificationThread::verify_tx panicked on {}", what))); return; }
                let mut forwarded = 0;
                while cons_rx.try_recv().is_ok() { forwarded += 1; }
                if (forwarded > 0) != expect_forward { let _ = tx_done.send(Some(format!("{} was {}handed to the consensus thread", what, if expect_forward { "not " } else { "" }))); return; }
            }
            let _ = tx_done.send(None);
        });
    });
    match rx_done.recv_timeout(std::time::Duration::from_secs(120)) {
        Ok(None) => {}
        Ok(Some(w)) => witness(w),
        Err(_) => panic!("scenario did not finish"),
    }
}

/// C10 / C11: a block whose golden-ticket transaction carries a payload that is not a golden ticket is refused — the
/// node neither aborts nor adopts it (payload sizes 0, 10, 96, 98, 200)
#[test]
#[serial_test::serial]
fn block_with_a_malformed_golden_ticket_is_refused() {
    let (tx_done, rx_done) = std::sync::mpsc::channel::<Option<String>>();
    std::thread::spawn(move || {
        let rt = tokio::runtime::Builder::new_current_thread().enable_all().build().unwrap();
        rt.block_on(async move {
            for len in [0usize, 10, 96, 98, 200] {
                let mut t = TestManager::default();
                t.initialize(100, 200_000_000_000_000).await;
                let (b1, ts) = { let bc = t.blockchain_lock.read().await; let b = bc.get_latest_block().unwrap(); (b.hash, b.timestamp) };
                let sk = { t.wallet_lock.read().await.private_key };
                let mut b2 = t.create_block(b1, ts + 120000, 1, 0, 0, true).await;
                let k = b2.transactions.iter().position(|tx| tx.transaction_type == TransactionType::GoldenTicket).expect("setup: block has a golden ticket");
                b2.transactions[k].data = vec![7u8; len];
                b2.transactions[k].sign(&sk);
                b2.merkle_root = [0; 32];
                let _ = b2.generate();
                b2.sign(&sk);
                let _ = b2.generate();
                let h2 = b2.hash;
                let r = futures::FutureExt::catch_unwind(std::panic::AssertUnwindSafe(t.add_block(b2))).await;
                if r.is_err() { let _ = tx_done.send(Some(format!("adding a block whose golden-ticket transaction carries a {}-byte payload aborted the node", len))); return; }
                if t.blockchain_lock.read().await.get_latest_block_hash() == h2 { let _ = tx_done.send(Some(format!("a block whose golden-ticket transaction carries a {}-byte payload became the tip", len))); return; }
            }
            let _ = tx_done.send(None);
        });
    });
    match rx_done.recv_timeout(std::time::Duration::from_secs(120)) {
        Ok(None) => {}
        Ok(Some(w)) => witness(w),
        Err(_) => { use std::io::Write; let _ = writeln!(std::io::stderr(), "WITNESS: adding a block with a malformed golden-ticket payload did not return (the node aborted)"); panic!("scenario did not finish"); }
    }
}

/// C03/C05: the id a block is filed under is its height. An otherwise ordinary child of the tip that claims another id
/// (re-signed by its producer) is never adopted: whatever id it claims, afterwards the by-height index, the reported tip
/// and the spendable outputs still describe the chain of ancestors of the tip
#[tokio::test]
#[serial_test::serial]
async fn block_claiming_another_height_than_its_parents_plus_one_is_refused() {
    let mut rng = Rng::from_env();
    let mut claims: Vec<u64> = vec![1, 2, 4, 7, 200, 201, 202, 301, u64::MAX];
    for _ in 0..3 { claims.push(4 + rng.below(400)); }
    for claimed in claims {
        let mut t = TestManager::default();
        t.initialize(100, 200_000_000_000_000).await;
        let (g1, ts) = { let bc = t.blockchain_lock.read().await; let b = bc.get_latest_block().unwrap(); (b.hash, b.timestamp) };
        let mut b2 = t.create_block(g1, ts + 120000, 1, 1000, 0, true).await; b2.generate().unwrap(); let b2h = b2.hash;
        t.add_block(b2).await;
        let mut x = t.create_block(b2h, ts + 240000, 1, 1000, 0, false).await;
        let before = ledger_snapshot(&t, 3).await;   // (building the block has reserved the wallet outputs it spends)
        assert_eq!(x.id, 3, "harness: the honest child of block 2 has id 3");
        x.id = claimed;
        x.merkle_root = [0; 32];
        x.generate().unwrap();
        { let w = t.wallet_lock.read().await; x.sign(&w.private_key); }
        x.generate().unwrap();
        let xh = x.hash;
        let _ = t.add_block(x).await;
        let mut after = ledger_snapshot(&t, 3).await;
        after.stored = before.stored;
        after.flags.retain(|(h, _)| *h != xh);
        if after != before {
            let bc = t.blockchain_lock.read().await;
            let what = if after.tip != before.tip { "tip" } else if after.ring_tip != before.ring_tip { "index tip" } else if after.chain != before.chain { "by-height index" }
                else if after.flags != before.flags { "on-chain flags" } else if after.spendable != before.spendable { "spendable outputs" } else { "wallet" };
            witness(format!("chain G1<-B2; a child of B2 that claims id {} (signed by its producer) was offered ({} differ): ring tip {:?}→{:?}, wallet {:?}→{:?}, tip {:?}→{:?}, by-height index 1..3 {:?}→{:?}, spendable outputs {}→{}, genesis block still stored: {}",
                claimed, what, before.ring_tip.0, after.ring_tip.0, before.wallet, after.wallet, before.tip.0, after.tip.0, before.chain.iter().map(|h| h.is_some()).collect::<Vec<_>>(), after.chain.iter().map(|h| h.is_some()).collect::<Vec<_>>(),
                before.spendable.len(), after.spendable.len(), bc.blocks.contains_key(&g1)));
        }
    }
}

/// C01 ("belongs to the key whose signature authorises the transaction"): a payment its owner signed once must not be
/// accepted a second time with its input rewritten to another output of the same owner (scenario of an independent
/// audit; the signed bytes of an input leave out block id and transaction ordinal — known finding)
#[tokio::test]
#[serial_test::serial]
async fn signed_payment_cannot_be_replayed_against_another_output_of_the_payer() {
    #[allow(unused_imports)] use std::ops::Deref;
    #[allow(unused_imports)] use crate::core::util::crypto::generate_keys;
    use crate::core::consensus::transaction::Transaction;
    use ahash::AHashMap;

    let mut t = TestManager::default();
    t.initialize(100, 200_000_000_000_000).await;

    let (alice_key, alice_private_key) = {
        let wallet = t.wallet_lock.read().await;
        (wallet.public_key, wallet.private_key)
    };
    let (bob_key, bob_private_key) = generate_keys();

    // two different unspent outputs of Alice (same amount, same slip index, different transaction)
    let (first, second) = {
        let blockchain = t.blockchain_lock.read().await;
        let mut slips = blockchain.get_slips_for(alice_key);
        slips.sort_by_key(|slip| slip.tx_ordinal);
        (slips[3].clone(), slips[4].clone())
    };
    assert_ne!(first.utxoset_key, second.utxoset_key);
    let amount = first.amount;

    // Alice pays Bob ONCE, spending `first`, and signs that
    let mut payment = Transaction::default();
    payment.timestamp = t.get_latest_block().await.timestamp + 1;
    payment.add_from_slip(first.clone());
    let mut output = Slip::default();
    output.public_key = bob_key;
    output.amount = amount;
    payment.add_to_slip(output);
    payment.sign(&alice_private_key);
    payment.generate(&alice_key, 0, 0);

    // block 2 (by Alice) carries the payment
    {
        let parent = t.get_latest_block().await;
        let block = {
            let configs = t.config_lock.read().await;
            let blockchain = t.blockchain_lock.read().await;
            let mut txs: AHashMap<_, _> = Default::default();
            txs.insert(payment.signature, payment.clone());
            Block::create(
                &mut txs,
                parent.hash,
                &blockchain,
                parent.timestamp + 120_000,
                &alice_key,
                &alice_private_key,
                None,
                configs.deref(),
                &t.storage,
            )
            .await
            .unwrap()
        };
        let result = t.add_block(block).await;
        assert!(
            matches!(result, AddBlockResult::BlockAddedSuccessfully(_, true, _)),
            "sanity: the honest payment is accepted, got {:?}",
            result
        );
    }
    {
        let blockchain = t.blockchain_lock.read().await;
        assert!(blockchain.utxoset.get(&first.utxoset_key) != Some(&true));
        assert!(blockchain.utxoset.get(&second.utxoset_key) == Some(&true));
    }

    // Bob takes the transaction off the chain and only rewrites WHICH output it spends.
    // he has no key of Alice and does not re-sign anything.
    let mut replay = payment.clone();
    replay.from[0].block_id = second.block_id;
    replay.from[0].tx_ordinal = second.tx_ordinal;
    replay.generate(&bob_key, 0, 0);
    assert_eq!(replay.signature, payment.signature);
    assert_eq!(replay.from[0].utxoset_key, second.utxoset_key);

    // transaction pool
    let pool_accepted = {
        let blockchain = t.blockchain_lock.read().await;
        let mut mempool = t.mempool_lock.write().await;
        mempool
            .add_transaction_if_validates(replay.clone(), &blockchain)
            .await;
        let accepted = mempool.transactions.contains_key(&replay.signature);
        mempool.transactions.clear();
        mempool.utxo_map.clear();
        accepted
    };

    // block validation: block 3 (by Bob) carries the replay
    let result = {
        let parent = t.get_latest_block().await;
        let block = {
            let configs = t.config_lock.read().await;
            let blockchain = t.blockchain_lock.read().await;
            let mut txs: AHashMap<_, _> = Default::default();
            txs.insert(replay.signature, replay.clone());
            Block::create(
                &mut txs,
                parent.hash,
                &blockchain,
                parent.timestamp + 120_000,
                &bob_key,
                &bob_private_key,
                None,
                configs.deref(),
                &t.storage,
            )
            .await
            .unwrap()
        };
        t.add_block(block).await
    };
    let block_accepted = matches!(result, AddBlockResult::BlockAddedSuccessfully(_, true, _));

    let blockchain = t.blockchain_lock.read().await;
    let bob_balance: u64 = blockchain
        .get_slips_for(bob_key)
        .iter()
        .map(|slip| slip.amount)
        .sum();
    let second_still_unspent = blockchain.utxoset.get(&second.utxoset_key) == Some(&true);
    if !(!pool_accepted && !block_accepted && second_still_unspent) { witness(format!(
        "an output whose owner never authorised its spending was spent: the one payment Alice signed (spending output 1-{}-0) was re-submitted by the payee with its input rewritten to her output 1-{}-0 and no new signature (the signed bytes do not say which output is spent); pool admitted it = {}, add_block -> {:?}, output still unspent = {}, Bob owns {} nolan after a single signed payment of {}",
        first.tx_ordinal, second.tx_ordinal, pool_accepted, result, second_still_unspent, bob_balance, amount
    )); }
}

/// C06: a signed full block does not stay valid when one of its transactions is replaced, after signing, by an empty
/// placeholder carrying that transaction's hash (the placeholder supplies its own merkle leaf) — scenario of an independent audit
#[tokio::test]
#[serial_test::serial]
async fn transaction_of_a_signed_block_cannot_be_swapped_for_a_placeholder() {
    #[allow(unused_imports)] use std::ops::Deref;
    #[allow(unused_imports)] use crate::core::util::crypto::generate_keys;
    #[allow(unused_imports)] use ahash::AHashMap;
    use crate::core::consensus::block::BlockType;
    use crate::core::util::configuration::Configuration;
    use crate::core::consensus::transaction::{Transaction, TransactionType};

    let mut t = TestManager::default();
    t.initialize(100, 200_000_000_000_000).await;

    let (block1_hash, ts) = {
        let blockchain = t.blockchain_lock.read().await;
        let block1 = blockchain.get_latest_block().unwrap();
        (block1.hash, block1.timestamp)
    };

    // the honest block 2 : three zero-fee payments (1000, 2000 and 3000 nolan), created and signed by the
    // node's key. it is NOT added to the chain : the node under test only ever sees edited copies of it.
    let block2 = {
        let configs = t.config_lock.read().await;
        let (public_key, private_key) = {
            let wallet = t.wallet_lock.read().await;
            (wallet.public_key, wallet.private_key)
        };
        let mut transactions: ahash::AHashMap<crate::core::defs::SaitoSignature, Transaction> =
            Default::default();
        for amount in [1000u64, 2000, 3000] {
            let mut wallet = t.wallet_lock.write().await;
            let mut tx = Transaction::create(
                &mut wallet,
                public_key,
                amount,
                0,
                false,
                None,
                1,
                configs.get_consensus_config().unwrap().genesis_period,
            )
            .unwrap();
            tx.sign(&private_key);
            tx.generate(&public_key, 0, 0);
            transactions.insert(tx.signature, tx);
        }
        let blockchain = t.blockchain_lock.read().await;
        let mut block = Block::create(
            &mut transactions,
            block1_hash,
            &blockchain,
            ts + 120000,
            &public_key,
            &private_key,
            None,
            configs.deref(),
            &t.storage,
        )
        .await
        .unwrap();
        block.generate().unwrap();
        block.sign(&private_key);
        block
    };
    let original_hash = block2.hash;
    let original_merkle_root = block2.merkle_root;
    let original_tx_count = block2.transactions.len();
    assert_eq!(original_tx_count, 3);
    assert!(block2
        .transactions
        .iter()
        .all(|tx| tx.transaction_type == TransactionType::Normal));
    assert!(!t.config_lock.read().await.is_spv_mode());
    assert!(!t.config_lock.read().await.is_browser());

    let wire = block2.serialize_for_net(BlockType::Full);

    // the victim : the last transaction of the block
    let victim_index = original_tx_count - 1;
    let victim = block2.transactions[victim_index].clone();
    let victim_hash = victim.hash_for_signature.unwrap();
    let victim_output_key = {
        // the key of the output the victim transaction creates, as a full node files it
        let mut copy = Block::deserialize_from_net(&wire).unwrap();
        copy.generate().unwrap();
        copy.transactions[victim_index].to[0].utxoset_key
    };

    // control : the same block with the victim transaction simply dropped has the same hash (the hash
    // is taken over the header) and is rejected, because the merkle root no longer matches
    {
        let mut dropped = Block::deserialize_from_net(&wire).unwrap();
        dropped.transactions.remove(victim_index);
        let mut dropped =
            Block::deserialize_from_net(&dropped.serialize_for_net(BlockType::Full)).unwrap();
        dropped.generate().unwrap();
        assert_eq!(dropped.hash, original_hash);
        let result = t.add_block(dropped).await;
        assert!(
            matches!(result, AddBlockResult::FailedNotValid),
            "control : a copy of block 2 with a transaction dropped must be rejected"
        );
        let blockchain = t.blockchain_lock.read().await;
        assert_eq!(blockchain.get_latest_block_hash(), block1_hash);
        assert!(blockchain.get_block(&original_hash).is_none());
    }

    // hostile edit by a third party that holds no key : replace the victim transaction by an SPV
    // placeholder that carries the victim's hash in the first half of its signature field
    let mut edited = Block::deserialize_from_net(&wire).unwrap();
    let mut placeholder = Transaction::default();
    placeholder.transaction_type = TransactionType::SPV;
    placeholder.txs_replacements = 1;
    placeholder.timestamp = victim.timestamp;
    placeholder.signature[0..32].copy_from_slice(&victim_hash);
    edited.transactions[victim_index] = placeholder;
    let edited_wire = edited.serialize_for_net(BlockType::Full);
    assert_ne!(edited_wire, wire);

    // what the receiving node does with the bytes
    let mut received = Block::deserialize_from_net(&edited_wire).unwrap();
    received.generate().unwrap();
    assert_eq!(received.hash, original_hash, "the edit keeps the block hash");
    assert_eq!(received.merkle_root, original_merkle_root);
    assert_eq!(received.transactions.len(), original_tx_count);
    assert_eq!(
        received.transactions[victim_index].transaction_type,
        TransactionType::SPV
    );
    assert!(received.transactions[victim_index].to.is_empty());

    let result = t.add_block(received).await;

    let (accepted, in_chain_tx_type, victim_output_exists) = {
        let blockchain = t.blockchain_lock.read().await;
        let accepted = matches!(result, AddBlockResult::BlockAddedSuccessfully(_, _, _))
            && blockchain.get_latest_block_hash() == original_hash;
        let tx_type = blockchain
            .get_block(&original_hash)
            .map(|b| b.transactions[victim_index].transaction_type);
        let exists = blockchain.utxoset.contains_key(&victim_output_key);
        (accepted, tx_type, exists)
    };

    if !(!accepted) { witness(format!("full node accepted block 2 (hash {}) as the tip of its chain although its transaction #{} (a signed transaction with outputs worth {} nolan, hash {}) had been replaced after signing by an empty SPV placeholder (stored type {:?}, victim output in utxoset: {}): the merkle root still matched because the placeholder supplies its own leaf hash, so two different transaction lists are accepted under one block hash",
        original_hash.to_hex(),
        victim_index,
        victim.total_out,
        victim_hash.to_hex(),
        in_chain_tx_type,
        victim_output_exists)); }
}

/// C06: the routing paths of the transactions a signed block carries belong to its content: rewriting one with keys of one's
/// own must change the block's identity or be refused (known finding: hops are in no commitment) — scenario of an independent audit
#[tokio::test]
#[serial_test::serial]
async fn routing_path_of_a_signed_block_cannot_be_rewritten() {
    #[allow(unused_imports)] use std::ops::Deref;
    #[allow(unused_imports)] use crate::core::util::crypto::generate_keys;
    #[allow(unused_imports)] use ahash::AHashMap;
    use crate::core::consensus::block::BlockType;
    use crate::core::consensus::transaction::{Transaction, TransactionType};
    use crate::core::util::configuration::Configuration;

    let (sender_public, sender_private) = generate_keys(); // A : pays the fee
    let (router_public, router_private) = generate_keys(); // B : the honest routing node
    let (mallory_public, mallory_private) = generate_keys(); // M  : third party
    let (mallory2_public, mallory2_private) = generate_keys(); // M2 : a second key of the third party

    let mut t = TestManager::default();
    let mut slip = Slip::default();
    slip.public_key = sender_public;
    slip.amount = 1_000_000;
    t.initialize_from_slips_and_value(vec![slip], 200_000_000_000_000)
        .await;

    let (creator_public, creator_private) = {
        let wallet = t.wallet_lock.read().await;
        (wallet.public_key, wallet.private_key)
    };
    let (block1_hash, ts, sender_output) = {
        let blockchain = t.blockchain_lock.read().await;
        let block1 = blockchain.get_latest_block().unwrap();
        let output = block1
            .transactions
            .iter()
            .flat_map(|tx| tx.to.iter())
            .find(|s| s.public_key == sender_public)
            .unwrap()
            .clone();
        (block1.hash, block1.timestamp, output)
    };
    assert_eq!(sender_output.amount, 1_000_000);
    assert!(!t.config_lock.read().await.is_spv_mode());

    // A pays a fee of 1000 nolan; the transaction travels A -> B -> creator
    let mut tx = Transaction::default();
    tx.timestamp = ts + 1000;
    tx.from.push(sender_output.clone());
    let mut output = Slip::default();
    output.public_key = sender_public;
    output.amount = 999_000;
    tx.to.push(output);
    tx.sign(&sender_private);
    tx.add_hop(&sender_private, &sender_public, &router_public);
    tx.add_hop(&router_private, &router_public, &creator_public);
    tx.generate(&creator_public, 0, 0);
    assert_eq!(tx.total_fees, 1000);
    assert!(tx.validate_routing_path());

    // honest block 2 carrying that transaction; NOT added to the chain of the node under test
    let block2 = {
        let configs = t.config_lock.read().await;
        let mut transactions: ahash::AHashMap<crate::core::defs::SaitoSignature, Transaction> =
            Default::default();
        transactions.insert(tx.signature, tx.clone());
        let blockchain = t.blockchain_lock.read().await;
        let mut block = Block::create(
            &mut transactions,
            block1_hash,
            &blockchain,
            ts + 120000,
            &creator_public,
            &creator_private,
            None,
            configs.deref(),
            &t.storage,
        )
        .await
        .unwrap();
        block.generate().unwrap();
        block.sign(&creator_private);
        block
    };
    let original_hash = block2.hash;
    let tx_index = block2
        .transactions
        .iter()
        .position(|t| t.transaction_type == TransactionType::Normal)
        .unwrap();
    assert_eq!(block2.transactions[tx_index].path.len(), 2);
    assert_eq!(block2.total_fees, 1000);
    let original_work = block2.total_work;
    assert_eq!(original_work, 500);
    // with the lottery number 0 the first routing node of the path wins : B
    let original_winner = block2.transactions[tx_index].get_winning_routing_node([0; 32]);
    assert_eq!(original_winner, router_public);

    let wire = block2.serialize_for_net(BlockType::Full);

    // control : an edit of a part the header does commit to (one byte of the amount of the output)
    // keeps the block hash and is rejected
    {
        let mut tampered = Block::deserialize_from_net(&wire).unwrap();
        tampered.transactions[tx_index].to[0].amount -= 1;
        let mut tampered =
            Block::deserialize_from_net(&tampered.serialize_for_net(BlockType::Full)).unwrap();
        tampered.generate().unwrap();
        assert_eq!(tampered.hash, original_hash);
        let result = t.add_block(tampered).await;
        assert!(
            matches!(result, AddBlockResult::FailedNotValid),
            "control : a copy of block 2 with an output amount changed must be rejected"
        );
        let blockchain = t.blockchain_lock.read().await;
        assert_eq!(blockchain.get_latest_block_hash(), block1_hash);
    }

    // hostile edit, needs none of the keys of A, B or the creator : the path A -> B -> creator is replaced
    // by M2 -> M -> creator, each hop signed by the third party's own keys
    let mut edited = Block::deserialize_from_net(&wire).unwrap();
    {
        let tx = &mut edited.transactions[tx_index];
        tx.path.clear();
        tx.add_hop(&mallory2_private, &mallory2_public, &mallory_public);
        tx.add_hop(&mallory_private, &mallory_public, &creator_public);
    }
    let edited_wire = edited.serialize_for_net(BlockType::Full);
    assert_ne!(edited_wire, wire);
    assert_eq!(edited_wire.len(), wire.len());

    let mut received = Block::deserialize_from_net(&edited_wire).unwrap();
    received.generate().unwrap();
    assert_eq!(received.hash, original_hash, "the edit keeps the block hash");
    assert_eq!(received.total_work, original_work);

    let result = t.add_block(received).await;

    let (accepted, stored_winner) = {
        let blockchain = t.blockchain_lock.read().await;
        let accepted = matches!(result, AddBlockResult::BlockAddedSuccessfully(_, _, _))
            && blockchain.get_latest_block_hash() == original_hash;
        let winner = blockchain
            .get_block(&original_hash)
            .map(|b| b.transactions[tx_index].get_winning_routing_node([0; 32]));
        (accepted, winner)
    };

    if !(!accepted) { witness(format!("full node accepted block 2 (hash {}) as its tip although the routing path of its transaction #{} (fee 1000 nolan) had been rewritten after signing from A->B->creator to M2->M->creator by a party holding none of their keys: for lottery number 0 the routing payout of this block now goes to {} (M = {}) instead of the honest router B = {}, so two nodes holding the two variants of the same block hash disagree on the payout",
        original_hash.to_hex(),
        tx_index,
        stored_winner.map(|k| k.to_base58()).unwrap_or_default(),
        mallory_public.to_base58(),
        router_public.to_base58())); }
}

/// C06: which output an input spends belongs to the content a block hash stands for (known finding, shared root cause with the C01
/// finding: the signed bytes of an input leave out block id and transaction ordinal) — scenario of an independent audit
#[tokio::test]
#[serial_test::serial]
async fn input_of_a_signed_block_cannot_be_repointed() {
    #[allow(unused_imports)] use std::ops::Deref;
    #[allow(unused_imports)] use crate::core::util::crypto::generate_keys;
    #[allow(unused_imports)] use ahash::AHashMap;
    use crate::core::consensus::block::BlockType;
    use crate::core::consensus::transaction::TransactionType;
    use crate::core::util::configuration::Configuration;

    let mut t = TestManager::default();
    // block 1 : 100 issuance transactions of 200_000_000_000_000 nolan each to the node's own key
    t.initialize(100, 200_000_000_000_000).await;
    let (block1_hash, ts) = {
        let blockchain = t.blockchain_lock.read().await;
        let block1 = blockchain.get_latest_block().unwrap();
        (block1.hash, block1.timestamp)
    };
    assert!(!t.config_lock.read().await.is_spv_mode());

    // honest block 2 with one payment; NOT added to the chain of the node under test
    let block2 = t
        .create_block(block1_hash, ts + 120000, 1, 1000, 0, false)
        .await;
    let original_hash = block2.hash;
    let tx_index = block2
        .transactions
        .iter()
        .position(|tx| tx.transaction_type == TransactionType::Normal)
        .unwrap();
    let original_input = block2.transactions[tx_index].from[0].clone();
    assert_eq!(original_input.block_id, 1);
    assert_eq!(original_input.amount, 200_000_000_000_000);
    let original_key = original_input.get_utxoset_key();

    // another unspent output of the same owner and the same amount, from another transaction of block 1
    let other_ordinal = (0..100u64)
        .find(|o| {
            block2
                .transactions
                .iter()
                .flat_map(|tx| tx.from.iter())
                .all(|s| s.tx_ordinal != *o)
        })
        .unwrap();
    let mut other_input = original_input.clone();
    other_input.tx_ordinal = other_ordinal;
    let other_key = other_input.get_utxoset_key();
    assert_ne!(other_key, original_key);
    {
        let blockchain = t.blockchain_lock.read().await;
        assert_eq!(blockchain.utxoset.get(&original_key), Some(&true));
        assert_eq!(blockchain.utxoset.get(&other_key), Some(&true));
    }

    let wire = block2.serialize_for_net(BlockType::Full);

    // control : the same input re-pointed at an output that does not exist keeps the block hash and
    // is rejected
    {
        let mut tampered = Block::deserialize_from_net(&wire).unwrap();
        tampered.transactions[tx_index].from[0].tx_ordinal = 5000;
        let mut tampered =
            Block::deserialize_from_net(&tampered.serialize_for_net(BlockType::Full)).unwrap();
        tampered.generate().unwrap();
        assert_eq!(tampered.hash, original_hash);
        let result = t.add_block(tampered).await;
        assert!(
            matches!(result, AddBlockResult::FailedNotValid),
            "control : a copy of block 2 spending a non-existent output must be rejected"
        );
        let blockchain = t.blockchain_lock.read().await;
        assert_eq!(blockchain.get_latest_block_hash(), block1_hash);
        assert_eq!(blockchain.utxoset.get(&original_key), Some(&true));
    }

    // hostile edit by a third party that holds no key : 8 bytes of the input (its transaction ordinal)
    let mut edited = Block::deserialize_from_net(&wire).unwrap();
    edited.transactions[tx_index].from[0].tx_ordinal = other_ordinal;
    let edited_wire = edited.serialize_for_net(BlockType::Full);
    assert_ne!(edited_wire, wire);

    let mut received = Block::deserialize_from_net(&edited_wire).unwrap();
    received.generate().unwrap();
    assert_eq!(received.hash, original_hash, "the edit keeps the block hash");
    assert_eq!(
        received.transactions[tx_index].hash_for_signature,
        block2.transactions[tx_index].hash_for_signature,
        "the edit keeps the merkle leaf"
    );

    let result = t.add_block(received).await;

    let (accepted, original_spendable, other_spendable) = {
        let blockchain = t.blockchain_lock.read().await;
        let accepted = matches!(result, AddBlockResult::BlockAddedSuccessfully(_, _, _))
            && blockchain.get_latest_block_hash() == original_hash;
        (
            accepted,
            blockchain.utxoset.get(&original_key).copied(),
            blockchain.utxoset.get(&other_key).copied(),
        )
    };

    if !(!accepted) { witness(format!("full node accepted block 2 (hash {}) as its tip although input 0 of its transaction #{} had been re-pointed after signing from output (block 1, tx {}, slip 0) to output (block 1, tx {}, slip 0): on this node the output the signed block spends is still spendable ({:?}) and the other one is gone from the UTXO set ({:?}), so two nodes holding the two variants of the same block hash have different UTXO sets",
        original_hash.to_hex(),
        tx_index,
        original_input.tx_ordinal,
        other_ordinal,
        original_spendable,
        other_spendable)); }
}

/// C05 (converse clause): a block whose arrival completes a strictly longer valid chain is adopted — also when the block that
/// completes it is the PARENT of a block delivered earlier (known finding: only the chain ending at the arriving block is looked at)
/// — scenario of an independent audit
#[tokio::test]
#[serial_test::serial]
async fn block_whose_arrival_completes_a_longer_chain_is_adopted() {
    #[allow(unused_imports)] use std::ops::Deref;
    #[allow(unused_imports)] use crate::core::util::crypto::generate_keys;
    #[allow(unused_imports)] use ahash::AHashMap;
    use crate::core::consensus::block::BlockType;

    // ---- producer: honest chain, ids 1..=4, 200 ms apart
    let mut producer = TestManager::default();
    producer.initialize(100, 200_000_000_000_000).await;
    let mut wire: Vec<Vec<u8>> = vec![];
    let mut hashes: Vec<SaitoHash> = vec![];
    let ts;
    {
        let blockchain = producer.blockchain_lock.read().await;
        let b1 = blockchain.get_latest_block().unwrap();
        ts = b1.timestamp;
        wire.push(b1.serialize_for_net(BlockType::Full));
        hashes.push(b1.hash);
    }
    for i in 2..=4u64 {
        let with_gt = i % 2 == 0;
        let mut block = producer
            .create_block(
                hashes[(i - 2) as usize],
                ts + 200 * (i - 1),
                if with_gt { 0 } else { 1 },
                0,
                0,
                with_gt,
            )
            .await;
        block.generate().unwrap();
        assert_eq!(block.id, i);
        wire.push(block.serialize_for_net(BlockType::Full));
        hashes.push(block.hash);
        let result = producer.add_block(block).await;
        assert!(matches!(
            result,
            AddBlockResult::BlockAddedSuccessfully(_, true, _)
        ));
    }

    // ---- control: order 1,2,3,4 ends on block 4
    {
        let mut control = TestManager::default();
        for i in 1..=4usize {
            let block = Block::deserialize_from_net(&wire[i - 1]).unwrap();
            let _ = control.add_block(block).await;
        }
        let blockchain = control.blockchain_lock.read().await;
        assert_eq!(blockchain.get_latest_block_id(), 4);
        assert_eq!(blockchain.get_latest_block_hash(), hashes[3]);
    }

    // ---- victim: order 1,2,4,3
    let mut victim = TestManager::default();
    for i in [1usize, 2, 4] {
        let block = Block::deserialize_from_net(&wire[i - 1]).unwrap();
        let _ = victim.add_block(block).await;
    }
    {
        let blockchain = victim.blockchain_lock.read().await;
        // block 4 came before its parent: tip untouched, block 4 is held by the node
        assert_eq!(blockchain.get_latest_block_id(), 2);
        assert_eq!(blockchain.get_latest_block_hash(), hashes[1]);
        assert!(blockchain.get_block(&hashes[3]).is_some());
    }
    let block = Block::deserialize_from_net(&wire[2]).unwrap();
    let result3 = victim.add_block(block).await;
    assert!(matches!(
        result3,
        AddBlockResult::BlockAddedSuccessfully(_, true, _)
    ));
    // the peer sends block 4 once more: the node already holds it
    let block = Block::deserialize_from_net(&wire[3]).unwrap();
    let result4_again = victim.add_block(block).await;

    let blockchain = victim.blockchain_lock.read().await;
    let tip_id = blockchain.get_latest_block_id();
    if !(tip_id == 4 && blockchain.get_latest_block_hash() == hashes[3]) { witness(format!("blocks delivered in the order 1,2,4,3: when block 3 arrived the node held the complete valid chain 1-2-3-4 \
         (block 4 stored = {}, its parent = block 3 = {}), yet the tip is id {} and block 4 is on the longest chain = {}; \
         delivering block 4 again returns {:?}; the property says a block whose arrival completes a strictly longer valid \
         chain is adopted, here the tip stays one block short of it",
        blockchain.get_block(&hashes[3]).is_some(),
        blockchain.get_block(&hashes[3]).map(|b| b.previous_block_hash == hashes[2]).unwrap_or(false),
        tip_id,
        blockchain.get_block(&hashes[3]).map(|b| b.in_longest_chain).unwrap_or(false),
        result4_again)); }
}

/// C05 (last sentence): blocks that arrive before their parent never move the tip — also when the detached stretch is longer than
/// the node's whole chain (known finding: a chain without a shared ancestor is compared like an ordinary fork) — scenario of an independent audit
#[tokio::test]
#[serial_test::serial]
async fn detached_segment_never_takes_the_tip() {
    #[allow(unused_imports)] use std::ops::Deref;
    #[allow(unused_imports)] use crate::core::util::crypto::generate_keys;
    #[allow(unused_imports)] use ahash::AHashMap;
    use crate::core::consensus::block::BlockType;

    // ---- producer: honest chain, ids 1..=6, 200 ms apart (2 x heartbeat => no routing work needed)
    let mut producer = TestManager::default();
    producer.initialize(100, 200_000_000_000_000).await;
    let mut wire: Vec<Vec<u8>> = vec![];
    let mut hashes: Vec<SaitoHash> = vec![];
    let mut burnfees: Vec<u64> = vec![];
    let ts;
    {
        let blockchain = producer.blockchain_lock.read().await;
        let b1 = blockchain.get_latest_block().unwrap();
        ts = b1.timestamp;
        wire.push(b1.serialize_for_net(BlockType::Full));
        hashes.push(b1.hash);
        burnfees.push(b1.burnfee);
    }
    for i in 2..=6u64 {
        let with_gt = i % 2 == 0;
        let mut block = producer
            .create_block(
                hashes[(i - 2) as usize],
                ts + 200 * (i - 1),
                if with_gt { 0 } else { 1 },
                0,
                0,
                with_gt,
            )
            .await;
        block.generate().unwrap();
        assert_eq!(block.id, i);
        wire.push(block.serialize_for_net(BlockType::Full));
        hashes.push(block.hash);
        burnfees.push(block.burnfee);
        let result = producer.add_block(block).await;
        assert!(
            matches!(result, AddBlockResult::BlockAddedSuccessfully(_, true, _)),
            "setup: producer must accept its own block {}",
            i
        );
    }
    {
        let blockchain = producer.blockchain_lock.read().await;
        assert_eq!(blockchain.get_latest_block_id(), 6);
        assert_eq!(blockchain.get_latest_block_hash(), hashes[5]);
    }
    // burn-fee profile of this tree: the detached stretch 4..=6 is at least as heavy as 1..=2
    let old_bf: u64 = burnfees[0] + burnfees[1];
    let new_bf: u64 = burnfees[3] + burnfees[4] + burnfees[5];
    assert!(
        old_bf <= new_bf,
        "setup: burn fee of blocks 4..=6 ({}) must not be below that of blocks 1..=2 ({})",
        new_bf,
        old_bf
    );

    // ---- control: in-order delivery of the same bytes is adopted block by block
    {
        let mut control = TestManager::default();
        for i in 1..=6usize {
            let block = Block::deserialize_from_net(&wire[i - 1]).unwrap();
            let result = control.add_block(block).await;
            assert!(
                matches!(result, AddBlockResult::BlockAddedSuccessfully(_, true, _)),
                "control: block {} delivered in order must be adopted",
                i
            );
        }
        let blockchain = control.blockchain_lock.read().await;
        assert_eq!(blockchain.get_latest_block_id(), 6);
        for i in 1..=6u64 {
            assert_eq!(
                blockchain
                    .blockring
                    .get_longest_chain_block_hash_at_block_id(i),
                Some(hashes[(i - 1) as usize])
            );
        }
    }

    // ---- victim: holds 1,2 ; receives 4,5,6 ; block 3 comes last
    let mut victim = TestManager::default();
    let utxo_before;
    for i in 1..=2usize {
        let block = Block::deserialize_from_net(&wire[i - 1]).unwrap();
        let result = victim.add_block(block).await;
        assert!(matches!(
            result,
            AddBlockResult::BlockAddedSuccessfully(_, true, _)
        ));
    }
    {
        let blockchain = victim.blockchain_lock.read().await;
        assert_eq!(blockchain.get_latest_block_id(), 2);
        assert_eq!(blockchain.get_latest_block_hash(), hashes[1]);
        assert!(blockchain.get_block(&hashes[2]).is_none());
        utxo_before = blockchain.utxoset.iter().filter(|(_, v)| **v).count();
        assert!(utxo_before >= 100, "setup: the 100 issuance outputs of block 1 are spendable");
    }
    // blocks 4 and 5 (block 4 arrives before its parent): tip stays where it is
    for i in 4..=5usize {
        let block = Block::deserialize_from_net(&wire[i - 1]).unwrap();
        let _ = victim.add_block(block).await;
        let blockchain = victim.blockchain_lock.read().await;
        assert_eq!(blockchain.get_latest_block_id(), 2);
        assert_eq!(blockchain.get_latest_block_hash(), hashes[1]);
    }
    // block 6
    let block = Block::deserialize_from_net(&wire[5]).unwrap();
    let result6 = victim.add_block(block).await;
    let (tip_id_after_6, lc1_after_6, lc2_after_6, lc3_after_6, utxo_after_6) = {
        let blockchain = victim.blockchain_lock.read().await;
        (
            blockchain.get_latest_block_id(),
            blockchain
                .blockring
                .get_longest_chain_block_hash_at_block_id(1),
            blockchain
                .blockring
                .get_longest_chain_block_hash_at_block_id(2),
            blockchain
                .blockring
                .get_longest_chain_block_hash_at_block_id(3),
            blockchain.utxoset.iter().filter(|(_, v)| **v).count(),
        )
    };
    // block 3 finally arrives and completes the chain 1..=6
    let block = Block::deserialize_from_net(&wire[2]).unwrap();
    let _ = victim.add_block(block).await;
    let (tip_id_final, lc_final): (u64, Vec<bool>) = {
        let blockchain = victim.blockchain_lock.read().await;
        (
            blockchain.get_latest_block_id(),
            (1..=6u64)
                .map(|i| {
                    blockchain
                        .blockring
                        .get_longest_chain_block_hash_at_block_id(i)
                        == Some(hashes[(i - 1) as usize])
                })
                .collect(),
        )
    };

    if !(tip_id_after_6 == 2 && lc1_after_6 == Some(hashes[0]) && lc2_after_6 == Some(hashes[1])) { witness(format!("node held blocks 1,2 and was sent blocks 4,5,6 while block 3 (parent of 4) was missing: add_block(6) returned {:?}, \
         the tip moved from id 2 to id {} on a chain that has no block 3 (longest-chain entry at id 3 = {:?}), blocks 1 and 2 were \
         unwound (longest-chain entries at id 1 / id 2 = {:?} / {:?}, spendable utxo entries {} before, {} after), and after block 3 arrived \
         the tip is id {} with ids 1..=6 on the longest chain = {:?}; the property says a block that arrives before its parent \
         neither moves the tip nor disturbs the chain index and the tip only moves to a chain that is valid block by block",
        result6,
        tip_id_after_6,
        lc3_after_6.map(|h| h.to_hex()),
        lc1_after_6.map(|h| h.to_hex()),
        lc2_after_6.map(|h| h.to_hex()),
        utxo_before,
        utxo_after_6,
        tip_id_final,
        lc_final)); }
    // once block 3 is there, the chain 1..=6 is complete and must be the longest chain
    assert_eq!(tip_id_final, 6);
    assert!(lc_final.iter().all(|x| *x));
}

/// C04: a rejected reorganisation leaves no trace — also not in the node's record of its last block (id, hash, timestamp, burn fee),
/// which feeds the chain request a lite node sends (known finding: on_chain_reorganization updates it per wound block and a roll-back
/// does not step it back) — scenario of an independent audit
#[tokio::test]
#[serial_test::serial]
async fn rejected_fork_leaves_the_tip_record_alone() {
    #[allow(unused_imports)] use crate::core::util::test::test_manager::test::TestManager;
    #[allow(unused_imports)] use crate::core::defs::PrintForLog;
    #[allow(unused_imports)] use crate::core::consensus::blockchain::AddBlockResult;
    #[allow(unused_imports)] use crate::core::defs::SaitoHash;
    #[allow(unused_imports)] use crate::core::util::crypto::hash;
    use crate::core::defs::SaitoUTXOSetKey;

    let mut t = TestManager::default();
    t.initialize(100, 200_000_000_000_000).await;

    let (b1_hash, ts) = {
        let blockchain = t.blockchain_lock.read().await;
        let b1 = blockchain.get_latest_block().unwrap();
        (b1.hash, b1.timestamp)
    };
    let private_key = { t.wallet_lock.read().await.private_key };

    // main chain o2, o3 : short gaps (2 x heartbeat : no routing work needed, burnfee shrinks slowly)
    let mut o2 = t.create_block(b1_hash, ts + 200, 0, 0, 0, true).await;
    o2.generate().unwrap();
    let (o2_hash, o2_bf) = (o2.hash, o2.burnfee);
    assert!(matches!(
        t.add_block(o2).await,
        AddBlockResult::BlockAddedSuccessfully(_, true, _)
    ));
    let mut o3 = t.create_block(o2_hash, ts + 400, 0, 0, 0, true).await;
    o3.generate().unwrap();
    let (o3_hash, o3_ts, o3_bf) = (o3.hash, o3.timestamp, o3.burnfee);
    assert!(matches!(
        t.add_block(o3).await,
        AddBlockResult::BlockAddedSuccessfully(_, true, _)
    ));

    // control : an invalid block offered directly on top of the tip is rejected and the tip record stays
    {
        let mut bad4 = t.create_block(o3_hash, ts + 600, 0, 0, 0, true).await;
        bad4.burnfee += 1;
        bad4.sign(&private_key);
        bad4.generate().unwrap();
        assert!(matches!(
            t.add_block(bad4).await,
            AddBlockResult::FailedNotValid
        ));
        let blockchain = t.blockchain_lock.read().await;
        assert_eq!(blockchain.last_block_id, 3);
        assert_eq!(blockchain.last_block_hash, o3_hash);
    }

    // fork n2, n3, n4 : long gaps, the burnfee collapses. all three are valid and are only stored
    let mut n2 = t.create_block(b1_hash, ts + 120_000, 0, 0, 0, true).await;
    n2.generate().unwrap();
    let (n2_hash, n2_bf) = (n2.hash, n2.burnfee);
    assert!(matches!(
        t.add_block(n2).await,
        AddBlockResult::BlockAddedSuccessfully(_, false, _)
    ));
    let mut n3 = t.create_block(n2_hash, ts + 240_000, 0, 0, 0, true).await;
    n3.generate().unwrap();
    let (n3_hash, n3_bf) = (n3.hash, n3.burnfee);
    assert!(matches!(
        t.add_block(n3).await,
        AddBlockResult::BlockAddedSuccessfully(_, false, _)
    ));
    let mut n4 = t.create_block(n3_hash, ts + 360_000, 0, 0, 0, true).await;
    n4.generate().unwrap();
    let (n4_hash, n4_bf) = (n4.hash, n4.burnfee);
    assert!(
        n2_bf + n3_bf + n4_bf < o2_bf + o3_bf,
        "setup : the three fork blocks must carry less burnfee than the two main chain blocks"
    );
    assert!(
        matches!(
            t.add_block(n4).await,
            AddBlockResult::BlockAddedSuccessfully(_, false, _)
        ),
        "setup : n4 makes the fork longer but not heavier, it is stored without a reorganisation"
    );

    // n5 : claims a burnfee that makes the fork the heavier chain. that claim is what is wrong with it
    let mut n5 = t.create_block(n4_hash, ts + 480_000, 0, 0, 0, true).await;
    n5.burnfee = o2_bf + o3_bf;
    n5.sign(&private_key);
    n5.generate().unwrap();
    let n5_hash = n5.hash;

    // what an observer sees before the offer
    type Seen = (
        u64,
        SaitoHash,
        Vec<Option<SaitoHash>>,
        Vec<(SaitoHash, bool)>,
        Vec<SaitoUTXOSetKey>,
        Vec<SaitoUTXOSetKey>,
        u64,
    );
    async fn seen(t: &TestManager) -> Seen {
        let blockchain = t.blockchain_lock.read().await;
        let wallet = t.wallet_lock.read().await;
        let mut flags: Vec<(SaitoHash, bool)> = blockchain
            .blocks
            .iter()
            .map(|(h, b)| (*h, b.in_longest_chain))
            .collect();
        flags.sort();
        let mut spendable: Vec<SaitoUTXOSetKey> = blockchain
            .utxoset
            .iter()
            .filter(|(_, s)| **s)
            .map(|(k, _)| *k)
            .collect();
        spendable.sort();
        let mut wallet_slips: Vec<SaitoUTXOSetKey> = wallet.slips.keys().cloned().collect();
        wallet_slips.sort();
        (
            blockchain.get_latest_block_id(),
            blockchain.get_latest_block_hash(),
            (1..=6)
                .map(|id| {
                    blockchain
                        .blockring
                        .get_longest_chain_block_hash_at_block_id(id)
                })
                .collect(),
            flags,
            spendable,
            wallet_slips,
            wallet.get_available_balance(),
        )
    }
    let before = seen(&t).await;
    let (before_id, before_hash, before_ts, before_bf) = {
        let blockchain = t.blockchain_lock.read().await;
        (
            blockchain.last_block_id,
            blockchain.last_block_hash,
            blockchain.last_timestamp,
            blockchain.last_burnfee,
        )
    };
    assert_eq!(before.0, 3);
    assert_eq!(before.1, o3_hash);
    assert_eq!((before_id, before_hash), (3, o3_hash));
    assert_eq!((before_ts, before_bf), (o3_ts, o3_bf));

    // the offer
    let result = t.add_block(n5).await;
    assert!(
        matches!(result, AddBlockResult::FailedNotValid),
        "the fork must be rejected"
    );

    // the roll-back itself is clean ...
    let after = seen(&t).await;
    assert_eq!(before.0, after.0, "blockring tip id");
    assert_eq!(before.1, after.1, "blockring tip hash");
    assert_eq!(before.2, after.2, "longest chain index");
    assert_eq!(before.3, after.3, "stored blocks and their longest-chain flags");
    assert_eq!(before.4, after.4, "spendable set");
    assert_eq!(before.5, after.5, "wallet slips");
    assert_eq!(before.6, after.6, "wallet balance");
    let (after_id, after_hash, after_ts, after_bf) = {
        let blockchain = t.blockchain_lock.read().await;
        assert!(!blockchain.blocks.contains_key(&n5_hash));
        (
            blockchain.last_block_id,
            blockchain.last_block_hash,
            blockchain.last_timestamp,
            blockchain.last_burnfee,
        )
    };

    // ... and the honest chain goes on : o4 on top of o3 is accepted as the new tip
    let mut o4 = t.create_block(o3_hash, ts + 600, 0, 0, 0, true).await;
    o4.generate().unwrap();
    let o4_hash = o4.hash;
    assert!(matches!(
        t.add_block(o4).await,
        AddBlockResult::BlockAddedSuccessfully(_, true, _)
    ));
    let (later_tip, later_last_hash) = {
        let blockchain = t.blockchain_lock.read().await;
        (blockchain.get_latest_block_hash(), blockchain.last_block_hash)
    };
    assert_eq!(later_tip, o4_hash);

    if !((after_id, after_hash, after_ts, after_bf) == (before_id, before_hash, before_ts, before_bf)) { witness(format!("the rejected fork left a trace in the node's tip record: before the offer last_block_id/last_block_hash/last_timestamp/last_burnfee were 3/o3 {}/{}/{}, after add_block returned FailedNotValid they are {}/{} {}/{}/{} (n4 = {}, a block of the rejected fork that is not on the longest chain), although the tip is o3 again; and once the honest block o4 {} is accepted at height 4 last_block_hash is {} (still n4: {}), because Blockchain::on_chain_reorganization skips every block whose id is <= last_block_id", before_hash.to_hex(), before_ts, before_bf, after_id, if after_hash == n4_hash { "n4" } else { "?" }, after_hash.to_hex(), after_ts, after_bf, n4_hash.to_hex(), o4_hash.to_hex(), later_last_hash.to_hex(), later_last_hash == n4_hash)); }
    let _ = n4_bf;
}

/// C04: a rejected reorganisation leaves the stored blocks as they were (known finding: winding a fork block past 2 x genesis_period
/// runs the genesis-period purge before the fork is known to be valid; a purged block does not come back) — scenario of an independent audit
#[tokio::test]
#[serial_test::serial]
async fn rejected_fork_purges_no_stored_block() {
    #[allow(unused_imports)] use crate::core::util::test::test_manager::test::TestManager;
    #[allow(unused_imports)] use crate::core::consensus::blockchain::AddBlockResult;
    #[allow(unused_imports)] use crate::core::consensus::blockchain::Blockchain;
    #[allow(unused_imports)] use crate::core::defs::SaitoHash;
    #[allow(unused_imports)] use crate::core::util::crypto::hash;
    #[allow(unused_imports)] use std::sync::Arc;
    #[allow(unused_imports)] use tokio::sync::RwLock;
    use crate::core::util::configuration::{
        BlockchainConfig, Configuration, ConsensusConfig, PeerConfig, Server,
    };

    struct AuditConfig {
        consensus: ConsensusConfig,
        blockchain: BlockchainConfig,
        peers: Vec<PeerConfig>,
    }
    impl std::fmt::Debug for AuditConfig {
        fn fmt(&self, f: &mut std::fmt::Formatter<'_>) -> std::fmt::Result {
            write!(f, "AuditConfig")
        }
    }
    impl Configuration for AuditConfig {
        fn get_server_configs(&self) -> Option<&Server> {
            None
        }
        fn get_peer_configs(&self) -> &Vec<PeerConfig> {
            &self.peers
        }
        fn get_blockchain_configs(&self) -> &BlockchainConfig {
            &self.blockchain
        }
        fn get_block_fetch_url(&self) -> String {
            String::new()
        }
        fn is_spv_mode(&self) -> bool {
            false
        }
        fn is_browser(&self) -> bool {
            false
        }
        fn replace(&mut self, _config: &dyn Configuration) {}
        fn get_consensus_config(&self) -> Option<&ConsensusConfig> {
            Some(&self.consensus)
        }
    }

    const GP: u64 = 10;
    let mut t = TestManager::default();
    t.blockchain_lock = Arc::new(RwLock::new(Blockchain::new(
        t.wallet_lock.clone(),
        GP,
        0,
        60,
    )));
    t.config_lock = Arc::new(RwLock::new(AuditConfig {
        consensus: ConsensusConfig {
            genesis_period: GP,
            heartbeat_interval: 100,
            prune_after_blocks: 8,
            max_staker_recursions: 3,
            default_social_stake: 0,
            default_social_stake_period: 60,
        },
        blockchain: BlockchainConfig::default(),
        peers: vec![],
    }));
    t.initialize(10, 200_000_000_000_000).await;

    let private_key = { t.wallet_lock.read().await.private_key };
    let (b1_hash, ts) = {
        let blockchain = t.blockchain_lock.read().await;
        let b1 = blockchain.get_latest_block().unwrap();
        (b1.hash, b1.timestamp)
    };

    // main chain 2..=21, gaps of 2 x heartbeat
    let mut hashes: Vec<SaitoHash> = vec![[0; 32], b1_hash]; // hashes[id]
    let mut burnfees: Vec<u64> = vec![0, 0];
    for id in 2..=21u64 {
        let mut b = t
            .create_block(hashes[(id - 1) as usize], ts + 200 * (id - 1), 0, 0, 0, true)
            .await;
        b.generate().unwrap();
        assert_eq!(b.id, id);
        hashes.push(b.hash);
        burnfees.push(b.burnfee);
        assert!(
            matches!(
                t.add_block(b).await,
                AddBlockResult::BlockAddedSuccessfully(_, true, _)
            ),
            "setup : main chain block {} is accepted as the tip",
            id
        );
    }
    let o2_hash = hashes[2];
    let o19_ts = ts + 200 * 18;

    // fork n20,n21,n22 from block 19 : valid, long gaps => the burnfee collapses => only stored
    let mut parent = hashes[19];
    let mut fork_bf = 0;
    let mut n22_hash = [0; 32];
    for (i, id) in (20..=22u64).enumerate() {
        let mut n = t
            .create_block(parent, o19_ts + 120_000 * (i as u64 + 1), 0, 0, 0, true)
            .await;
        n.generate().unwrap();
        assert_eq!(n.id, id);
        parent = n.hash;
        fork_bf += n.burnfee;
        n22_hash = n.hash;
        assert!(
            matches!(
                t.add_block(n).await,
                AddBlockResult::BlockAddedSuccessfully(_, false, _)
            ),
            "setup : fork block {} is stored without a reorganisation",
            id
        );
    }
    assert!(fork_bf < burnfees[20] + burnfees[21]);

    // n23 : lies about its burnfee
    let mut n23 = t
        .create_block(n22_hash, o19_ts + 120_000 * 4, 0, 0, 0, true)
        .await;
    n23.burnfee = burnfees[20] + burnfees[21];
    n23.sign(&private_key);
    n23.generate().unwrap();

    // before the offer : tip 21, retention starts at 11, block 2 is stored (memory, index and disk)
    let o2_file = {
        let blockchain = t.blockchain_lock.read().await;
        assert_eq!(blockchain.get_latest_block_id(), 21);
        assert_eq!(blockchain.get_latest_block_hash(), hashes[21]);
        assert_eq!(blockchain.genesis_block_id, 21 - GP);
        assert!(blockchain.blocks.contains_key(&o2_hash));
        assert!(blockchain.blockring.contains_block_hash_at_block_id(2, o2_hash));
        assert!(!blockchain.blocks.contains_key(&b1_hash)); // purged when 21 became the tip
        t.storage
            .generate_block_filepath(blockchain.get_block(&o2_hash).unwrap())
    };
    assert!(
        std::path::Path::new(&o2_file).exists(),
        "setup : block 2 is on disk at {}",
        o2_file
    );
    let stored_before = { t.blockchain_lock.read().await.blocks.len() };

    let result = t.add_block(n23).await;
    assert!(
        matches!(result, AddBlockResult::FailedNotValid),
        "the fork must be rejected"
    );

    let blockchain = t.blockchain_lock.read().await;
    // the tip is restored ...
    assert_eq!(blockchain.get_latest_block_id(), 21);
    assert_eq!(blockchain.get_latest_block_hash(), hashes[21]);
    // ... but what the wind of n22 purged is gone
    if !(blockchain.blocks.contains_key(&o2_hash)
            && blockchain.blockring.contains_block_hash_at_block_id(2, o2_hash)
            && std::path::Path::new(&o2_file).exists()
            && blockchain.genesis_block_id == 21 - GP) { witness(format!("the rejected fork n20..n23 left a trace: the tip is block 21 again, but block 2 (on the longest chain of the node) is stored in memory: {} / indexed: {} / on disk: {} (all three were true before the offer), {} blocks are stored instead of {}, and genesis_block_id is {} instead of {} - winding n22 at height 22 ran update_genesis_period/delete_blocks(22 - 2*{}) before n23 failed, and the roll-back cannot bring a purged block back", blockchain.blocks.contains_key(&o2_hash), blockchain.blockring.contains_block_hash_at_block_id(2, o2_hash), std::path::Path::new(&o2_file).exists(), blockchain.blocks.len(), stored_before, blockchain.genesis_block_id, 21 - GP, GP)); }
}

/// C04: a rejected reorganisation leaves the wallet as it was (known finding: a fork block that confirms the wallet's pending
/// transaction is wound and unwound; the unwind hands the spent output back as unspent and forgets the pending transaction) — scenario
/// of an independent audit
#[tokio::test]
#[serial_test::serial]
async fn rejected_fork_leaves_the_wallets_pending_transaction_alone() {
    #[allow(unused_imports)] use crate::core::util::test::test_manager::test::TestManager;
    #[allow(unused_imports)] use crate::core::consensus::blockchain::AddBlockResult;
    #[allow(unused_imports)] use crate::core::util::crypto::hash;
    use crate::core::consensus::transaction::TransactionType;

    let mut t = TestManager::default();
    t.initialize(10, 200_000_000_000_000).await;

    let (b1_hash, ts) = {
        let blockchain = t.blockchain_lock.read().await;
        let b1 = blockchain.get_latest_block().unwrap();
        (b1.hash, b1.timestamp)
    };
    let private_key = { t.wallet_lock.read().await.private_key };
    let balance_at_start = { t.wallet_lock.read().await.get_available_balance() };
    assert_eq!(balance_at_start, 10 * 200_000_000_000_000);

    // the wallet signs T (1000 nolan to itself). it ends up in the fork block n2, which nobody has seen yet
    let mut n2 = t.create_block(b1_hash, ts + 120_000, 1, 1000, 0, true).await;
    n2.generate().unwrap();
    let n2_hash = n2.hash;
    let tx_t = n2
        .transactions
        .iter()
        .find(|tx| tx.transaction_type == TransactionType::Normal && !tx.from.is_empty())
        .expect("n2 carries T")
        .clone();
    let s_key = tx_t.from[0].utxoset_key;
    let s_amount = tx_t.from[0].amount;
    assert_eq!(tx_t.from.len(), 1);
    assert_eq!(s_amount, 200_000_000_000_000);
    {
        let mut wallet = t.wallet_lock.write().await;
        wallet.add_to_pending(tx_t.clone());
    }

    // the node's own chain : o2, o3 (T is not in it)
    let mut o2 = t.create_block(b1_hash, ts + 120_000, 0, 0, 0, true).await;
    o2.generate().unwrap();
    let o2_hash = o2.hash;
    assert_ne!(o2_hash, n2_hash);
    assert!(matches!(
        t.add_block(o2).await,
        AddBlockResult::BlockAddedSuccessfully(_, true, _)
    ));
    let mut o3 = t.create_block(o2_hash, ts + 240_000, 0, 0, 0, true).await;
    o3.generate().unwrap();
    let o3_hash = o3.hash;
    assert!(matches!(
        t.add_block(o3).await,
        AddBlockResult::BlockAddedSuccessfully(_, true, _)
    ));

    // the fork : n2 (valid, carries T), n3 (invalid : misreports its burnfee), both only stored
    assert!(matches!(
        t.add_block(n2).await,
        AddBlockResult::BlockAddedSuccessfully(_, false, _)
    ));
    let mut n3 = t.create_block(n2_hash, ts + 240_000, 0, 0, 0, true).await;
    n3.burnfee += 1;
    n3.sign(&private_key);
    n3.generate().unwrap();
    let n3_hash = n3.hash;
    assert!(matches!(
        t.add_block(n3).await,
        AddBlockResult::BlockAddedSuccessfully(_, false, _)
    ));
    let mut n4 = t.create_block(n3_hash, ts + 360_000, 0, 0, 0, true).await;
    n4.generate().unwrap();

    // wallet and chain before the offer
    let (balance_before, unspent_before, s_unspent_before, s_spent_flag_before, pending_before) = {
        let wallet = t.wallet_lock.read().await;
        (
            wallet.get_available_balance(),
            wallet.get_unspent_slip_count(),
            wallet.unspent_slips.contains(&s_key),
            wallet.slips.get(&s_key).map(|s| s.spent),
            wallet.pending_txs.len(),
        )
    };
    assert_eq!(balance_before, balance_at_start - s_amount);
    assert_eq!(unspent_before, 9);
    assert!(!s_unspent_before);
    assert_eq!(s_spent_flag_before, Some(true));
    assert_eq!(pending_before, 1);
    let spendable_before = {
        let blockchain = t.blockchain_lock.read().await;
        assert_eq!(blockchain.get_latest_block_hash(), o3_hash);
        assert_eq!(blockchain.utxoset.get(&s_key), Some(&true)); // T is not confirmed on the node's chain
        let mut keys: Vec<_> = blockchain
            .utxoset
            .iter()
            .filter(|(_, s)| **s)
            .map(|(k, _)| *k)
            .collect();
        keys.sort();
        keys
    };

    // control : an invalid block offered directly on top of the tip is rejected and the wallet stays as it is
    {
        let mut bad4 = t.create_block(o3_hash, ts + 360_000, 0, 0, 0, true).await;
        bad4.burnfee += 1;
        bad4.sign(&private_key);
        bad4.generate().unwrap();
        assert!(matches!(
            t.add_block(bad4).await,
            AddBlockResult::FailedNotValid
        ));
        let wallet = t.wallet_lock.read().await;
        assert_eq!(wallet.get_available_balance(), balance_before);
        assert_eq!(wallet.get_unspent_slip_count(), unspent_before);
        assert_eq!(wallet.slips.get(&s_key).map(|s| s.spent), Some(true));
        assert_eq!(wallet.pending_txs.len(), 1);
    }

    // the offer : n4 makes the fork longer, n2 is wound, n3 fails, everything is rolled back
    let result = t.add_block(n4).await;
    assert!(
        matches!(result, AddBlockResult::FailedNotValid),
        "the fork must be rejected"
    );
    {
        let blockchain = t.blockchain_lock.read().await;
        assert_eq!(blockchain.get_latest_block_hash(), o3_hash);
        assert_eq!(blockchain.get_latest_block_id(), 3);
        let mut keys: Vec<_> = blockchain
            .utxoset
            .iter()
            .filter(|(_, s)| **s)
            .map(|(k, _)| *k)
            .collect();
        keys.sort();
        assert_eq!(keys, spendable_before, "the spendable set is rolled back");
    }

    let wallet = t.wallet_lock.read().await;
    if !(wallet.get_available_balance() == balance_before
            && wallet.get_unspent_slip_count() == unspent_before
            && wallet.unspent_slips.contains(&s_key) == s_unspent_before
            && wallet.slips.get(&s_key).map(|s| s.spent) == s_spent_flag_before
            && wallet.pending_txs.len() == pending_before) { witness(format!("the rejected fork n2-n3-n4 left a trace in the wallet: available balance {} -> {} (+{} = the slip S that the wallet's own pending transaction T spends), unspent slips {} -> {}, S in unspent_slips {} -> {}, S.spent {:?} -> {:?}, pending transactions {} -> {}; T is still valid and unconfirmed on the node's chain, so the wallet will now fund a second transaction with S", balance_before, wallet.get_available_balance(), wallet.get_available_balance() as i128 - balance_before as i128, unspent_before, wallet.get_unspent_slip_count(), s_unspent_before, wallet.unspent_slips.contains(&s_key), s_spent_flag_before, wallet.slips.get(&s_key).map(|s| s.spent), pending_before, wallet.pending_txs.len())); }
}

/// C15: the common-ancestor estimate is never later than the true fork point (known finding: the fork id samples two bytes of a hash
/// per checkpoint; a block hash matching in two bytes, ground in ~65000 tries, moves the estimate past the fork point and a needed block
/// is skipped) — scenario of an independent audit
#[allow(dead_code)]
// C15 demo: the fork id carries 2 bytes of each checkpoint block's hash. A forked node whose block at the
// checkpoint id 10 shares those 2 bytes with the peer's block 10 (1 fork in 65536, or a fork made on purpose:
// ~65536 timestamps tried) is given a last shared ancestor of 10 although the chains parted after block 8:
// the peer announces blocks from 10 on, block 9 is skipped and the node never reaches the peer's tip.

/// hands one fetched block to the node exactly as ConsensusEvent::BlockFetched does: into the mempool's block
/// queue, then Blockchain::add_blocks_from_mempool
async fn audit_demo_collision_deliver(node: &mut TestManager, buffer: &[u8]) {
    let mut block = Block::deserialize_from_net(buffer).unwrap();
    block.generate().unwrap();
    {
        let mut mempool = node.mempool_lock.write().await;
        mempool.add_block(block);
    }
    let configs = node.config_lock.read().await;
    let mut blockchain = node.blockchain_lock.write().await;
    blockchain
        .add_blocks_from_mempool(
            node.mempool_lock.clone(),
            Some(&node.network),
            &mut node.storage,
            None,
            None,
            configs.deref(),
        )
        .await;
}

/// highest block id at which both longest chains hold the same block
async fn audit_demo_collision_fork_point(a: &TestManager, b: &TestManager) -> u64 {
    let a = a.blockchain_lock.read().await;
    let b = b.blockchain_lock.read().await;
    let mut fork_point = 0;
    for id in 1..=std::cmp::min(a.get_latest_block_id(), b.get_latest_block_id()) {
        let ha = a.blockring.get_longest_chain_block_hash_at_block_id(id);
        let hb = b.blockring.get_longest_chain_block_hash_at_block_id(id);
        if ha.is_some() && ha == hb {
            fork_point = id;
        } else {
            break;
        }
    }
    fork_point
}

#[tokio::test]
#[serial_test::serial]
async fn shared_ancestor_estimate_survives_a_two_byte_collision() {
    #[allow(unused_imports)] use std::ops::Deref;
    #[allow(unused_imports)] use ahash::AHashMap;
    #[allow(unused_imports)] use crate::core::consensus::wallet::Wallet;
    #[allow(unused_imports)] use crate::core::util::test::test_manager::test::TestManager;
    #[allow(unused_imports)] use crate::core::defs::PrintForLog;
    #[allow(unused_imports)] use crate::core::consensus::transaction::Transaction;
    #[allow(unused_imports)] use crate::core::consensus::block::Block;
    #[allow(unused_imports)] use crate::core::consensus::block::BlockType;
    #[allow(unused_imports)] use crate::core::consensus::blockchain::AddBlockResult;
    #[allow(unused_imports)] use crate::core::defs::SaitoHash;
    #[allow(unused_imports)] use crate::core::util::crypto::hash;
    let full = crate::core::consensus::block::BlockType::Full;
    // the honest peer : blocks 1..=13 (B chain), a block every 2 minutes, a golden ticket in every block
    let mut peer = TestManager::default();
    peer.initialize(100, 200_000_000_000_000).await;
    let mut peer_buffers: Vec<Vec<u8>> = vec![];
    let mut peer_hashes: Vec<SaitoHash> = vec![];
    let mut peer_ts: Vec<u64> = vec![];
    {
        let blockchain = peer.blockchain_lock.read().await;
        let block = blockchain.get_latest_block().unwrap();
        peer_buffers.push(block.serialize_for_net(full));
        peer_hashes.push(block.hash);
        peer_ts.push(block.timestamp);
    }
    for _ in 2..=13u64 {
        let parent_hash = *peer_hashes.last().unwrap();
        let parent_ts = *peer_ts.last().unwrap();
        let mut block = peer
            .create_block(parent_hash, parent_ts + 120_000, 0, 0, 0, true)
            .await;
        block.generate().unwrap();
        peer_buffers.push(block.serialize_for_net(full));
        peer_hashes.push(block.hash);
        peer_ts.push(block.timestamp);
        let result = peer.add_block(block).await;
        assert!(matches!(
            result,
            AddBlockResult::BlockAddedSuccessfully(_, true, _)
        ));
        let _ = peer.receiver_in_miner.try_recv();
    }
    let peer_tip = peer.blockchain_lock.read().await.get_latest_block_hash();
    assert_eq!(peer.blockchain_lock.read().await.get_latest_block_id(), 13);
    let b10 = peer_hashes[9];

    // the node's fork : A9 on block 8, A10, A11 (made with the peer's TestManager, used here as a block factory
    // only: the peer stays on B13). A10 is the first candidate (timestamps tried one millisecond apart) whose
    // hash starts with the same 2 bytes as the peer's block 10
    let mut a9 = peer
        .create_block(peer_hashes[7], peer_ts[7] + 130_000, 0, 0, 0, true)
        .await;
    a9.generate().unwrap();
    let a9_hash = a9.hash;
    let a9_ts = a9.timestamp;
    let a9_buffer = a9.serialize_for_net(full);
    assert!(matches!(
        peer.add_block(a9).await,
        AddBlockResult::BlockAddedSuccessfully(_, false, _)
    ));
    // (the golden ticket for A9 is mined once; each candidate is built by Block::create, as
    // TestManager::create_block does, with another timestamp)
    let (public_key, private_key) = {
        let wallet = peer.wallet_lock.read().await;
        (wallet.public_key, wallet.private_key)
    };
    let a9_difficulty = peer
        .blockchain_lock
        .read()
        .await
        .get_block(&a9_hash)
        .unwrap()
        .difficulty;
    let golden_ticket =
        TestManager::create_golden_ticket(peer.wallet_lock.clone(), a9_hash, a9_difficulty).await;
    let mut gttx =
        Wallet::create_golden_ticket_transaction(golden_ticket, &public_key, &private_key).await;
    gttx.generate(&public_key, 0, 0);
    let mut a10_plain: Option<Block> = None;
    let mut a10_colliding: Option<Block> = None;
    let mut candidates_tried = 0u64;
    for k in 0..3_000_000u64 {
        let mut transactions: ahash::AHashMap<
            crate::core::defs::SaitoSignature,
            crate::core::consensus::transaction::Transaction,
        > = Default::default();
        transactions.insert(gttx.signature, gttx.clone());
        let mut candidate = {
            let configs = peer.config_lock.read().await;
            let blockchain = peer.blockchain_lock.read().await;
            Block::create(
                &mut transactions,
                a9_hash,
                &blockchain,
                a9_ts + 120_000 + k,
                &public_key,
                &private_key,
                None,
                configs.deref(),
                &peer.storage,
            )
            .await
            .unwrap()
        };
        candidate.generate().unwrap();
        candidates_tried += 1;
        if candidate.hash[0] == b10[0] && candidate.hash[1] == b10[1] {
            candidate.sign(&private_key);
            a10_colliding = Some(candidate);
            break;
        } else if a10_plain.is_none() {
            candidate.sign(&private_key);
            a10_plain = Some(candidate);
        }
    }
    let a10_plain = a10_plain.expect("first candidate collided: run again");
    let a10 = a10_colliding.expect("no colliding candidate found in 3_000_000 tries");
    let a10_hash = a10.hash;
    let a10_ts = a10.timestamp;
    let a10_buffer = a10.serialize_for_net(full);
    let a10_plain_buffer = a10_plain.serialize_for_net(full);
    assert_ne!(a10_hash, b10);
    assert!(matches!(
        peer.add_block(a10).await,
        AddBlockResult::BlockAddedSuccessfully(_, false, _)
    ));
    let mut a11 = peer
        .create_block(a10_hash, a10_ts + 120_000, 0, 0, 0, true)
        .await;
    a11.generate().unwrap();
    let a11_hash = a11.hash;
    let a11_buffer = a11.serialize_for_net(full);
    assert!(matches!(
        peer.add_block(a11).await,
        AddBlockResult::BlockAddedSuccessfully(_, false, _)
    ));
    assert_eq!(
        peer.blockchain_lock.read().await.get_latest_block_hash(),
        peer_tip
    );

    // control : a node on 1..8,A9,A10' (A10' = the first candidate, no collision) : the estimate is not later
    // than the fork point 8
    {
        let mut node = TestManager::default();
        node.disable_staking().await;
        for id in 1..=8usize {
            audit_demo_collision_deliver(&mut node, &peer_buffers[id - 1]).await;
        }
        audit_demo_collision_deliver(&mut node, &a9_buffer).await;
        audit_demo_collision_deliver(&mut node, &a10_plain_buffer).await;
        assert_eq!(node.blockchain_lock.read().await.get_latest_block_id(), 10);
        let fork_point = audit_demo_collision_fork_point(&node, &peer).await;
        assert_eq!(fork_point, 8);
        let fork_id = node
            .blockchain_lock
            .read()
            .await
            .generate_fork_id(10)
            .unwrap();
        let ancestor = peer
            .blockchain_lock
            .read()
            .await
            .generate_last_shared_ancestor(10, fork_id);
        assert!(ancestor <= fork_point);
    }

    // the node on 1..8,A9,A10,A11 (a valid chain: every block is accepted into its longest chain)
    let mut node = TestManager::default();
    node.disable_staking().await;
    for id in 1..=8usize {
        audit_demo_collision_deliver(&mut node, &peer_buffers[id - 1]).await;
    }
    for buffer in [&a9_buffer, &a10_buffer, &a11_buffer] {
        audit_demo_collision_deliver(&mut node, buffer).await;
    }
    assert_eq!(node.blockchain_lock.read().await.get_latest_block_id(), 11);
    assert_eq!(
        node.blockchain_lock.read().await.get_latest_block_hash(),
        a11_hash
    );
    let fork_point = audit_demo_collision_fork_point(&node, &peer).await;
    assert_eq!(fork_point, 8);

    // the exchange of Network::request_blockchain_from_peer / RoutingThread::process_incoming_blockchain_request
    let (node_latest_id, fork_id) = {
        let blockchain = node.blockchain_lock.read().await;
        (
            blockchain.get_latest_block_id(),
            blockchain
                .generate_fork_id(blockchain.get_latest_block_id())
                .unwrap(),
        )
    };
    let (ancestor, announced): (u64, Vec<(u64, SaitoHash)>) = {
        let blockchain = peer.blockchain_lock.read().await;
        let ancestor = blockchain.generate_last_shared_ancestor(node_latest_id, fork_id);
        let mut announced = vec![];
        for i in ancestor..(blockchain.blockring.get_latest_block_id() + 1) {
            if let Some(hash) = blockchain.blockring.get_longest_chain_block_hash_at_block_id(i) {
                announced.push((i, hash));
            }
        }
        (ancestor, announced)
    };
    // the node fetches what was announced and what it does not hold, in order
    for (id, hash) in announced.iter() {
        if !node.blockchain_lock.read().await.is_block_indexed(*hash) {
            audit_demo_collision_deliver(&mut node, &peer_buffers[(*id - 1) as usize]).await;
        }
    }
    let (node_tip_id, node_tip_hash, holds_b9) = {
        let blockchain = node.blockchain_lock.read().await;
        (
            blockchain.get_latest_block_id(),
            blockchain.get_latest_block_hash(),
            blockchain.is_block_indexed(peer_hashes[8]),
        )
    };
    if !(ancestor <= fork_point) { witness(format!("node chain 1..8,A9,A10,A11 and peer chain 1..13 part after block {} (A10 {} and the peer's block 10 {} differ but start with the same 2 bytes, found after {} tries), yet generate_last_shared_ancestor({}, fork id of the node) on the peer returns {}: the peer announces blocks {}..=13, block 9 is skipped (node holds the peer's block 9: {}), and after fetching everything announced the node is on block {} ({}) and not on the peer's tip block 13 ({}) (C15: the estimate is never later than the true fork point, so no needed block is skipped)", fork_point, a10_hash.to_hex(), b10.to_hex(), candidates_tried, node_latest_id, ancestor, announced.first().map(|(id, _)| *id).unwrap_or(0), holds_b9, node_tip_id, node_tip_hash.to_hex(), peer_tip.to_hex())); }
    assert_eq!((node_tip_id, node_tip_hash), (13, peer_tip));
}

/// C15/C05: an empty node that fetches the peer's blocks in the order 3,1,2,4 ends on the peer's tip (known finding: the first block
/// becomes the chain whatever its id; the out-of-order branch then disconnects by hand and block 3 is wound twice) — scenario of an
/// independent audit
#[allow(dead_code)]
// C15 demo: an empty node whose fetch of block 3 completes before the fetches of blocks 1 and 2 does not
// end on the peer's tip: block 3 is wound as the start of the chain; when block 1 arrives the "blocks
// received out-of-order" branch of add_block takes block 3 off the blockring WITHOUT unwinding it from the
// utxo set; blocks 1 and 2 are then wound on top of the utxo set of block 3 and block 3 is never connected
// (the node sits on block 2 holding blocks 1,2,3); when the peer's block 4 arrives, block 3 is wound a second
// time on a utxo set that already contains it and the node panics in check_total_supply.

/// hands one fetched block to the node exactly as ConsensusEvent::BlockFetched does: into the mempool's block
/// queue, then Blockchain::add_blocks_from_mempool
async fn audit_demo_fresh_deliver(node: &mut TestManager, buffer: &[u8]) {
    let mut block = Block::deserialize_from_net(buffer).unwrap();
    block.generate().unwrap();
    {
        let mut mempool = node.mempool_lock.write().await;
        mempool.add_block(block);
    }
    let configs = node.config_lock.read().await;
    let mut blockchain = node.blockchain_lock.write().await;
    blockchain
        .add_blocks_from_mempool(
            node.mempool_lock.clone(),
            Some(&node.network),
            &mut node.storage,
            None,
            None,
            configs.deref(),
        )
        .await;
}

#[tokio::test]
#[serial_test::serial]
async fn fresh_node_receiving_a_later_block_first_still_converges() {
    #[allow(unused_imports)] use crate::core::util::test::test_manager::test::TestManager;
    #[allow(unused_imports)] use crate::core::consensus::block::BlockType;
    #[allow(unused_imports)] use crate::core::consensus::blockchain::AddBlockResult;
    #[allow(unused_imports)] use crate::core::defs::SaitoHash;
    #[allow(unused_imports)] use crate::core::util::crypto::hash;
    #[allow(unused_imports)] use std::panic::AssertUnwindSafe;
    use futures::FutureExt;

    // the honest peer : blocks 1..=4, blocks 2, 3 and 4 carry a golden ticket and one payment of 1000 nolan
    let mut peer = TestManager::default();
    peer.initialize(100, 200_000_000_000_000).await;
    let mut buffers: Vec<Vec<u8>> = vec![];
    let mut hashes: Vec<SaitoHash> = vec![];
    {
        let blockchain = peer.blockchain_lock.read().await;
        let block = blockchain.get_latest_block().unwrap();
        buffers.push(block.serialize_for_net(crate::core::consensus::block::BlockType::Full));
        hashes.push(block.hash);
    }
    for _ in 2..=4u64 {
        let (parent_hash, parent_ts) = {
            let blockchain = peer.blockchain_lock.read().await;
            let block = blockchain.get_latest_block().unwrap();
            (block.hash, block.timestamp)
        };
        let mut block = peer
            .create_block(parent_hash, parent_ts + 120000, 1, 1000, 0, true)
            .await;
        block.generate().unwrap();
        buffers.push(block.serialize_for_net(crate::core::consensus::block::BlockType::Full));
        hashes.push(block.hash);
        let result = peer.add_block(block).await;
        assert!(matches!(
            result,
            AddBlockResult::BlockAddedSuccessfully(_, true, _)
        ));
        let _ = peer.receiver_in_miner.try_recv();
    }
    let peer_tip = peer.blockchain_lock.read().await.get_latest_block_hash();
    assert_eq!(peer.blockchain_lock.read().await.get_latest_block_id(), 4);
    assert_eq!(peer_tip, hashes[3]);

    // control : an empty node, the four fetches complete in the order 1,2,3,4
    {
        let mut node = TestManager::default();
        node.disable_staking().await;
        for id in [1usize, 2, 3, 4] {
            audit_demo_fresh_deliver(&mut node, &buffers[id - 1]).await;
        }
        let blockchain = node.blockchain_lock.read().await;
        assert_eq!(blockchain.get_latest_block_id(), 4);
        assert_eq!(blockchain.get_latest_block_hash(), peer_tip);
    }
    // reference : the utxo set of a node that holds blocks 1 and 2 only
    let utxo_after_1_2 = {
        let mut node = TestManager::default();
        node.disable_staking().await;
        for id in [1usize, 2] {
            audit_demo_fresh_deliver(&mut node, &buffers[id - 1]).await;
        }
        let blockchain = node.blockchain_lock.read().await;
        assert_eq!(blockchain.get_latest_block_hash(), hashes[1]);
        blockchain.utxoset.clone()
    };

    // an empty node, the same blocks, the fetch of block 3 completes before those of blocks 1 and 2
    let mut node = TestManager::default();
    node.disable_staking().await;
    for id in [3usize, 1, 2] {
        audit_demo_fresh_deliver(&mut node, &buffers[id - 1]).await;
    }
    let (tip_id_after_3_1_2, differing_utxo_entries) = {
        let blockchain = node.blockchain_lock.read().await;
        // blocks 1,2,3 are all indexed, nothing waits in the mempool
        for hash in hashes[0..3].iter() {
            assert!(blockchain.is_block_indexed(*hash));
        }
        assert_eq!(node.mempool_lock.read().await.blocks_queue.len(), 0);
        let differing_utxo_entries = blockchain
            .utxoset
            .iter()
            .filter(|(key, value)| utxo_after_1_2.get(*key) != Some(*value))
            .count()
            + utxo_after_1_2
                .keys()
                .filter(|key| !blockchain.utxoset.contains_key(*key))
                .count();
        (blockchain.get_latest_block_id(), differing_utxo_entries)
    };
    // the peer's block 4 arrives
    let outcome = std::panic::AssertUnwindSafe(async {
        audit_demo_fresh_deliver(&mut node, &buffers[3]).await;
    })
    .catch_unwind()
    .await;
    let panic_text = match &outcome {
        Ok(()) => "no panic".to_string(),
        Err(e) => e
            .downcast_ref::<&str>()
            .map(|s| s.to_string())
            .or_else(|| e.downcast_ref::<String>().cloned())
            .unwrap_or("panic".to_string()),
    };
    if !(outcome.is_ok()) { witness(format!("an empty node that fetched the peer's blocks 1..=4 in the order 3,1,2,4 sat on block {} after 3,1,2 (holding blocks 1,2,3, its utxo set differing in {} entries from that of a node holding blocks 1,2 only) and then panicked with '{}' while adding block 4, instead of ending on the peer's tip block 4: block 3 was wound as the chain start, the arrival of block 1 took it off the blockring without unwinding its utxos, and it was wound a second time under block 4 (C15: the node ends on the peer's tip under every delivery order of the fetched blocks)", tip_id_after_3_1_2, differing_utxo_entries, panic_text)); }
    let blockchain = node.blockchain_lock.read().await;
    assert_eq!(
        (blockchain.get_latest_block_id(), blockchain.get_latest_block_hash()),
        (4, peer_tip),
        "an empty node that fetched the peer's blocks 1..=4 in the order 3,1,2,4 holds all 4 blocks but its tip is block {} and not the peer's tip block 4 (C15: the node ends on the peer's tip under every delivery order of the fetched blocks)",
        blockchain.get_latest_block_id()
    );
}

/// C02: the payouts a golden ticket triggers are made — a block that carries the ticket but leaves out the fee transaction its own
/// payout computation produces is refused (the fees of the blocks being paid would be in no output, treasury or graveyard) — scenario
/// of an independent audit
#[allow(dead_code)]
/// value the ledger holds once `block` is the tip, in unbounded arithmetic: spendable outputs now,
/// plus what the block's transactions add and remove, plus the reservoirs in the block's header
fn audit_demo_supply_with_tip(blockchain: &Blockchain, block: Option<&Block>) -> u128 {
    let mut supply: u128 = 0;
    for (key, spendable) in blockchain.utxoset.iter() {
        if *spendable {
            let slip = Slip::parse_slip_from_utxokey(key).unwrap();
            if slip.slip_type != crate::core::consensus::slip::SlipType::Bound {
                supply += slip.amount as u128;
            }
        }
    }
    let tip = match block {
        Some(block) => {
            for tx in block.transactions.iter() {
                for output in tx.to.iter() {
                    supply += output.amount as u128;
                }
                for input in tx.from.iter() {
                    supply -= input.amount as u128;
                }
            }
            block
        }
        None => blockchain.get_latest_block().unwrap(),
    };
    supply
        + tip.treasury as u128
        + tip.graveyard as u128
        + tip.previous_block_unpaid as u128
        + tip.total_fees as u128
}

#[tokio::test]
#[serial_test::serial]
async fn golden_ticket_block_without_its_fee_transaction_is_refused() {
    #[allow(unused_imports)] use std::ops::Deref;
    #[allow(unused_imports)] use ahash::AHashMap;
    #[allow(unused_imports)] use crate::core::consensus::wallet::Wallet;
    #[allow(unused_imports)] use crate::core::util::test::test_manager::test::TestManager;
    #[allow(unused_imports)] use crate::core::consensus::block::Block;
    #[allow(unused_imports)] use crate::core::consensus::blockchain::AddBlockResult;
    #[allow(unused_imports)] use crate::core::util::crypto::hash;
    #[allow(unused_imports)] use std::panic::AssertUnwindSafe;
    use crate::core::consensus::transaction::{Transaction, TransactionType};
    use crate::core::defs::SaitoSignature;

    let mut t = TestManager::default();
    t.initialize(10, 1_000_000).await;
    let block1_hash = t.latest_block_hash;
    let ts = t.get_latest_block().await.timestamp;

    // block 2 : one transaction paying a fee of 1000, no golden ticket
    let block2 = t
        .create_block(block1_hash, ts + 120_000, 1, 5_000, 1_000, false)
        .await;
    let block2_hash = block2.hash;
    let result = t.add_block(block2).await;
    assert!(matches!(
        result,
        AddBlockResult::BlockAddedSuccessfully(_, true, _)
    ));
    let supply_before;
    {
        let blockchain = t.blockchain_lock.read().await;
        assert_eq!(blockchain.get_latest_block_id(), 2);
        assert_eq!(blockchain.get_latest_block().unwrap().total_fees, 1_000);
        supply_before = audit_demo_supply_with_tip(&blockchain, None);
        assert_eq!(supply_before, 10_000_000);
    }

    // block 3 as an honest producer builds it : golden ticket for block 2 and the fee transaction
    // that pays block 2's fees out
    let (public_key, private_key) = {
        let wallet = t.wallet_lock.read().await;
        (wallet.public_key, wallet.private_key)
    };
    let golden_ticket = {
        let difficulty = t.get_latest_block().await.difficulty;
        TestManager::create_golden_ticket(t.wallet_lock.clone(), block2_hash, difficulty).await
    };
    let gt_tx =
        Wallet::create_golden_ticket_transaction(golden_ticket, &public_key, &private_key)
            .await;
    let mut honest_block3 = {
        let configs = t.config_lock.read().await;
        let blockchain = t.blockchain_lock.read().await;
        let mut transactions: ahash::AHashMap<SaitoSignature, Transaction> = Default::default();
        Block::create(
            &mut transactions,
            block2_hash,
            &blockchain,
            ts + 240_000,
            &public_key,
            &private_key,
            Some(gt_tx),
            configs.deref(),
            &t.storage,
        )
        .await
        .unwrap()
    };
    honest_block3.generate().unwrap();
    let fee_tx = honest_block3.transactions.last().unwrap().clone();
    assert_eq!(fee_tx.transaction_type, TransactionType::Fee);
    let paid_out: u64 = fee_tx.to.iter().map(|slip| slip.amount).sum();
    assert!(paid_out > 0);

    // the hostile variant : the same block with the fee transaction left out, re-signed
    let mut hostile_block3 = honest_block3.clone();
    hostile_block3.transactions.pop();
    hostile_block3.merkle_root = hostile_block3.generate_merkle_root(false, false);
    hostile_block3.generate_pre_hash();
    hostile_block3.sign(&private_key);
    hostile_block3.generate().unwrap();

    let (honest_valid, honest_supply, hostile_valid, hostile_supply);
    {
        let configs = t.config_lock.read().await;
        let blockchain = t.blockchain_lock.read().await;
        honest_valid = honest_block3
            .validate(&blockchain, &blockchain.utxoset, configs.deref(), &t.storage, true)
            .await;
        honest_supply = audit_demo_supply_with_tip(&blockchain, Some(&honest_block3));
        hostile_valid = hostile_block3
            .validate(&blockchain, &blockchain.utxoset, configs.deref(), &t.storage, true)
            .await;
        hostile_supply = audit_demo_supply_with_tip(&blockchain, Some(&hostile_block3));
    }
    // control : the honest block validates and conserves the supply
    assert!(honest_valid);
    assert_eq!(honest_supply, supply_before);

    // the node itself : add_block accepts the block and then aborts in check_total_supply
    let outcome = futures::FutureExt::catch_unwind(std::panic::AssertUnwindSafe(
        t.add_block(hostile_block3),
    ))
    .await;
    let node_reaction = match &outcome {
        Ok(AddBlockResult::BlockAddedSuccessfully(..)) => "add_block accepted it",
        Ok(_) => "add_block refused it",
        Err(_) => "add_block accepted it and the node then panicked in check_total_supply",
    };

    if !(!hostile_valid || hostile_supply == supply_before) { witness(format!("block 3 carries a golden ticket but no fee transaction and Block::validate accepted it ({}): the {} nolan of block 2's fees it was due to pay out are in no output, treasury or graveyard, the supply falls from {} to {}", node_reaction, paid_out, supply_before, hostile_supply)); }
}

/// C11/C14: an unsigned, never validated side-chain block from a peer does not delete pooled transactions or the node's golden
/// ticket — scenario of an independent audit
#[tokio::test]
#[serial_test::serial]
async fn side_chain_block_takes_nothing_out_of_the_pool() {
    #[allow(unused_imports)] use crate::core::util::crypto::generate_keys;
    #[allow(unused_imports)] use crate::core::consensus::wallet::Wallet;
    #[allow(unused_imports)] use crate::core::util::test::test_manager::test::TestManager;
    #[allow(unused_imports)] use crate::core::consensus::block::Block;
    #[allow(unused_imports)] use crate::core::consensus::blockchain::AddBlockResult;
    #[allow(unused_imports)] use crate::core::defs::SaitoHash;
    #[allow(unused_imports)] use crate::core::util::crypto::hash;
    use crate::core::consensus::block::BlockType;
    use crate::core::consensus::golden_ticket::GoldenTicket;
    use crate::core::consensus::transaction::{Transaction, TransactionType};

    let mut t = TestManager::default();
    t.initialize(100, 200_000_000_000_000).await;
    let block1 = t.get_latest_block().await;

    // honest block 2 : the tip
    let block2 = t
        .create_block(block1.hash, block1.timestamp + 120000, 0, 0, 0, true)
        .await;
    let block2_hash = block2.hash;
    let block2_ts = block2.timestamp;
    let block2_difficulty = block2.difficulty;
    let result = t.add_block(block2).await;
    assert!(matches!(
        result,
        AddBlockResult::BlockAddedSuccessfully(_, true, _)
    ));

    // an honest user's transaction and this node's golden ticket for the tip are pending in the mempool
    let (public_key, private_key) = {
        let wallet = t.wallet_lock.read().await;
        (wallet.public_key, wallet.private_key)
    };
    let pending_signature;
    {
        let mut tx = {
            let mut wallet = t.wallet_lock.write().await;
            Transaction::create(&mut wallet, public_key, 1_000, 500, false, None, 2, 100)
                .unwrap()
        };
        tx.sign(&private_key);
        tx.generate(&public_key, 0, 0);
        pending_signature = tx.signature;
        let golden_ticket =
            TestManager::create_golden_ticket(t.wallet_lock.clone(), block2_hash, block2_difficulty)
                .await;
        let gt_tx =
            Wallet::create_golden_ticket_transaction(golden_ticket, &public_key, &private_key)
                .await;

        let blockchain = t.blockchain_lock.read().await;
        let mut mempool = t.mempool_lock.write().await;
        mempool.add_transaction_if_validates(tx, &blockchain).await;
        mempool.add_golden_ticket(gt_tx).await;
        assert!(mempool.transactions.contains_key(&pending_signature));
        assert!(mempool.golden_tickets.contains_key(&block2_hash));
    }

    // the attacker's block: not signed at all, its "transactions" carry nothing but the signature of
    // the pending transaction (public: transactions are relayed) and a golden ticket payload that
    // names the tip as its target
    let (atk_public_key, _) = generate_keys();
    let make_block = |id: u64, parent: SaitoHash, ts: u64| {
        let mut block = Block::new();
        block.id = id;
        block.previous_block_hash = parent;
        block.timestamp = ts;
        block.creator = atk_public_key;
        let mut fake = Transaction::default();
        fake.signature = pending_signature;
        block.transactions.push(fake);
        let mut fake_gt = Transaction::default();
        fake_gt.transaction_type = TransactionType::GoldenTicket;
        fake_gt.data =
            GoldenTicket::create(block2_hash, [0; 32], atk_public_key).serialize_for_net();
        fake_gt.signature = [7; 64];
        block.transactions.push(fake_gt);
        block.generate().unwrap();
        // (no block.sign : the signature stays [0; 64])
        let buffer = block.serialize_for_net(BlockType::Full);
        let mut block = Block::deserialize_from_net(&buffer).expect("the buffer is decodable");
        block.generate().expect("metadata of the fetched block generates");
        block
    };

    // control: claiming to extend the tip, the block is validated and refused; the mempool is untouched
    let control = make_block(3, block2_hash, block2_ts + 120000);
    let result = t.add_block(control).await;
    assert!(
        matches!(result, AddBlockResult::FailedNotValid),
        "control: the unsigned block on top of the tip is refused, got {:?}",
        result
    );
    {
        let mempool = t.mempool_lock.read().await;
        assert!(mempool.transactions.contains_key(&pending_signature));
        assert!(mempool.golden_tickets.contains_key(&block2_hash));
    }

    // hostile: the same block as a sibling of the tip (id 2 on top of block 1)
    let hostile = make_block(2, block1.hash, block2_ts + 1);
    let hostile_hash = hostile.hash;
    let result = t.add_block(hostile).await;
    {
        let blockchain = t.blockchain_lock.read().await;
        assert_eq!(
            blockchain.get_latest_block_hash(),
            block2_hash,
            "setup: the tip does not move"
        );
        assert!(
            !blockchain
                .blocks
                .get(&hostile_hash)
                .map(|b| b.in_longest_chain)
                .unwrap_or(false),
            "setup: the hostile block is not part of the longest chain"
        );
    }
    let mempool = t.mempool_lock.read().await;
    if !(mempool.transactions.contains_key(&pending_signature)
            && mempool.golden_tickets.contains_key(&block2_hash)) { witness(format!("an unsigned, never validated side-chain block 2' from a peer (add_block -> {:?}) deleted from the mempool the pending user transaction (still pooled: {}) and this node's golden ticket for the tip (still pooled: {}), because add_block_success runs remove_block_transactions for blocks that were never validated: hostile input must leave the state honest peers rely on unchanged (the same block on top of the tip was refused and changed nothing)", result, mempool.transactions.contains_key(&pending_signature), mempool.golden_tickets.contains_key(&block2_hash))); }
}

/// C11: a decodable block whose transactions claim inputs of u64::MAX is refused like any invalid block (the consensus-value sums
/// saturate) — scenario of an independent audit
#[tokio::test]
#[serial_test::serial]
async fn block_with_overflowing_fee_claims_is_refused_not_fatal() {
    #[allow(unused_imports)] use crate::core::util::crypto::generate_keys;
    #[allow(unused_imports)] use crate::core::util::test::test_manager::test::TestManager;
    #[allow(unused_imports)] use crate::core::consensus::slip::Slip;
    #[allow(unused_imports)] use crate::core::consensus::block::Block;
    #[allow(unused_imports)] use crate::core::consensus::blockchain::AddBlockResult;
    #[allow(unused_imports)] use crate::core::consensus::blockchain::Blockchain;
    #[allow(unused_imports)] use crate::core::util::crypto::hash;
    #[allow(unused_imports)] use std::panic::AssertUnwindSafe;
    use crate::core::consensus::block::BlockType;
    use crate::core::consensus::slip::SlipType;
    use crate::core::consensus::transaction::{Transaction, TransactionType};
    use futures::FutureExt;

    let mut t = TestManager::default();
    t.initialize(100, 200_000_000_000_000).await;
    let block1 = t.get_latest_block().await;

    // honest block 2 on top
    let block2 = t
        .create_block(block1.hash, block1.timestamp + 120000, 0, 0, 0, true)
        .await;
    let block2_hash = block2.hash;
    let block2_ts = block2.timestamp;
    let result = t.add_block(block2).await;
    assert!(
        matches!(result, AddBlockResult::BlockAddedSuccessfully(_, true, _)),
        "setup: honest block 2 should be accepted, got {:?}",
        result
    );

    // the block producer is the attacker: any key will do, the block only has to be signed by it
    let (atk_public_key, atk_private_key) = generate_keys();

    // builds the attacker's block 3 (child of the tip) out of `count` transactions that each
    // name one input of `amount` nolan (inputs that do not exist: the block is invalid either way)
    let make_block = |count: u64, amount: u64| {
        let mut block = Block::new();
        block.id = 3;
        block.previous_block_hash = block2_hash;
        block.timestamp = block2_ts + 120000;
        block.creator = atk_public_key;
        for n in 0..count {
            let mut tx = Transaction::default();
            tx.transaction_type = TransactionType::Normal;
            tx.timestamp = block.timestamp;
            let mut input = Slip::default();
            input.public_key = atk_public_key;
            input.amount = amount;
            input.block_id = 1;
            input.tx_ordinal = 1000 + n; // distinct outputs: no double spend inside the block
            input.slip_index = 0;
            input.slip_type = SlipType::Normal;
            tx.from.push(input);
            let mut output = Slip::default();
            output.public_key = atk_public_key;
            output.amount = 0;
            tx.to.push(output);
            tx.sign(&atk_private_key);
            block.transactions.push(tx);
        }
        block.generate().unwrap();
        block.sign(&atk_private_key);
        // what the peer serves and what VerificationThread::verify_block makes of it
        let buffer = block.serialize_for_net(BlockType::Full);
        let mut block = Block::deserialize_from_net(&buffer).expect("the buffer is decodable");
        block.generate().expect("metadata of the fetched block generates");
        block
    };

    // control: the same block with small claimed inputs is simply rejected
    let control = make_block(2, 1_000);
    let control_hash = control.hash;
    let result = t.add_block(control).await;
    assert!(
        matches!(result, AddBlockResult::FailedNotValid),
        "control: a block spending outputs that do not exist should be rejected, got {:?}",
        result
    );
    {
        let blockchain = t.blockchain_lock.read().await;
        assert!(!blockchain.blocks.contains_key(&control_hash));
        assert_eq!(blockchain.get_latest_block_hash(), block2_hash);
    }

    // hostile: two transactions each claiming an input of u64::MAX nolan
    let hostile = make_block(2, u64::MAX);
    assert_eq!(hostile.transactions[0].total_fees, u64::MAX);
    let outcome = std::panic::AssertUnwindSafe(t.add_block(hostile))
        .catch_unwind()
        .await;
    let panic_text = match &outcome {
        Ok(_) => String::new(),
        Err(payload) => payload
            .downcast_ref::<String>()
            .cloned()
            .or_else(|| payload.downcast_ref::<&str>().map(|s| s.to_string()))
            .unwrap_or_default(),
    };
    if !(outcome.is_ok()) { witness(format!("a decodable block 3 fetched from a peer, whose 2 transactions each claim an input of u64::MAX nolan, made Blockchain::add_block panic ('{}', Block::generate_consensus_values sums the fees of unvalidated transactions with `+=`) instead of being rejected like the control block: peer input must not crash the consensus thread", panic_text)); }
    assert!(matches!(outcome.unwrap(), AddBlockResult::FailedNotValid));
}

/// C11: fork blocks whose burnfee header fields are u64::MAX do not stop the node in the fork choice (the sums saturate) — scenario
/// of an independent audit
#[tokio::test]
#[serial_test::serial]
async fn fork_blocks_with_overflowing_burn_fees_are_refused_not_fatal() {
    #[allow(unused_imports)] use crate::core::util::crypto::generate_keys;
    #[allow(unused_imports)] use crate::core::util::test::test_manager::test::TestManager;
    #[allow(unused_imports)] use crate::core::consensus::block::Block;
    #[allow(unused_imports)] use crate::core::consensus::blockchain::AddBlockResult;
    #[allow(unused_imports)] use crate::core::consensus::blockchain::Blockchain;
    #[allow(unused_imports)] use crate::core::defs::SaitoHash;
    #[allow(unused_imports)] use crate::core::util::crypto::hash;
    #[allow(unused_imports)] use std::panic::AssertUnwindSafe;
    use crate::core::consensus::block::BlockType;
    use futures::FutureExt;

    let mut t = TestManager::default();
    t.initialize(100, 200_000_000_000_000).await;
    let block1 = t.get_latest_block().await;

    // honest chain : 1 - 2 - 3
    let block2 = t
        .create_block(block1.hash, block1.timestamp + 120000, 0, 0, 0, true)
        .await;
    let block2_hash = block2.hash;
    let block2_ts = block2.timestamp;
    let result = t.add_block(block2).await;
    assert!(matches!(
        result,
        AddBlockResult::BlockAddedSuccessfully(_, true, _)
    ));
    let block3 = t
        .create_block(block2_hash, block2_ts + 120000, 0, 0, 0, true)
        .await;
    let block3_hash = block3.hash;
    let result = t.add_block(block3).await;
    assert!(matches!(
        result,
        AddBlockResult::BlockAddedSuccessfully(_, true, _)
    ));

    let (atk_public_key, atk_private_key) = generate_keys();
    // a header-only block as a peer would serve it: id, parent and burnfee are the sender's choice
    let make_block = |id: u64, parent: SaitoHash, ts: u64, burnfee: u64| {
        let mut block = Block::new();
        block.id = id;
        block.previous_block_hash = parent;
        block.timestamp = ts;
        block.creator = atk_public_key;
        block.burnfee = burnfee;
        block.generate().unwrap();
        block.sign(&atk_private_key);
        let buffer = block.serialize_for_net(BlockType::Full);
        let mut block = Block::deserialize_from_net(&buffer).expect("the buffer is decodable");
        block.generate().expect("metadata of the fetched block generates");
        block
    };

    // control: a two-block fork 3' - 4' with small burnfees is stored / refused without any harm
    let fork3 = make_block(3, block2_hash, block2_ts + 130000, 1_000);
    let fork3_hash = fork3.hash;
    let result = t.add_block(fork3).await;
    assert!(
        matches!(result, AddBlockResult::BlockAddedSuccessfully(_, false, _)),
        "control: the sibling of the tip is stored as a side-chain block, got {:?}",
        result
    );
    let fork4 = make_block(4, fork3_hash, block2_ts + 260000, 1_000);
    let result = t.add_block(fork4).await;
    assert!(
        matches!(
            result,
            AddBlockResult::FailedNotValid | AddBlockResult::BlockAddedSuccessfully(_, false, _)
        ),
        "control: the fork is refused or kept as a side chain, got {:?}",
        result
    );
    {
        let blockchain = t.blockchain_lock.read().await;
        assert_eq!(blockchain.get_latest_block_hash(), block3_hash);
    }

    // hostile: the same two-block fork, burnfee header fields set to u64::MAX
    let fork3 = make_block(3, block2_hash, block2_ts + 131000, u64::MAX);
    let fork3_hash = fork3.hash;
    let result = t.add_block(fork3).await;
    assert!(
        matches!(result, AddBlockResult::BlockAddedSuccessfully(_, false, _)),
        "setup: the sibling of the tip is stored as a side-chain block, got {:?}",
        result
    );
    let fork4 = make_block(4, fork3_hash, block2_ts + 261000, u64::MAX);
    let outcome = std::panic::AssertUnwindSafe(t.add_block(fork4))
        .catch_unwind()
        .await;
    let panic_text = match &outcome {
        Ok(_) => String::new(),
        Err(payload) => payload
            .downcast_ref::<String>()
            .cloned()
            .or_else(|| payload.downcast_ref::<&str>().map(|s| s.to_string()))
            .unwrap_or_default(),
    };
    if !(outcome.is_ok()) { witness(format!("two decodable fork blocks 3' and 4' from a peer whose burnfee header fields are u64::MAX made Blockchain::add_block panic ('{}' in is_new_chain_the_longest_chain, which adds up the burnfees of unvalidated fork blocks with `+=`) instead of refusing the fork like the control fork with burnfee 1000: peer input must not crash the consensus thread", panic_text)); }
    assert!(matches!(
        outcome.unwrap(),
        AddBlockResult::FailedNotValid | AddBlockResult::BlockAddedSuccessfully(_, false, _)
    ));
    {
        let blockchain = t.blockchain_lock.read().await;
        assert_eq!(blockchain.get_latest_block_hash(), block3_hash);
    }
}

/// C14: after a reorganisation no pooled transaction is one the new longest chain has already confirmed
#[tokio::test]
#[serial_test::serial]
async fn fork_that_overtakes_the_chain_takes_its_transactions_out_of_the_pool() {
    #[allow(unused_imports)] use crate::core::util::test::test_manager::test::TestManager;
    #[allow(unused_imports)] use crate::core::consensus::blockchain::AddBlockResult;
    #[allow(unused_imports)] use crate::core::util::crypto::hash;
    use crate::core::consensus::transaction::Transaction;

    let mut t = TestManager::default();
    t.initialize(100, 200_000_000_000_000).await;
    let (block1_hash, ts) = {
        let blockchain = t.blockchain_lock.read().await;
        let block1 = blockchain.get_latest_block().unwrap();
        (block1.hash, block1.timestamp)
    };

    // the node's own chain : block 2 on block 1
    let mut block2 = t
        .create_block(block1_hash, ts + 120_000, 0, 0, 0, true)
        .await;
    block2.generate().unwrap();
    let block2_hash = block2.hash;
    let result = t.add_block(block2).await;
    assert!(matches!(
        result,
        AddBlockResult::BlockAddedSuccessfully(_, true, _)
    ));

    // a free transaction (no payment, no fee) reaches the node and is pooled
    let (public_key, private_key) = {
        let wallet = t.wallet_lock.read().await;
        (wallet.public_key, wallet.private_key)
    };
    let mut free_tx = {
        let mut wallet = t.wallet_lock.write().await;
        Transaction::create(&mut wallet, public_key, 0, 0, false, None, 2, 100).unwrap()
    };
    free_tx.data = vec![1, 2, 3, 4];
    free_tx.sign(&private_key);
    free_tx.generate(&public_key, 0, 0);
    {
        let blockchain = t.blockchain_lock.read().await;
        let mut mempool = t.mempool_lock.write().await;
        mempool
            .add_transaction_if_validates(free_tx.clone(), &blockchain)
            .await;
        assert!(
            mempool.transactions.contains_key(&free_tx.signature),
            "setup : the free transaction is pooled"
        );
    }

    // a peer built on block 1 as well : its block 2 carries the free transaction
    let mut block2_2 = t
        .create_block(block1_hash, ts + 120_001, 0, 0, 0, false)
        .await;
    block2_2.add_transaction(free_tx.clone());
    block2_2.merkle_root = block2_2.generate_merkle_root(false, false);
    block2_2.generate().unwrap();
    block2_2.sign(&private_key);
    let block2_2_hash = block2_2.hash;
    let result = t.add_block(block2_2).await;
    assert!(
        matches!(
            result,
            AddBlockResult::BlockAddedSuccessfully(_, false, _)
        ),
        "setup : the peer's block 2 is stored next to the chain : {:?}",
        result
    );
    assert_eq!(t.get_latest_block_hash().await, block2_hash);

    // ... and the peer's block 3 makes that fork the longest chain
    let mut block3_2 = t
        .create_block(block2_2_hash, ts + 240_000, 1, 0, 0, false)
        .await;
    block3_2.generate().unwrap();
    let block3_2_hash = block3_2.hash;
    let result = t.add_block(block3_2).await;
    assert!(
        matches!(
            result,
            AddBlockResult::BlockAddedSuccessfully(_, true, _)
        ),
        "setup : the peer's block 3 is accepted as the new tip : {:?}",
        result
    );
    {
        let blockchain = t.blockchain_lock.read().await;
        assert_eq!(blockchain.get_latest_block_hash(), block3_2_hash);
        assert_eq!(
            blockchain
                .blockring
                .get_longest_chain_block_hash_at_block_id(2),
            Some(block2_2_hash),
            "setup : the peer's block 2 is on the longest chain now"
        );
        let block = blockchain.get_block(&block2_2_hash).unwrap();
        assert!(block.in_longest_chain);
        assert!(
            block
                .transactions
                .iter()
                .any(|tx| tx.signature == free_tx.signature),
            "setup : the free transaction is confirmed by a block of the longest chain"
        );
    }

    let mempool = t.mempool_lock.read().await;
    if !(!mempool.transactions.contains_key(&free_tx.signature)) { witness(format!("a transaction confirmed by a fork block that was stored first and joined the longest chain in a later reorganisation stays in the pool (and is bundled into the chain a second time) since commit e668c9f")); }
}

/// C04: a rejected block leaves the chain index exactly as it was — also when it was the first block the node was offered
#[tokio::test]
#[serial_test::serial]
async fn rejected_first_block_leaves_the_node_without_a_block() {
    #[allow(unused_imports)] use crate::core::util::crypto::generate_keys;
    #[allow(unused_imports)] use crate::core::util::test::test_manager::test::TestManager;
    #[allow(unused_imports)] use crate::core::defs::PrintForLog;
    #[allow(unused_imports)] use crate::core::consensus::block::Block;
    #[allow(unused_imports)] use crate::core::util::crypto::hash;
    use crate::core::consensus::block::BlockType;
    use crate::core::util::configuration::{
        BlockchainConfig, Configuration, ConsensusConfig, PeerConfig, Server,
    };

    // the configuration of a node that has finished loading its (empty) block directory
    #[derive(Debug)]
    struct LoadedNodeConfig {
        consensus: ConsensusConfig,
        blockchain: BlockchainConfig,
        peers: Vec<PeerConfig>,
    }
    impl Configuration for LoadedNodeConfig {
        fn get_server_configs(&self) -> Option<&Server> {
            None
        }
        fn get_peer_configs(&self) -> &Vec<PeerConfig> {
            &self.peers
        }
        fn get_blockchain_configs(&self) -> &BlockchainConfig {
            &self.blockchain
        }
        fn get_block_fetch_url(&self) -> String {
            "".to_string()
        }
        fn is_spv_mode(&self) -> bool {
            false
        }
        fn is_browser(&self) -> bool {
            false
        }
        fn replace(&mut self, _config: &dyn Configuration) {}
        fn get_consensus_config(&self) -> Option<&ConsensusConfig> {
            Some(&self.consensus)
        }
    }
    fn loaded_node_config() -> LoadedNodeConfig {
        let mut blockchain = BlockchainConfig::default();
        blockchain.initial_loading_completed = true;
        LoadedNodeConfig {
            consensus: ConsensusConfig {
                genesis_period: 100,
                heartbeat_interval: 100,
                prune_after_blocks: 8,
                max_staker_recursions: 3,
                default_social_stake: 0,
                default_social_stake_period: 60,
            },
            blockchain,
            peers: vec![],
        }
    }
    // a block as a peer hands it over
    fn over_the_wire(block: &Block) -> Block {
        Block::deserialize_from_net(&block.serialize_for_net(BlockType::Full)).unwrap()
    }

    // the chain of the peer : blocks 1 and 2
    let mut peer = TestManager::default();
    peer.initialize(10, 1_000_000_000).await;
    let peer_block1 = peer.get_latest_block().await;
    let peer_block2 = peer
        .create_block(
            peer_block1.hash,
            peer_block1.timestamp + 120_000,
            0,
            0,
            0,
            true,
        )
        .await;
    let peer_block2_hash = peer_block2.hash;
    assert!(matches!(
        peer.add_block(over_the_wire(&peer_block2)).await,
        AddBlockResult::BlockAddedSuccessfully(_, true, _)
    ));

    // the offending block : the peer's block 1 under a signature that is not its creator's
    let mut bad1 = over_the_wire(&peer_block1);
    bad1.sign(&generate_keys().1);

    // control : a fresh node that has finished loading starts its chain from the peer's block 2
    {
        let mut node = TestManager::default();
        let configs = loaded_node_config();
        let mut blockchain = node.blockchain_lock.write().await;
        let mut mempool = node.mempool_lock.write().await;
        assert!(blockchain.blockring.is_empty());
        let result = blockchain
            .add_block(
                over_the_wire(&peer_block2),
                &mut node.storage,
                &mut mempool,
                &configs,
            )
            .await;
        assert!(
            matches!(result, AddBlockResult::BlockAddedSuccessfully(_, true, _)),
            "control : a fresh node must accept the peer's block 2 as its first block, got {:?}",
            result
        );
        assert_eq!(blockchain.get_latest_block_hash(), peer_block2_hash);
    }

    // the same fresh node is first offered the offending block
    let mut node = TestManager::default();
    let configs = loaded_node_config();
    let mut blockchain = node.blockchain_lock.write().await;
    let mut mempool = node.mempool_lock.write().await;
    assert!(blockchain.blockring.is_empty());

    let result = blockchain
        .add_block(bad1, &mut node.storage, &mut mempool, &configs)
        .await;
    assert!(
        matches!(result, AddBlockResult::FailedNotValid),
        "setup : the block with the foreign signature must be rejected, got {:?}",
        result
    );
    // setup sanity : nothing of the block is kept
    assert!(blockchain.blocks.is_empty());
    assert!(blockchain.utxoset.is_empty());
    assert_eq!(blockchain.get_latest_block_id(), 0);
    assert_eq!(blockchain.get_latest_block_hash(), [0; 32]);
    assert!(blockchain.blockring.get_block_hashes_at_block_id(1).is_empty());

    let empty_after_rejection = blockchain.blockring.is_empty();
    let result = blockchain
        .add_block(
            over_the_wire(&peer_block2),
            &mut node.storage,
            &mut mempool,
            &configs,
        )
        .await;
    if !(empty_after_rejection
            && matches!(result, AddBlockResult::BlockAddedSuccessfully(_, true, _))) { witness(format!("the first block offered to a node without any block was rejected (FailedNotValid, 0 blocks stored, tip 0), yet the chain index no longer says empty: blockring.is_empty() = {} (before the call: true); because of that the node now answers {} to the peer's valid block 2 {}, which the same node accepts as its first block (BlockAddedSuccessfully, longest chain) when the rejected block was never offered - a rejected block must leave the chain index exactly as it was", empty_after_rejection, match &result {
            AddBlockResult::FailedButRetry(_, fetch_previous, fetch_chain) => format!(
                "FailedButRetry(fetch previous block = {}, fetch whole chain = {})",
                fetch_previous, fetch_chain
            ),
            other => format!("{:?}", other),
        }, peer_block2_hash.to_hex())); }
}

/// C15: a fresh node that receives the peer's blocks out of order (2,1,3,4,5) ends on the peer's chain with the peer's ledger
#[tokio::test]
#[serial_test::serial]
async fn fresh_node_handed_block_two_before_block_one_follows_the_chain() {
    #[allow(unused_imports)] use crate::core::util::test::test_manager::test::TestManager;
    #[allow(unused_imports)] use crate::core::consensus::block::Block;
    #[allow(unused_imports)] use crate::core::consensus::block::BlockType;
    #[allow(unused_imports)] use crate::core::consensus::blockchain::AddBlockResult;
    #[allow(unused_imports)] use crate::core::defs::SaitoHash;
    #[allow(unused_imports)] use crate::core::util::crypto::hash;
    // the producer builds blocks 1..=5; every block after the first carries a payment out of
    // the producer's wallet, so the later blocks spend what the earlier ones (block 1 first of
    // all: the issuance) created
    let mut t = TestManager::default();
    t.initialize(100, 200_000_000_000_000).await;
    let mut blocks: Vec<Block> = vec![t.get_latest_block().await];
    for i in 2..=5u64 {
        let parent = t.get_latest_block().await;
        let mut block = t
            .create_block(parent.hash, parent.timestamp + 120000, 1, 1000, 0, true)
            .await;
        block.generate().unwrap();
        let result = t.add_block(block.clone()).await;
        assert!(
            matches!(result, AddBlockResult::BlockAddedSuccessfully(_, true, _)),
            "setup: the producer extends its own chain with block {}",
            i
        );
        blocks.push(block);
    }
    assert_eq!(t.get_latest_block().await.id, 5, "setup: producer is at block 5");

    // what travels is the serialised block
    let wire: Vec<Vec<u8>> = blocks
        .iter()
        .map(|block| block.serialize_for_net(crate::core::consensus::block::BlockType::Full))
        .collect();
    let hashes: Vec<SaitoHash> = blocks.iter().map(|block| block.hash).collect();

    // the fresh node: no block, no peers configured, nothing on its mind
    let mut t2 = TestManager::default();
    t2.disable_staking().await;
    assert!(
        t2.blockchain_lock.read().await.blocks.is_empty(),
        "setup: the receiving node holds no block"
    );

    // arrival order: 2, 1, 3, 4, 5
    for index in [1usize, 0, 2, 3, 4] {
        let block = Block::deserialize_from_net(&wire[index]).unwrap();
        let _ = t2.add_block(block).await;
    }

    let blockchain = t2.blockchain_lock.read().await;
    for hash in hashes.iter() {
        assert!(
            blockchain.blocks.contains_key(hash),
            "setup: the node kept every block it was handed"
        );
    }
    assert_eq!(
        blockchain.get_latest_block_id(),
        5,
        "setup: the node's tip is at height 5"
    );
    if !((blockchain
            .blockring
            .get_longest_chain_block_hash_at_block_id(1)) == (Some(hashes[0]))) { witness(format!("a fresh node that was handed block 2 before block 1 never takes block 1 (the issuance) into its longest chain and ledger any more, so it cannot follow the honest chain: broken by 0ad1743 (the out-of-order branch of add_block was removed instead of being made to unwind)")); }
}
