// Replay / extraction-validation module for mempool.rs (compiled only under --cfg saito_verif in the test build)
#[allow(unused_imports)]
use super::*;
include!("/verif/replay/in_crate/common.rs");
use crate::core::util::test::test_manager::test::TestManager;
use crate::core::util::crypto::generate_keys;
use crate::core::defs::{SaitoPrivateKey, SaitoPublicKey, SaitoUTXOSetKey};
use crate::core::consensus::slip::Slip;

fn mk_tx(pk: SaitoPublicKey, sk: &SaitoPrivateKey, inputs: &[(u64, u64)], salt: u8) -> Transaction {
    let mut tx = Transaction::default();
    if salt % 3 == 0 {
        // the zero-amount input the wallet puts first when it has nothing else to put there
        let mut z = Slip::default(); z.public_key = pk; z.amount = 0; tx.from.push(z);
    }
    for (ord, amount) in inputs.iter() {
        let mut s = Slip::default(); s.public_key = pk; s.amount = *amount; s.block_id = 1; s.tx_ordinal = *ord; s.slip_index = 0;
        tx.from.push(s);
    }
    let mut o = Slip::default(); o.public_key = pk; o.amount = 1;
    tx.to.push(o);
    tx.data = vec![salt];
    tx.sign(sk);
    tx.generate(&pk, 0, 0);
    tx
}

/// C14: the pool never holds two transactions spending the same output, and an output that no pooled transaction spends
/// can always be spent by a new transaction (no stale reservation), over random add/delete sequences
#[tokio::test]
#[serial_test::serial]
async fn reservation_index_contract() {
    let t = TestManager::default();
    let (pk, sk) = generate_keys();
    let mut rng = Rng::from_env();
    for run in 0..150 {
        let mut mempool = Mempool::new(t.wallet_lock.clone());
        let mut trace: Vec<String> = vec![];
        let mut pooled: Vec<Transaction> = vec![];
        for step in 0..12 {
            let n_in = 1 + rng.below(2) as usize;
            let inputs: Vec<(u64, u64)> = (0..n_in).map(|_| (rng.below(5), 10)).collect();
            let action = rng.below(4);
            if action == 3 && !pooled.is_empty() {
                // what Blockchain::remove_block_transactions does when a block arrives: pooled transactions that no longer
                // validate are dropped with `transactions.retain(..)`, then delete_transactions(block.transactions) runs —
                // here the block carries none of the pooled transactions
                let k = rng.below(pooled.len() as u64) as usize;
                let gone = pooled.remove(k);
                mempool.transactions.retain(|sig, _| *sig != gone.signature);
                let foreign = mk_tx(pk, &sk, &[(90 + rng.below(5), 10)], 200 + step as u8);
                mempool.delete_transactions(&vec![foreign]);
                trace.push(format!("dropped-as-invalid(inputs={:?}) + delete(foreign block)", gone.from.iter().map(|s| s.tx_ordinal).collect::<Vec<_>>()));
            } else if action < 2 {
                let tx = mk_tx(pk, &sk, &inputs, step as u8);
                let keys: Vec<SaitoUTXOSetKey> = tx.from.iter().filter(|s| s.amount > 0).map(|s| s.utxoset_key).collect();   // zero-amount inputs reserve nothing
                let conflict = pooled.iter().any(|p| p.from.iter().any(|s| s.amount > 0 && keys.contains(&s.utxoset_key)));
                let sig = tx.signature;
                mempool.add_transaction(tx.clone()).await;
                let admitted = mempool.transactions.contains_key(&sig);
                trace.push(format!("add(inputs={:?})→{}", inputs.iter().map(|x| x.0).collect::<Vec<_>>(), admitted));
                if admitted { pooled.push(tx); }
                if conflict && admitted { witness(format!("run {}: transaction spending an output already spent by a pooled transaction was admitted: {:?}", run, trace)); }
                if !conflict && !admitted { witness(format!("run {}: transaction whose inputs no pooled transaction spends was refused (stale reservation locks the funds): {:?}", run, trace)); }
            } else if !pooled.is_empty() {
                let k = rng.below(pooled.len() as u64) as usize;
                let gone = pooled.remove(k);
                mempool.delete_transactions(&vec![gone.clone()]);
                trace.push(format!("delete(inputs={:?})", gone.from.iter().map(|s| s.tx_ordinal).collect::<Vec<_>>()));
            }
            for a in 0..pooled.len() { for b in (a + 1)..pooled.len() {
                if pooled[a].from.iter().any(|s| s.amount > 0 && pooled[b].from.iter().any(|x| x.amount > 0 && x.utxoset_key == s.utxoset_key)) { witness(format!("run {}: two pooled transactions share an input: {:?}", run, trace)); }
            } }
        }
    }
}

/// C14 (bundling): a bundled block takes every pooled transaction with it and leaves no reservation behind — with and
/// without a staking transaction, for one to three pooled transactions.
#[tokio::test]
#[serial_test::serial]
async fn bundling_empties_the_pool_and_its_reservations() {
    use std::ops::Deref;
    let mut bundled = 0;
    for staking in [false, true] {
        for n_pooled in 1..=3usize {
            let mut t = TestManager::default();
            t.initialize(100, 200_000_000_000_000).await;
            if staking { t.enable_staking(200_000_000_000_000).await; }
            let (pk, sk) = { let w = t.wallet_lock.read().await; (w.public_key, w.private_key) };
            let configs = t.config_lock.read().await;
            let genesis_period = configs.get_consensus_config().unwrap().genesis_period;
            let blockchain = t.blockchain_lock.read().await;
            let tip_id = blockchain.get_latest_block_id();
            let ts = blockchain.get_latest_block().unwrap().timestamp;
            let mut mempool = t.mempool_lock.write().await;
            let mut pooled = vec![];
            for k in 0..n_pooled {
                let mut tx = { let mut w = t.wallet_lock.write().await; Transaction::create(&mut w, pk, 1_000 + k as u64, 0, false, None, tip_id, genesis_period).unwrap() };
                tx.timestamp = ts + 1 + k as u64;
                tx.sign(&sk);
                tx.generate(&pk, 0, 0);
                mempool.add_transaction_if_validates(tx.clone(), &blockchain).await;
                assert!(mempool.transactions.contains_key(&tx.signature), "setup: transaction {} pooled", k);
                pooled.push(tx);
            }
            let block = mempool.bundle_block(&blockchain, ts + 120_000, None, configs.deref(), &t.storage).await;
            let desc = format!("{} pooled transaction(s), staking transaction {}", n_pooled, if staking { "required" } else { "not required" });
            match block {
                None => {
                    if mempool.transactions.len() != n_pooled { witness(format!("bundling gave no block but the pool changed ({} → {} transactions): {}", n_pooled, mempool.transactions.len(), desc)); }
                }
                Some(block) => {
                    bundled += 1;
                    for tx in pooled.iter() { if !block.transactions.iter().any(|b| b.signature == tx.signature) { witness(format!("a pooled transaction is neither in the bundled block nor in the pool: {}", desc)); } }
                    if !mempool.transactions.is_empty() { witness(format!("{} transaction(s) still pooled after bundling: {}", mempool.transactions.len(), desc)); }
                    if !mempool.utxo_map.is_empty() {
                        witness(format!("{} input(s) still reserved after bundling although no transaction is pooled (block carries {:?}): {}", mempool.utxo_map.len(),
                            block.transactions.iter().map(|tx| format!("{:?}", tx.transaction_type)).collect::<Vec<_>>(), desc));
                    }
                    if mempool.get_routing_work_available() != 0 { witness(format!("routing work {} reported for an empty pool: {}", mempool.get_routing_work_available(), desc)); }
                }
            }
        }
    }
    assert!(bundled >= 4, "setup: bundling must succeed in most scenarios (succeeded in {})", bundled);
}

/// C14 (bundling, second half): a bundling attempt that yields no block leaves the pool unchanged. The block is made to
/// fail AFTER Block::create has drained the pool: the golden ticket handed to the bundler carries a truncated payload
/// (Block::generate refuses it), or two pooled transactions conflict (planted directly, as after an undetected
/// double spend) so that Block::create's own double-spend detection fires
#[tokio::test]
#[serial_test::serial]
async fn failed_bundling_leaves_the_pool_unchanged() {
    use std::ops::Deref;
    let mut failed = 0;
    for scenario in ["truncated golden ticket", "conflicting pooled transactions"] {
        for n_pooled in 1..=3usize {
            let mut t = TestManager::default();
            t.initialize(100, 200_000_000_000_000).await;
            let (pk, sk) = { let w = t.wallet_lock.read().await; (w.public_key, w.private_key) };
            let configs = t.config_lock.read().await;
            let genesis_period = configs.get_consensus_config().unwrap().genesis_period;
            let blockchain = t.blockchain_lock.read().await;
            let tip_id = blockchain.get_latest_block_id();
            let ts = blockchain.get_latest_block().unwrap().timestamp;
            let mut mempool = t.mempool_lock.write().await;
            for k in 0..n_pooled {
                let mut tx = { let mut w = t.wallet_lock.write().await; Transaction::create(&mut w, pk, 1_000 + k as u64, 0, false, None, tip_id, genesis_period).unwrap() };
                tx.timestamp = ts + 1 + k as u64;
                tx.sign(&sk);
                tx.generate(&pk, 0, 0);
                mempool.add_transaction_if_validates(tx.clone(), &blockchain).await;
                assert!(mempool.transactions.contains_key(&tx.signature), "setup: transaction {} pooled", k);
            }
            let mut gt_tx = None;
            if scenario == "truncated golden ticket" {
                let mut gt = Transaction::default();
                gt.transaction_type = TransactionType::GoldenTicket;
                gt.data = vec![7u8; 40];
                gt.timestamp = ts + 50;
                gt.sign(&sk);
                gt.generate(&pk, 0, 0);
                gt_tx = Some(gt);
            } else {
                // a second transaction spending the inputs of a pooled one, planted next to it
                let first = mempool.transactions.values().next().unwrap().clone();
                let mut twin = first.clone();
                twin.timestamp += 1000;
                twin.sign(&sk);
                twin.generate(&pk, 0, 0);
                mempool.transactions.insert(twin.signature, twin);
            }
            let before: Vec<_> = { let mut v: Vec<_> = mempool.transactions.keys().cloned().collect(); v.sort(); v };
            let reserved_before: Vec<_> = { let mut v: Vec<_> = mempool.utxo_map.keys().cloned().collect(); v.sort(); v };
            let block = mempool.bundle_block(&blockchain, ts + 120_000, gt_tx, configs.deref(), &t.storage).await;
            if block.is_none() {
                failed += 1;
                let after: Vec<_> = { let mut v: Vec<_> = mempool.transactions.keys().cloned().collect(); v.sort(); v };
                let reserved_after: Vec<_> = { let mut v: Vec<_> = mempool.utxo_map.keys().cloned().collect(); v.sort(); v };
                if after != before || reserved_after != reserved_before {
                    witness(format!("bundling gave no block ({}, {} pooled transaction(s)) but did not leave the pool as it was: {} pooled before, {} after; {} inputs reserved before, {} after",
                        scenario, n_pooled, before.len(), after.len(), reserved_before.len(), reserved_after.len()));
                }
            }
        }
    }
    assert!(failed >= 3, "setup: the bundling attempts must fail after the pool was drained (failed in {})", failed);
}

/// C14: after every block addition every pooled transaction is still valid against the ledger — also when what makes it
/// invalid is that its input has left the retention window (scenario of an independent audit)
#[tokio::test]
#[serial_test::serial]
async fn pooled_transaction_whose_input_expires_leaves_the_pool() {
    use crate::core::consensus::slip::Slip;
    use crate::core::util::crypto::generate_keys;

    let mut t = TestManager::default();
    t.initialize(100, 200_000_000_000_000).await;
    let genesis_period = {
        let configs = t.config_lock.read().await;
        configs.get_consensus_config().unwrap().genesis_period
    };

    // block 2 pays an outside key K : output O
    let (k_public, k_private) = generate_keys();
    t.transfer_value_to_public_key(k_public, 1_000_000, 120_000)
        .await
        .unwrap();
    let o: Slip = {
        let blockchain = t.blockchain_lock.read().await;
        assert_eq!(blockchain.get_latest_block_id(), 2);
        let block = blockchain.get_latest_block().unwrap();
        block
            .transactions
            .iter()
            .flat_map(|tx| tx.to.iter())
            .find(|slip| slip.public_key == k_public && slip.amount == 1_000_000)
            .expect("block 2 pays K")
            .clone()
    };
    assert_eq!(o.block_id, 2);

    // T : K spends O. it arrives while O is well inside the retention window and is pooled
    let mut tx_t = Transaction::default();
    tx_t.add_from_slip(o.clone());
    let mut output = Slip::default();
    output.public_key = k_public;
    output.amount = o.amount;
    tx_t.add_to_slip(output);
    tx_t.timestamp = crate::core::util::test::test_manager::test::create_timestamp();
    tx_t.generate(&k_public, 0, 0);
    tx_t.sign(&k_private);
    {
        let blockchain = t.blockchain_lock.read().await;
        let mut mempool = t.mempool_lock.write().await;
        mempool
            .add_transaction_if_validates(tx_t.clone(), &blockchain)
            .await;
        assert_eq!(mempool.transactions.len(), 1, "T is valid and is pooled");
    }

    // peers extend the chain with blocks that do not carry T (a golden ticket in every second
    // block); after every block addition every pooled transaction must still be valid
    for i in 0..genesis_period {
        let ts = t.get_latest_block().await.timestamp + 120_000;
        let block = t
            .create_block(t.latest_block_hash, ts, 1, 1_000, 0, i % 2 == 0)
            .await;
        t.add_block(block).await;

        let blockchain = t.blockchain_lock.read().await;
        let mempool = t.mempool_lock.read().await;
        assert_eq!(blockchain.get_latest_block_id(), 3 + i, "block was added");
        for tx in mempool.transactions.values() {
            if !tx.validate(&blockchain.utxoset, &blockchain, true) { witness(format!(
                "after the addition of block {} the pool still holds a transaction that is no longer valid against the ledger: its input of block {} has left the retention window (genesis_period {}), add_transaction_if_validates() would refuse it now",
                blockchain.get_latest_block_id(),
                tx.from[0].block_id,
                genesis_period
            )); }
        }
    }
}

/// C14: a ticket transaction is filed outside the reservation index: it never spends what a pooled transaction may spend
#[tokio::test]
#[serial_test::serial]
async fn golden_ticket_transaction_never_spends_what_a_pooled_transaction_spends() {
    #[allow(unused_imports)] use std::ops::Deref;
    #[allow(unused_imports)] use crate::core::consensus::wallet::Wallet;
    #[allow(unused_imports)] use crate::core::util::test::test_manager::test::TestManager;
    #[allow(unused_imports)] use crate::core::consensus::transaction::Transaction;
    #[allow(unused_imports)] use crate::core::consensus::block::Block;
    #[allow(unused_imports)] use crate::core::consensus::golden_ticket::GoldenTicket;
    #[allow(unused_imports)] use crate::core::util::crypto::hash;
    #[allow(unused_imports)] use crate::core::consensus::mempool::Mempool;
    use crate::core::consensus::slip::Slip;
    use crate::core::util::crypto::generate_keys;

    // block 1 issues 5_000_000 to a peer's key and 100_000_000 to the node
    let (peer_public_key, peer_private_key) = generate_keys();
    let mut t = TestManager::default();
    let mut issued = Slip::default();
    issued.public_key = peer_public_key;
    issued.amount = 5_000_000;
    t.initialize_from_slips_and_value(vec![issued], 100_000_000)
        .await;

    let configs = t.config_lock.read().await;
    let blockchain = t.blockchain_lock.read().await;
    let mut mempool = t.mempool_lock.write().await;
    let node_public_key = t.wallet_lock.read().await.public_key;
    let tip = blockchain.get_latest_block().unwrap();
    assert_eq!(tip.id, 1);

    let output = blockchain
        .utxoset
        .iter()
        .filter_map(|(key, spendable)| {
            let slip = Slip::parse_slip_from_utxokey(key).ok()?;
            (*spendable && slip.public_key == peer_public_key && slip.amount > 0).then_some(slip)
        })
        .next()
        .expect("setup: the peer owns an unspent output");
    assert_eq!(output.amount, 5_000_000);

    // what the node does with a transaction a peer sends: VerificationThread::verify_tx, then
    // ConsensusThread (golden tickets -> Mempool::add_golden_ticket, the rest -> add_transaction_if_validates)
    let pay_to_self = |timestamp: Timestamp| {
        let mut tx = Transaction::default();
        tx.timestamp = timestamp;
        tx.add_from_slip(output.clone());
        tx.add_to_slip(Slip {
            public_key: peer_public_key,
            amount: output.amount,
            ..Default::default()
        });
        tx.sign(&peer_private_key);
        tx.generate(&node_public_key, 0, 0);
        tx
    };

    // the peer's payment spending the output is pooled and the output reserved
    let payment = pay_to_self(tip.timestamp + 1);
    assert!(
        !payment.is_block_generated_type()
            && payment.validate(&blockchain.utxoset, &blockchain, true)
    );
    mempool
        .add_transaction_if_validates(payment.clone(), &blockchain)
        .await;
    assert_eq!(mempool.transactions.len(), 1);
    assert!(mempool.utxo_map.contains_key(&output.utxoset_key));

    // control: a second payment spending the same output validates against the ledger, and the pool refuses it
    let second_payment = pay_to_self(tip.timestamp + 2);
    assert_ne!(second_payment.signature, payment.signature);
    assert!(second_payment.validate(&blockchain.utxoset, &blockchain, true));
    mempool
        .add_transaction_if_validates(second_payment.clone(), &blockchain)
        .await;
    assert_eq!(
        mempool.transactions.len(),
        1,
        "control: the pool refuses a second payment that spends a reserved output"
    );
    let before = mempool
        .can_bundle_block(
            &blockchain,
            tip.timestamp + 120_000,
            &None,
            configs.deref(),
            &node_public_key,
        )
        .await;
    assert!(
        before.is_some(),
        "control: the pool can be bundled before the ticket arrives"
    );

    // the peer's golden ticket transaction spends the same output (the tip's difficulty is 0: every ticket solves it)
    let ticket = GoldenTicket::create(tip.hash, hash(&[7u8]), peer_public_key);
    assert!(ticket.validate(tip.difficulty));
    let mut ticket_tx =
        Wallet::create_golden_ticket_transaction(ticket, &peer_public_key, &peer_private_key)
            .await;
    ticket_tx.from = vec![output.clone()];
    ticket_tx.to = vec![Slip {
        public_key: peer_public_key,
        amount: output.amount,
        ..Default::default()
    }];
    ticket_tx.sign(&peer_private_key);
    ticket_tx.generate(&node_public_key, 0, 0);
    assert!(
        !ticket_tx.is_block_generated_type()
            && ticket_tx.validate(&blockchain.utxoset, &blockchain, true),
        "setup: the verification thread passes the golden ticket transaction on"
    );
    mempool.add_golden_ticket(ticket_tx.clone()).await;

    let spenders = mempool
        .transactions
        .values()
        .chain(mempool.golden_tickets.values().map(|(tx, _)| tx))
        .filter(|tx| {
            tx.from
                .iter()
                .any(|input| input.utxoset_key == output.utxoset_key)
        })
        .count();

    // ConsensusThread::bundle_block: the ticket filed under the tip goes into the block
    let filed = mempool
        .golden_tickets
        .get(&blockchain.get_latest_block_hash())
        .map(|(tx, _)| tx.clone());
    // (on the repaired tree the ticket transaction is not filed at all)
    let _ = mempool
        .can_bundle_block(
            &blockchain,
            tip.timestamp + 120_000,
            &filed,
            configs.deref(),
            &node_public_key,
        )
        .await;
    let bundled = mempool
        .bundle_block(
            &blockchain,
            tip.timestamp + 120_000,
            filed,
            configs.deref(),
            &t.storage,
        )
        .await;

    if !(spenders <= 1) { witness(format!("the mempool holds {} transactions that spend the peer's output of 5000000 (block 1): the payment in \
         Mempool::transactions and a golden ticket transaction in Mempool::golden_tickets, which \
         Mempool::add_golden_ticket files without looking at the reserved inputs; bundling the two yields a block: {} \
         (Block::create finds the double spend), and so will every attempt while block 1 is the tip, with {} \
         transaction waiting in the pool", spenders, bundled.is_some(), mempool.transactions.len())); }
}

/// C14: bundling yields a valid block or leaves the pool unchanged, also when a peer's staking transaction is pooled next to the one the node adds itself
#[allow(dead_code)]
/// what the node does with a transaction a peer sends, up to the block it bundles from its pool:
/// VerificationThread::verify_tx, ConsensusThread::bundle_block (add_transaction_if_validates,
/// Mempool::bundle_block, Blockchain::add_block). returns the verdict on the bundled block, the number of
/// staking transactions the block carried and the number of transactions pooled afterwards.
async fn audit_demo_receive_transaction_and_bundle(
    t: &mut TestManager,
    mut peer_tx: Transaction,
    timestamp: Timestamp,
) -> (crate::core::consensus::blockchain::AddBlockResult, usize, usize) {
    let config_lock = t.config_lock.clone();
    let blockchain_lock = t.blockchain_lock.clone();
    let mempool_lock = t.mempool_lock.clone();
    let block;
    {
        let configs = config_lock.read().await;
        let blockchain = blockchain_lock.read().await;
        let mut mempool = mempool_lock.write().await;
        let public_key = t.wallet_lock.read().await.public_key;

        peer_tx.generate(&public_key, 0, 0);
        assert!(
            !peer_tx.is_block_generated_type()
                && peer_tx.validate(&blockchain.utxoset, &blockchain, true),
            "setup: the verification thread passes the peer's transaction on"
        );
        mempool
            .add_transaction_if_validates(peer_tx.clone(), &blockchain)
            .await;
        // (a peer's staking transaction may be refused at the pool's door: on the repaired tree it is)
        if !peer_tx.is_staking_transaction() {
            assert!(
                mempool.transactions.contains_key(&peer_tx.signature),
                "setup: the peer's transaction is pooled"
            );
        }
        block = mempool
            .bundle_block(&blockchain, timestamp, None, std::ops::Deref::deref(&configs), &t.storage)
            .await;
    }
    // (no block and an untouched pool is the other outcome the property allows: reported as block 0 added)
    let block = match block {
        Some(block) => block,
        None => {
            let pooled = mempool_lock.read().await.transactions.len();
            return (
                crate::core::consensus::blockchain::AddBlockResult::BlockAddedSuccessfully([0; 32], false, Default::default()),
                0,
                pooled,
            );
        }
    };
    let staking_transactions = block
        .transactions
        .iter()
        .filter(|tx| tx.is_staking_transaction())
        .count();
    let result = t.add_block(block).await;
    let pooled = mempool_lock.read().await.transactions.len();
    (result, staking_transactions, pooled)
}

#[tokio::test]
#[serial_test::serial]
async fn pooled_staking_transaction_of_a_peer_does_not_spoil_the_bundled_block() {
    #[allow(unused_imports)] use std::ops::Deref;
    #[allow(unused_imports)] use crate::core::util::test::test_manager::test::TestManager;
    #[allow(unused_imports)] use crate::core::consensus::transaction::Transaction;
    #[allow(unused_imports)] use crate::core::consensus::transaction::TransactionType;
    #[allow(unused_imports)] use crate::core::consensus::block::Block;
    #[allow(unused_imports)] use crate::core::consensus::blockchain::Blockchain;
    use crate::core::consensus::blockchain::AddBlockResult;
    use crate::core::consensus::slip::{Slip, SlipType};
    use crate::core::defs::NOLAN_PER_SAITO;
    use crate::core::util::crypto::generate_keys;

    // block 1 issues two outputs of 10 SAITO to a peer's key and 1000 SAITO to the node; every later block has to
    // carry exactly one staking transaction of at least 2 SAITO
    let (peer_public_key, peer_private_key) = generate_keys();
    let mut t = TestManager::default();
    let mut issued = Slip::default();
    issued.public_key = peer_public_key;
    issued.amount = 10 * NOLAN_PER_SAITO;
    t.initialize_from_slips_and_value(vec![issued.clone(), issued], 1000 * NOLAN_PER_SAITO)
        .await;
    t.enable_staking(2 * NOLAN_PER_SAITO).await;
    let ts = t.get_latest_block().await.timestamp;

    let outputs: Vec<Slip> = {
        let blockchain = t.blockchain_lock.read().await;
        blockchain
            .utxoset
            .iter()
            .filter_map(|(key, spendable)| {
                let slip = Slip::parse_slip_from_utxokey(key).ok()?;
                (*spendable && slip.public_key == peer_public_key && slip.amount > 0)
                    .then_some(slip)
            })
            .collect()
    };
    assert_eq!(outputs.len(), 2);

    // control: the peer sends a payment. the node bundles it with its own staking transaction: block 2 is added
    let mut payment = Transaction::default();
    payment.timestamp = ts + 1;
    payment.add_from_slip(outputs[0].clone());
    payment.add_to_slip(Slip {
        public_key: peer_public_key,
        amount: outputs[0].amount,
        ..Default::default()
    });
    payment.sign(&peer_private_key);
    let (result, staking_transactions, pooled) =
        audit_demo_receive_transaction_and_bundle(&mut t, payment, ts + 120_000).await;
    assert_eq!(staking_transactions, 1);
    assert!(
        matches!(result, AddBlockResult::BlockAddedSuccessfully(_, true, _)),
        "control: the block bundled from a peer's payment and the node's staking transaction is added"
    );
    assert_eq!(pooled, 0);
    assert_eq!(t.get_latest_block().await.id, 2);

    // the peer sends a staking transaction of its own: 10 SAITO in, 2 SAITO staked, 8 SAITO change
    let mut staking = Transaction::default();
    staking.transaction_type = TransactionType::BlockStake;
    staking.timestamp = ts + 2;
    staking.add_from_slip(outputs[1].clone());
    staking.add_to_slip(Slip {
        public_key: peer_public_key,
        amount: 2 * NOLAN_PER_SAITO,
        slip_type: SlipType::BlockStake,
        ..Default::default()
    });
    staking.add_to_slip(Slip {
        public_key: peer_public_key,
        amount: 8 * NOLAN_PER_SAITO,
        ..Default::default()
    });
    staking.sign(&peer_private_key);

    let (result, staking_transactions, pooled) =
        audit_demo_receive_transaction_and_bundle(&mut t, staking.clone(), ts + 240_000).await;

    // the peer's transaction has left the pool without being confirmed: it can be sent again as it is
    let accepted_again = {
        let blockchain = t.blockchain_lock.read().await;
        let mut mempool = t.mempool_lock.write().await;
        mempool
            .add_transaction_if_validates(staking.clone(), &blockchain)
            .await;
        mempool.transactions.contains_key(&staking.signature)
    };

    if !(matches!(result, AddBlockResult::BlockAddedSuccessfully(_, _, _))) { witness(format!("the node bundled block 3 from a pool that held a peer's staking transaction (2 SAITO staked) and added its own: \
         the block carries {} staking transactions where Block::validate demands exactly one, so bundling yielded a \
         block that Blockchain::add_block refuses ({:?}) instead of a valid block; {} transactions are pooled afterwards \
         (neither staking transaction came back), and the peer's unconfirmed transaction is accepted again as it is: {}", staking_transactions, result, pooled, accepted_again)); }
}

/// C14 / C11: a peer's unsolved ticket filed under a block does not cost the node its own valid ticket for that block
#[tokio::test]
#[serial_test::serial]
async fn own_ticket_is_not_lost_behind_an_unsolved_ticket_of_a_peer() {
    #[allow(unused_imports)] use std::ops::Deref;
    #[allow(unused_imports)] use crate::core::consensus::wallet::Wallet;
    #[allow(unused_imports)] use crate::core::util::test::test_manager::test::TestManager;
    #[allow(unused_imports)] use crate::core::consensus::transaction::Transaction;
    #[allow(unused_imports)] use crate::core::consensus::blockchain::AddBlockResult;
    #[allow(unused_imports)] use crate::core::consensus::golden_ticket::GoldenTicket;
    use crate::core::util::crypto::{generate_keys, generate_random_bytes, hash};

    let mut t = TestManager::default();
    t.initialize(100, 200_000_000_000).await;

    // a few blocks with golden tickets in a row, so that the tip has a difficulty above zero
    for _ in 0..4 {
        let tip = t.get_latest_block().await;
        let mut block = t
            .create_block(tip.hash, tip.timestamp + 120_000, 0, 0, 0, true)
            .await;
        block.generate().unwrap();
        let result = t.add_block(block).await;
        assert!(matches!(
            result,
            crate::core::consensus::blockchain::AddBlockResult::BlockAddedSuccessfully(
                _,
                true,
                _
            )
        ));
    }
    let tip = t.get_latest_block().await;
    assert!(tip.difficulty > 0, "setup : the tip has a difficulty");

    // a peer's ticket for the tip that does not meet the difficulty arrives first
    let peer_keys = generate_keys();
    let mut random = hash(&generate_random_bytes(32).await);
    let mut unsolved = GoldenTicket::create(tip.hash, random, peer_keys.0);
    while unsolved.validate(tip.difficulty) {
        random = hash(&generate_random_bytes(32).await);
        unsolved = GoldenTicket::create(tip.hash, random, peer_keys.0);
    }
    let mut unsolved_tx =
        Wallet::create_golden_ticket_transaction(unsolved, &peer_keys.0, &peer_keys.1).await;
    unsolved_tx.generate(&peer_keys.0, 0, 0);

    // the node's own miner finds a solution afterwards
    let (public_key, private_key) = {
        let wallet = t.wallet_lock.read().await;
        (wallet.public_key, wallet.private_key)
    };
    let own_ticket =
        TestManager::create_golden_ticket(t.wallet_lock.clone(), tip.hash, tip.difficulty).await;
    assert!(own_ticket.validate(tip.difficulty));
    let mut own_tx =
        Wallet::create_golden_ticket_transaction(own_ticket, &public_key, &private_key).await;
    own_tx.generate(&public_key, 0, 0);

    let configs = t.config_lock.read().await;
    let blockchain = t.blockchain_lock.read().await;
    let mut mempool = t.mempool_lock.write().await;

    mempool.add_golden_ticket(unsolved_tx.clone()).await;
    mempool.add_golden_ticket(own_tx.clone()).await;
    assert_eq!(mempool.golden_tickets.len(), 1);

    // a pooled transaction, so that the bundler has something to bundle
    let mut tx = {
        let mut wallet = t.wallet_lock.write().await;
        Transaction::create(&mut wallet, public_key, 1_000, 1_000, false, None, tip.id, 100)
            .unwrap()
    };
    tx.sign(&private_key);
    tx.generate(&public_key, 0, 0);
    mempool.add_transaction_if_validates(tx, &blockchain).await;
    assert_eq!(mempool.transactions.len(), 1);

    // what ConsensusThread::bundle_block does on every tick
    let picked = mempool
        .golden_tickets
        .get(&tip.hash)
        .map(|(tx, _)| tx.clone());
    assert!(picked.is_some());
    let block = mempool
        .bundle_block(
            &blockchain,
            tip.timestamp + 120_000,
            picked,
            configs.deref(),
            &t.storage,
        )
        .await;

    // the unsolved ticket is gone (that is the repair) ...
    let filed = mempool.golden_tickets.get(&tip.hash).map(|(tx, _)| tx.clone());
    assert!(
        filed.is_none() || filed.as_ref().unwrap().signature != unsolved_tx.signature,
        "setup : the unsolved ticket is no longer filed"
    );
    // ... but so is the node's own ticket, which nobody will mine again for this tip
    let own_ticket_bundled = block
        .as_ref()
        .map(|block| {
            block
                .transactions
                .iter()
                .any(|tx| tx.signature == own_tx.signature)
        })
        .unwrap_or(false);
    let own_ticket_filed = filed
        .map(|tx| tx.signature == own_tx.signature)
        .unwrap_or(false);
    if !(own_ticket_bundled || own_ticket_filed) { witness(format!("the node's own valid golden ticket, handed in while a peer's unsolved ticket for the same block was filed, is thrown away and the bundler is left without any ticket for the tip : commit 1d11d04 checks a ticket only at bundling time, add_golden_ticket still lets the first (unchecked) ticket shadow every later one")); }
}
