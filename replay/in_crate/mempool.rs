// Replay / extraction-validation module for mempool.rs (compiled only under --cfg saito_verif in the test build)
#[allow(unused_imports)]
use super::*;
include!("/verif/replay/in_crate/common.rs");
use crate::core::util::test::test_manager::test::TestManager;
use crate::core::util::crypto::generate_keys;
use crate::core::defs::{SaitoPrivateKey, SaitoPublicKey, SaitoUTXOSetKey};
use crate::core::consensus::slip::Slip;

fn mk_tx(pk: SaitoPublicKey, sk: &SaitoPrivateKey, inputs: &[(u64, u64)], salt: u8) -> Transaction {
    let mut tx = Transaction::default();
    if salt % 3 == 0 {
        // the zero-amount input the wallet puts first when it has nothing else to put there
        let mut z = Slip::default(); z.public_key = pk; z.amount = 0; tx.from.push(z);
    }
    for (ord, amount) in inputs.iter() {
        let mut s = Slip::default(); s.public_key = pk; s.amount = *amount; s.block_id = 1; s.tx_ordinal = *ord; s.slip_index = 0;
        tx.from.push(s);
    }
    let mut o = Slip::default(); o.public_key = pk; o.amount = 1;
    tx.to.push(o);
    tx.data = vec![salt];
    tx.sign(sk);
    tx.generate(&pk, 0, 0);
    tx
}

/// C14: the pool never holds two transactions spending the same output, and an output that no pooled transaction spends
/// can always be spent by a new transaction (no stale reservation), over random add/delete sequences
#[tokio::test]
#[serial_test::serial]
async fn reservation_index_contract() {
    let t = TestManager::default();
    let (pk, sk) = generate_keys();
    let mut rng = Rng::from_env();
    for run in 0..150 {
        let mut mempool = Mempool::new(t.wallet_lock.clone());
        let mut trace: Vec<String> = vec![];
        let mut pooled: Vec<Transaction> = vec![];
        for step in 0..12 {
            let n_in = 1 + rng.below(2) as usize;
            let inputs: Vec<(u64, u64)> = (0..n_in).map(|_| (rng.below(5), 10)).collect();
            let action = rng.below(4);
            if action == 3 && !pooled.is_empty() {
                // what Blockchain::remove_block_transactions does when a block arrives: pooled transactions that no longer
                // validate are dropped with `transactions.retain(..)`, then delete_transactions(block.transactions) runs —
                // here the block carries none of the pooled transactions
                let k = rng.below(pooled.len() as u64) as usize;
                let gone = pooled.remove(k);
                mempool.transactions.retain(|sig, _| *sig != gone.signature);
                let foreign = mk_tx(pk, &sk, &[(90 + rng.below(5), 10)], 200 + step as u8);
                mempool.delete_transactions(&vec![foreign]);
                trace.push(format!("dropped-as-invalid(inputs={:?}) + delete(foreign block)", gone.from.iter().map(|s| s.tx_ordinal).collect::<Vec<_>>()));
            } else if action < 2 {
                let tx = mk_tx(pk, &sk, &inputs, step as u8);
                let keys: Vec<SaitoUTXOSetKey> = tx.from.iter().filter(|s| s.amount > 0).map(|s| s.utxoset_key).collect();   // zero-amount inputs reserve nothing
                let conflict = pooled.iter().any(|p| p.from.iter().any(|s| s.amount > 0 && keys.contains(&s.utxoset_key)));
                let sig = tx.signature;
                mempool.add_transaction(tx.clone()).await;
                let admitted = mempool.transactions.contains_key(&sig);
                trace.push(format!("add(inputs={:?})→{}", inputs.iter().map(|x| x.0).collect::<Vec<_>>(), admitted));
                if admitted { pooled.push(tx); }
                if conflict && admitted { witness(format!("run {}: transaction spending an output already spent by a pooled transaction was admitted: {:?}", run, trace)); }
                if !conflict && !admitted { witness(format!("run {}: transaction whose inputs no pooled transaction spends was refused (stale reservation locks the funds): {:?}", run, trace)); }
            } else if !pooled.is_empty() {
                let k = rng.below(pooled.len() as u64) as usize;
                let gone = pooled.remove(k);
                mempool.delete_transactions(&vec![gone.clone()]);
                trace.push(format!("delete(inputs={:?})", gone.from.iter().map(|s| s.tx_ordinal).collect::<Vec<_>>()));
            }
            for a in 0..pooled.len() { for b in (a + 1)..pooled.len() {
                if pooled[a].from.iter().any(|s| s.amount > 0 && pooled[b].from.iter().any(|x| x.amount > 0 && x.utxoset_key == s.utxoset_key)) { witness(format!("run {}: two pooled transactions share an input: {:?}", run, trace)); }
            } }
        }
    }
}
