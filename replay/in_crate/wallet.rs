// Replay / extraction-validation module for wallet.rs (compiled only under --cfg saito_verif in the test build)
#[allow(unused_imports)]
use super::*;
include!("/verif/replay/in_crate/common.rs");
use crate::core::util::crypto::generate_keys;

fn balance_matches(w: &Wallet) -> Result<(), String> {
    let mut sum: u128 = 0;
    for k in w.unspent_slips.iter() {
        match w.slips.get(k) { Some(s) => sum += s.amount as u128, None => return Err("an unspent key is not among the wallet's slips".into()) }
    }
    if sum != w.get_available_balance() as u128 { return Err(format!("available_balance {} != sum of unspent slips {}", w.get_available_balance(), sum)); }
    Ok(())
}

/// C19: available balance == sum of the outputs listed as unspent, over random add / delete / spend / expiry sequences;
/// transactions the wallet builds never reference the same output twice and never spend more than they consume
#[test]
fn balance_is_sum_of_unspent() {
    let (pk, sk) = generate_keys();
    let mut rng = Rng::from_env();
    for run in 0..300 {
        let mut w = Wallet::new(sk, pk);
        let mut trace: Vec<String> = vec![];
        let mut known: Vec<Slip> = vec![];
        for _ in 0..25 {
            match rng.below(5) {
                0 | 1 => {
                    let mut s = Slip::default(); s.public_key = pk; s.amount = 1 + rng.below(1000); s.block_id = 1 + rng.below(20); s.tx_ordinal = rng.below(4); s.slip_index = rng.below(3) as u8;
                    s.slip_type = match rng.below(6) { 0 => SlipType::BlockStake, 1 => SlipType::Bound, 2 => SlipType::MinerOutput, _ => SlipType::Normal };
                    s.generate_utxoset_key();
                    w.add_slip(s.block_id, s.tx_ordinal, &s, true, None);
                    trace.push(format!("add({:?},{})", s.slip_type, s.amount));
                    if rng.below(3) == 0 {
                        // the same output reported again (e.g. the block is processed twice): must change nothing
                        let bal = w.get_available_balance();
                        w.add_slip(s.block_id, s.tx_ordinal, &s, true, None);
                        trace.push("add(again)".into());
                        if w.get_available_balance() != bal { witness(format!("run {}: re-adding a slip the wallet already knows changed the balance from {} to {}: {:?}", run, bal, w.get_available_balance(), trace)); }
                    }
                    known.push(s);
                }
                2 => { if !known.is_empty() { let k = rng.below(known.len() as u64) as usize; let s = known.remove(k); w.delete_slip(&s, None); trace.push(format!("delete({})", s.amount)); } }
                3 => {
                    let want = rng.below(1500);
                    let (inputs, outputs) = w.generate_slips(want, None, 10, 100);
                    trace.push(format!("spend({})→in {:?} out {:?}", want, inputs.iter().map(|s| s.amount).collect::<Vec<_>>(), outputs.iter().map(|s| s.amount).collect::<Vec<_>>()));
                    let mut keys: Vec<SaitoUTXOSetKey> = inputs.iter().filter(|s| s.amount > 0).map(|s| s.get_utxoset_key()).collect();
                    let n = keys.len(); keys.sort(); keys.dedup();
                    if keys.len() != n { witness(format!("run {}: generate_slips returned the same output twice: {:?}", run, trace)); }
                    let sin: u128 = inputs.iter().map(|s| s.amount as u128).sum(); let sout: u128 = outputs.iter().map(|s| s.amount as u128).sum();
                    if sout > sin { witness(format!("run {}: change {} exceeds inputs {}: {:?}", run, sout, sin, trace)); }
                    if sin >= want as u128 && sout != sin - want as u128 { witness(format!("run {}: change {} != inputs {} - requested {}: {:?}", run, sout, sin, want, trace)); }
                }
                _ => {
                    let cut = rng.below(20); w.remove_old_slips(cut); trace.push(format!("expire(<{})", cut));
                    // exactly the outputs created before the cut-off block are forgotten
                    for s in known.iter() {
                        let has = w.slips.contains_key(&s.get_utxoset_key());
                        if s.block_id >= cut && !has { witness(format!("run {}: the wallet forgot an output of block {} when told to drop what is older than block {}: {:?}", run, s.block_id, cut, trace)); }
                        if s.block_id < cut && has { witness(format!("run {}: the wallet kept an output of block {} when told to drop what is older than block {}: {:?}", run, s.block_id, cut, trace)); }
                    }
                    known.retain(|s| s.block_id >= cut);
                }
            }
            if let Err(e) = balance_matches(&w) { witness(format!("run {}: {} after {:?}", run, e, trace)); }
        }
    }
}

/// C19: the wallet stops short of the requested amount only when every slip it may spend right now (inside the retention
/// window) has been handed out — slips about to be rebroadcast are skipped, not a reason to stop looking
/// (note: the test build iterates the unspent slips sorted by amount, the release build in hash-set order)
#[test]
fn spendable_funds_used_before_giving_up() {
    let (pk, sk) = generate_keys();
    let mut rng = Rng::from_env();
    for run in 0..400 {
        let mut w = Wallet::new(sk, pk);
        let gp = 10u64; let latest = 12 + rng.below(4);
        let n = 1 + rng.below(6);
        let mut desc = vec![];
        for i in 0..n {
            let mut s = Slip::default(); s.public_key = pk; s.amount = 1 + rng.below(1000); s.block_id = 1 + rng.below(latest); s.tx_ordinal = i; s.slip_index = 0;
            s.generate_utxoset_key();
            w.add_slip(s.block_id, s.tx_ordinal, &s, true, None);
            desc.push((s.block_id, s.amount));
        }
        let want = 1 + rng.below(1500);
        let spendable_before: u128 = w.unspent_slips.iter().map(|k| w.slips.get(k).unwrap()).filter(|s| s.block_id > latest.saturating_sub(gp - 1)).map(|s| s.amount as u128).sum();
        let (inputs, _outputs) = w.generate_slips(want, None, latest, gp);
        let sin: u128 = inputs.iter().map(|s| s.amount as u128).sum();
        let left: Vec<(u64, u64)> = w.unspent_slips.iter().map(|k| w.slips.get(k).unwrap()).filter(|s| s.block_id > latest.saturating_sub(gp - 1)).map(|s| (s.block_id, s.amount)).collect();
        if sin < want as u128 && !left.is_empty() {
            witness(format!("run {}: wallet slips (block, amount) {:?}, latest block {}, retention window {}: {} requested, spendable in-window funds {}, inputs handed out {} — although in-window slips {:?} were still unspent", run, desc, latest, gp, want, spendable_before, sin, left));
        }
        if let Err(e) = balance_matches(&w) { witness(format!("run {}: {}", run, e)); }
    }
}

/// C19 (known finding): Transaction::create checks the request against the available balance, which also counts slips
/// that are about to leave the retention window; Wallet::generate_slips skips those — the transaction it then builds
/// pays out more than its inputs carry
#[test]
fn built_transaction_never_spends_more_than_it_consumes() {
    let (pk, sk) = generate_keys();
    let mut w = Wallet::new(sk, pk);
    let mut s = Slip::default(); s.public_key = pk; s.amount = 1000; s.block_id = 1; s.tx_ordinal = 0; s.slip_index = 0;
    s.generate_utxoset_key();
    w.add_slip(1, 0, &s, true, None);
    let (latest, gp) = (12u64, 10u64);
    match Transaction::create(&mut w, [7u8; 33], 500, 0, false, None, latest, gp) {
        Err(_) => {}
        Ok(tx) => {
            let sin: u128 = tx.from.iter().map(|s| s.amount as u128).sum(); let sout: u128 = tx.to.iter().map(|s| s.amount as u128).sum();
            if sout > sin {
                witness(format!("wallet holds one unspent slip of 1000 from block 1, latest block {}, retention window {} (the slip is about to be rebroadcast); Transaction::create(payment 500) succeeds: available balance 1000 covers it, but generate_slips skips the slip — the built transaction has inputs {:?} and outputs {:?}: it spends {} and consumes {}",
                    latest, gp, tx.from.iter().map(|s| s.amount).collect::<Vec<_>>(), tx.to.iter().map(|s| s.amount).collect::<Vec<_>>(), sout, sin));
            }
        }
    }
}

/// C19 (third sentence, after a reorganisation): what the wallet records about a slip must be the slip — otherwise the
/// inputs it later builds from that record name an output that does not exist. A block that spends one of the wallet's
/// slips is wound and unwound again; afterwards every recorded slip must still regenerate its own ledger key.
#[test]
fn unwound_block_restores_the_slip_it_spent() {
    use crate::core::consensus::block::Block;
    let (pk, sk) = generate_keys();
    let mut rng = Rng::from_env();
    for round in 0..50 {
        let mut w = Wallet::new(sk, pk);
        // an output of block 3 (transaction #2, slip #1) that belongs to the wallet
        let mut s = Slip::default(); s.public_key = pk; s.amount = 1 + rng.below(10_000); s.block_id = 3; s.tx_ordinal = 2; s.slip_index = 1;
        s.generate_utxoset_key();
        w.add_slip(3, 2, &s, true, None);
        // block 5: its transaction #k spends that output
        let k = rng.below(3) as usize;
        let mut b = Block::new(); b.id = 5;
        for j in 0..3usize {
            let mut tx = Transaction::default();
            if j == k { tx.from.push(s.clone()); }
            let mut o = Slip::default(); o.public_key = [9u8; 33]; o.amount = 1; o.block_id = 5; o.tx_ordinal = j as u64; o.slip_index = 0; o.generate_utxoset_key();
            tx.to.push(o);
            tx.generate_hash_for_signature();
            b.transactions.push(tx);
        }
        w.on_chain_reorganization(&b, true, 100);
        if w.slips.contains_key(&s.utxoset_key) { witness(format!("round {}: the spent slip is still recorded after winding the block that spends it", round)); }
        w.on_chain_reorganization(&b, false, 100);
        if let Err(e) = balance_matches(&w) { witness(format!("round {}: {}", round, e)); }
        match w.slips.get(&s.utxoset_key) {
            None => witness(format!("round {}: unwinding the block did not bring the spent slip back", round)),
            Some(ws) => {
                let mut again = Slip::default(); again.public_key = pk; again.amount = ws.amount; again.block_id = ws.block_id; again.tx_ordinal = ws.tx_ordinal; again.slip_index = ws.slip_index; again.slip_type = ws.slip_type;
                if again.get_utxoset_key() != s.utxoset_key {
                    witness(format!("wallet slip from block 3, transaction 2, slip 1 (amount {}) is spent by transaction #{} of block 5; the block is wound and unwound again: the wallet now records the slip as block {}, transaction {}, slip {} — an input built from this record (as Wallet::generate_slips does) names a ledger key that does not exist, so the transaction cannot validate",
                        s.amount, k, ws.block_id, ws.tx_ordinal, ws.slip_index));
                }
            }
        }
    }
}

/// C19: a light client's wallet processes a lite block in which omitted transactions are merged into one placeholder that
/// stands for several transactions — the position it records for its own output must still be the ledger's position
#[test]
fn lite_block_positions_are_the_ledgers() {
    use crate::core::consensus::block::Block;
    let (pk, sk) = generate_keys();
    for repl in 1..5u32 {
        let mut w = Wallet::new(sk, pk);
        let mut b = Block::new(); b.id = 7;
        // placeholder standing for `repl` omitted transactions, then a payment to the wallet: its ledger ordinal is `repl`
        let mut spv = Transaction::default(); spv.transaction_type = TransactionType::SPV; spv.txs_replacements = repl; spv.generate_hash_for_signature();
        b.transactions.push(spv);
        let mut pay = Transaction::default();
        let mut o = Slip::default(); o.public_key = pk; o.amount = 500; o.block_id = 7; o.tx_ordinal = repl as u64; o.slip_index = 0; o.generate_utxoset_key();
        pay.to.push(o.clone()); pay.generate_hash_for_signature();
        b.transactions.push(pay);
        w.on_chain_reorganization(&b, true, 100);
        match w.slips.get(&o.utxoset_key) {
            None => witness(format!("placeholder for {} transactions followed by a payment to the wallet: the output was not recorded", repl)),
            Some(ws) => if ws.block_id != 7 || ws.tx_ordinal != repl as u64 || ws.slip_index != 0 {
                witness(format!("lite block 7 = [placeholder standing for {} transactions, payment to the wallet]: the wallet records its output as block {}, transaction {}, slip {} — the ledger has it at transaction {}; inputs built from this record name a ledger key that does not exist", repl, ws.block_id, ws.tx_ordinal, ws.slip_index, repl)); }
        }
        if let Err(e) = balance_matches(&w) { witness(e); }
    }
}

/// C10/C12: the wallet file decoder is fed whatever is on disk (RustIOHandler::load_wallet passes the file's bytes
/// unchecked); a truncated or torn file must not abort the node
#[test]
fn wallet_file_decoder_total() {
    let (pk, sk) = generate_keys();
    let w = Wallet::new(sk, pk);
    let full = w.serialize_for_disk();
    if full.len() != 65 { witness(format!("wallet file is {} bytes, expected 65", full.len())); }
    for cut in 0..=full.len() {
        let bytes = full[..cut].to_vec();
        let prev = std::panic::take_hook();
        std::panic::set_hook(Box::new(|_| {}));
        let r = std::panic::catch_unwind(move || { let (p2, s2) = ([0u8; 33], [0u8; 32]); let mut w2 = Wallet::new(s2, p2); w2.deserialize_from_disk(&bytes); (w2.public_key, w2.private_key) });
        std::panic::set_hook(prev);
        match r {
            Err(_) => witness(format!("Wallet::deserialize_from_disk panicked on a wallet file truncated to {} of 65 bytes (RustIOHandler::load_wallet passes the file content unchecked)", cut)),
            Ok((p, s)) => { if cut == 65 && (p != pk || s != sk) { witness("wallet file does not round trip".into()); } }
        }
    }
}

/// C09 (snapshot record): a balance snapshot written out as text and read back describes the same outputs — owner,
/// coordinates, amount AND type, hence the same ledger key (what Wallet::update_from_balance_snapshot files them under).
/// Bounded: string formatting and parsing are outside the verifier's reach
#[test]
fn balance_snapshot_record_keeps_the_output_it_describes() {
    use crate::core::util::balance_snapshot::BalanceSnapshot;
    use crate::core::consensus::slip::SlipType;
    use num_traits::FromPrimitive;
    let mut rng = Rng::from_env();
    for code in 0..10u8 {
        let slip_type = match SlipType::from_u8(code) { Some(t) => t, None => continue };
        if matches!(slip_type, SlipType::Bound) { continue; }   // (Blockchain::get_balance_snapshot leaves Bound slips out)
        let mut s = Slip::default();
        s.public_key = crate::core::util::crypto::generate_keys().0; s.block_id = 1 + rng.below(1000); s.tx_ordinal = rng.below(50); s.slip_index = rng.below(5) as u8; s.amount = 1 + rng.below(1_000_000);
        s.slip_type = slip_type;
        s.generate_utxoset_key();
        let snapshot = BalanceSnapshot { latest_block_id: 7, latest_block_hash: [3; 32], timestamp: 1_700_000_000_000, slips: vec![s.clone()] };
        let (file_name, rows) = snapshot.get_data();
        let back = match BalanceSnapshot::new(file_name, rows.clone()) { Ok(b) => b, Err(e) => witness(format!("a snapshot the node wrote is refused when read back: {}", e)) };
        let r = &back.slips[0];
        if r.slip_type != s.slip_type || r.utxoset_key != s.utxoset_key || r.amount != s.amount || r.block_id != s.block_id || r.tx_ordinal != s.tx_ordinal || r.slip_index != s.slip_index || r.public_key != s.public_key {
            witness(format!("an unspent {:?} output of {} nolan at {}-{}-{} is written to the balance snapshot as {:?} and read back as a {:?} output: its ledger key differs ({}… vs {}…), so a wallet loaded from the snapshot counts the amount but builds inputs the ledger does not know",
                s.slip_type, s.amount, s.block_id, s.tx_ordinal, s.slip_index, rows[0], r.slip_type, hex::encode(&s.utxoset_key[50..59]), hex::encode(&r.utxoset_key[50..59])));
        }
    }
}
