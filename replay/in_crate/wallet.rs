// Replay / extraction-validation module for wallet.rs (compiled only under --cfg saito_verif in the test build)
#[allow(unused_imports)]
use super::*;
include!("/verif/replay/in_crate/common.rs");
use crate::core::util::crypto::generate_keys;

fn balance_matches(w: &Wallet) -> Result<(), String> {
    let mut sum: u128 = 0;
    for k in w.unspent_slips.iter() {
        match w.slips.get(k) { Some(s) => sum += s.amount as u128, None => return Err("an unspent key is not among the wallet's slips".into()) }
    }
    if sum != w.get_available_balance() as u128 { return Err(format!("available_balance {} != sum of unspent slips {}", w.get_available_balance(), sum)); }
    Ok(())
}

/// C19: available balance == sum of the outputs listed as unspent, over random add / delete / spend / expiry sequences;
/// transactions the wallet builds never reference the same output twice and never spend more than they consume
#[test]
fn balance_is_sum_of_unspent() {
    let (pk, sk) = generate_keys();
    let mut rng = Rng::from_env();
    for run in 0..300 {
        let mut w = Wallet::new(sk, pk);
        let mut trace: Vec<String> = vec![];
        let mut known: Vec<Slip> = vec![];
        for _ in 0..25 {
            match rng.below(5) {
                0 | 1 => {
                    let mut s = Slip::default(); s.public_key = pk; s.amount = 1 + rng.below(1000); s.block_id = 1 + rng.below(20); s.tx_ordinal = rng.below(4); s.slip_index = rng.below(3) as u8;
                    s.slip_type = match rng.below(6) { 0 => SlipType::BlockStake, 1 => SlipType::Bound, 2 => SlipType::MinerOutput, _ => SlipType::Normal };
                    s.generate_utxoset_key();
                    w.add_slip(s.block_id, s.tx_ordinal, &s, true, None);
                    trace.push(format!("add({:?},{})", s.slip_type, s.amount));
                    if rng.below(3) == 0 {
                        // the same output reported again (e.g. the block is processed twice): must change nothing
                        let bal = w.get_available_balance();
                        w.add_slip(s.block_id, s.tx_ordinal, &s, true, None);
                        trace.push("add(again)".into());
                        if w.get_available_balance() != bal { witness(format!("run {}: re-adding a slip the wallet already knows changed the balance from {} to {}: {:?}", run, bal, w.get_available_balance(), trace)); }
                    }
                    known.push(s);
                }
                2 => { if !known.is_empty() { let k = rng.below(known.len() as u64) as usize; let s = known.remove(k); w.delete_slip(&s, None); trace.push(format!("delete({})", s.amount)); } }
                3 => {
                    let want = rng.below(1500);
                    let (inputs, outputs) = w.generate_slips(want, None, 10, 100);
                    trace.push(format!("spend({})→in {:?} out {:?}", want, inputs.iter().map(|s| s.amount).collect::<Vec<_>>(), outputs.iter().map(|s| s.amount).collect::<Vec<_>>()));
                    let mut keys: Vec<SaitoUTXOSetKey> = inputs.iter().filter(|s| s.amount > 0).map(|s| s.get_utxoset_key()).collect();
                    let n = keys.len(); keys.sort(); keys.dedup();
                    if keys.len() != n { witness(format!("run {}: generate_slips returned the same output twice: {:?}", run, trace)); }
                    let sin: u128 = inputs.iter().map(|s| s.amount as u128).sum(); let sout: u128 = outputs.iter().map(|s| s.amount as u128).sum();
                    if sout > sin { witness(format!("run {}: change {} exceeds inputs {}: {:?}", run, sout, sin, trace)); }
                    if sin >= want as u128 && sout != sin - want as u128 { witness(format!("run {}: change {} != inputs {} - requested {}: {:?}", run, sout, sin, want, trace)); }
                }
                _ => {
                    let cut = rng.below(20); w.remove_old_slips(cut); trace.push(format!("expire(<{})", cut));
                    // exactly the outputs created before the cut-off block are forgotten
                    for s in known.iter() {
                        let has = w.slips.contains_key(&s.get_utxoset_key());
                        if s.block_id >= cut && !has { witness(format!("run {}: the wallet forgot an output of block {} when told to drop what is older than block {}: {:?}", run, s.block_id, cut, trace)); }
                        if s.block_id < cut && has { witness(format!("run {}: the wallet kept an output of block {} when told to drop what is older than block {}: {:?}", run, s.block_id, cut, trace)); }
                    }
                    known.retain(|s| s.block_id >= cut);
                }
            }
            if let Err(e) = balance_matches(&w) { witness(format!("run {}: {} after {:?}", run, e, trace)); }
        }
    }
}

/// C19: the wallet stops short of the requested amount only when every slip it may spend right now (inside the retention
/// window) has been handed out — slips about to be rebroadcast are skipped, not a reason to stop looking
/// (note: the test build iterates the unspent slips sorted by amount, the release build in hash-set order)
#[test]
fn spendable_funds_used_before_giving_up() {
    let (pk, sk) = generate_keys();
    let mut rng = Rng::from_env();
    for run in 0..400 {
        let mut w = Wallet::new(sk, pk);
        let gp = 10u64; let latest = 12 + rng.below(4);
        let n = 1 + rng.below(6);
        let mut desc = vec![];
        for i in 0..n {
            let mut s = Slip::default(); s.public_key = pk; s.amount = 1 + rng.below(1000); s.block_id = 1 + rng.below(latest); s.tx_ordinal = i; s.slip_index = 0;
            s.generate_utxoset_key();
            w.add_slip(s.block_id, s.tx_ordinal, &s, true, None);
            desc.push((s.block_id, s.amount));
        }
        let want = 1 + rng.below(1500);
        let spendable_before: u128 = w.unspent_slips.iter().map(|k| w.slips.get(k).unwrap()).filter(|s| s.block_id > latest.saturating_sub(gp - 1)).map(|s| s.amount as u128).sum();
        let (inputs, _outputs) = w.generate_slips(want, None, latest, gp);
        let sin: u128 = inputs.iter().map(|s| s.amount as u128).sum();
        let left: Vec<(u64, u64)> = w.unspent_slips.iter().map(|k| w.slips.get(k).unwrap()).filter(|s| s.block_id > latest.saturating_sub(gp - 1)).map(|s| (s.block_id, s.amount)).collect();
        if sin < want as u128 && !left.is_empty() {
            witness(format!("run {}: wallet slips (block, amount) {:?}, latest block {}, retention window {}: {} requested, spendable in-window funds {}, inputs handed out {} — although in-window slips {:?} were still unspent", run, desc, latest, gp, want, spendable_before, sin, left));
        }
        if let Err(e) = balance_matches(&w) { witness(format!("run {}: {}", run, e)); }
    }
}

/// C19 (known finding): Transaction::create checks the request against the available balance, which also counts slips
/// that are about to leave the retention window; Wallet::generate_slips skips those — the transaction it then builds
/// pays out more than its inputs carry
#[test]
fn built_transaction_never_spends_more_than_it_consumes() {
    let (pk, sk) = generate_keys();
    let mut w = Wallet::new(sk, pk);
    let mut s = Slip::default(); s.public_key = pk; s.amount = 1000; s.block_id = 1; s.tx_ordinal = 0; s.slip_index = 0;
    s.generate_utxoset_key();
    w.add_slip(1, 0, &s, true, None);
    let (latest, gp) = (12u64, 10u64);
    match Transaction::create(&mut w, [7u8; 33], 500, 0, false, None, latest, gp) {
        Err(_) => {}
        Ok(tx) => {
            let sin: u128 = tx.from.iter().map(|s| s.amount as u128).sum(); let sout: u128 = tx.to.iter().map(|s| s.amount as u128).sum();
            if sout > sin {
                witness(format!("wallet holds one unspent slip of 1000 from block 1, latest block {}, retention window {} (the slip is about to be rebroadcast); Transaction::create(payment 500) succeeds: available balance 1000 covers it, but generate_slips skips the slip — the built transaction has inputs {:?} and outputs {:?}: it spends {} and consumes {}",
                    latest, gp, tx.from.iter().map(|s| s.amount).collect::<Vec<_>>(), tx.to.iter().map(|s| s.amount).collect::<Vec<_>>(), sout, sin));
            }
        }
    }
}

/// C19 (third sentence, after a reorganisation): what the wallet records about a slip must be the slip — otherwise the
/// inputs it later builds from that record name an output that does not exist. A block that spends one of the wallet's
/// slips is wound and unwound again; afterwards every recorded slip must still regenerate its own ledger key.
#[test]
fn unwound_block_restores_the_slip_it_spent() {
    use crate::core::consensus::block::Block;
    let (pk, sk) = generate_keys();
    let mut rng = Rng::from_env();
    for round in 0..50 {
        let mut w = Wallet::new(sk, pk);
        // an output of block 3 (transaction #2, slip #1) that belongs to the wallet
        let mut s = Slip::default(); s.public_key = pk; s.amount = 1 + rng.below(10_000); s.block_id = 3; s.tx_ordinal = 2; s.slip_index = 1;
        s.generate_utxoset_key();
        w.add_slip(3, 2, &s, true, None);
        // block 5: its transaction #k spends that output
        let k = rng.below(3) as usize;
        let mut b = Block::new(); b.id = 5;
        for j in 0..3usize {
            let mut tx = Transaction::default();
            if j == k { tx.from.push(s.clone()); }
            let mut o = Slip::default(); o.public_key = [9u8; 33]; o.amount = 1; o.block_id = 5; o.tx_ordinal = j as u64; o.slip_index = 0; o.generate_utxoset_key();
            tx.to.push(o);
            tx.generate_hash_for_signature();
            b.transactions.push(tx);
        }
        w.on_chain_reorganization(&b, true, 100);
        if w.slips.contains_key(&s.utxoset_key) { witness(format!("round {}: the spent slip is still recorded after winding the block that spends it", round)); }
        w.on_chain_reorganization(&b, false, 100);
        if let Err(e) = balance_matches(&w) { witness(format!("round {}: {}", round, e)); }
        match w.slips.get(&s.utxoset_key) {
            None => witness(format!("round {}: unwinding the block did not bring the spent slip back", round)),
            Some(ws) => {
                let mut again = Slip::default(); again.public_key = pk; again.amount = ws.amount; again.block_id = ws.block_id; again.tx_ordinal = ws.tx_ordinal; again.slip_index = ws.slip_index; again.slip_type = ws.slip_type;
                if again.get_utxoset_key() != s.utxoset_key {
                    witness(format!("wallet slip from block 3, transaction 2, slip 1 (amount {}) is spent by transaction #{} of block 5; the block is wound and unwound again: the wallet now records the slip as block {}, transaction {}, slip {} — an input built from this record (as Wallet::generate_slips does) names a ledger key that does not exist, so the transaction cannot validate",
                        s.amount, k, ws.block_id, ws.tx_ordinal, ws.slip_index));
                }
            }
        }
    }
}

/// C19: a light client's wallet processes a lite block in which omitted transactions are merged into one placeholder that
/// stands for several transactions — the position it records for its own output must still be the ledger's position
#[test]
fn lite_block_positions_are_the_ledgers() {
    use crate::core::consensus::block::Block;
    let (pk, sk) = generate_keys();
    for repl in 1..5u32 {
        let mut w = Wallet::new(sk, pk);
        let mut b = Block::new(); b.id = 7;
        // placeholder standing for `repl` omitted transactions, then a payment to the wallet: its ledger ordinal is `repl`
        let mut spv = Transaction::default(); spv.transaction_type = TransactionType::SPV; spv.txs_replacements = repl; spv.generate_hash_for_signature();
        b.transactions.push(spv);
        let mut pay = Transaction::default();
        let mut o = Slip::default(); o.public_key = pk; o.amount = 500; o.block_id = 7; o.tx_ordinal = repl as u64; o.slip_index = 0; o.generate_utxoset_key();
        pay.to.push(o.clone()); pay.generate_hash_for_signature();
        b.transactions.push(pay);
        w.on_chain_reorganization(&b, true, 100);
        match w.slips.get(&o.utxoset_key) {
            None => witness(format!("placeholder for {} transactions followed by a payment to the wallet: the output was not recorded", repl)),
            Some(ws) => if ws.block_id != 7 || ws.tx_ordinal != repl as u64 || ws.slip_index != 0 {
                witness(format!("lite block 7 = [placeholder standing for {} transactions, payment to the wallet]: the wallet records its output as block {}, transaction {}, slip {} — the ledger has it at transaction {}; inputs built from this record name a ledger key that does not exist", repl, ws.block_id, ws.tx_ordinal, ws.slip_index, repl)); }
        }
        if let Err(e) = balance_matches(&w) { witness(e); }
    }
}

/// C10/C12: the wallet file decoder is fed whatever is on disk (RustIOHandler::load_wallet passes the file's bytes
/// unchecked); a truncated or torn file must not abort the node
#[test]
fn wallet_file_decoder_total() {
    let (pk, sk) = generate_keys();
    let w = Wallet::new(sk, pk);
    let full = w.serialize_for_disk();
    if full.len() != 65 { witness(format!("wallet file is {} bytes, expected 65", full.len())); }
    for cut in 0..=full.len() {
        let bytes = full[..cut].to_vec();
        let prev = std::panic::take_hook();
        std::panic::set_hook(Box::new(|_| {}));
        let r = std::panic::catch_unwind(move || { let (p2, s2) = ([0u8; 33], [0u8; 32]); let mut w2 = Wallet::new(s2, p2); w2.deserialize_from_disk(&bytes); (w2.public_key, w2.private_key) });
        std::panic::set_hook(prev);
        match r {
            Err(_) => witness(format!("Wallet::deserialize_from_disk panicked on a wallet file truncated to {} of 65 bytes (RustIOHandler::load_wallet passes the file content unchecked)", cut)),
            Ok((p, s)) => { if cut == 65 && (p != pk || s != sk) { witness("wallet file does not round trip".into()); } }
        }
    }
}

/// C09 (snapshot record): a balance snapshot written out as text and read back describes the same outputs — owner,
/// coordinates, amount AND type, hence the same ledger key (what Wallet::update_from_balance_snapshot files them under).
/// Bounded: string formatting and parsing are outside the verifier's reach
#[test]
fn balance_snapshot_record_keeps_the_output_it_describes() {
    use crate::core::util::balance_snapshot::BalanceSnapshot;
    use crate::core::consensus::slip::SlipType;
    use num_traits::FromPrimitive;
    let mut rng = Rng::from_env();
    for code in 0..10u8 {
        let slip_type = match SlipType::from_u8(code) { Some(t) => t, None => continue };
        if matches!(slip_type, SlipType::Bound) { continue; }   // (Blockchain::get_balance_snapshot leaves Bound slips out)
        let mut s = Slip::default();
        s.public_key = crate::core::util::crypto::generate_keys().0; s.block_id = 1 + rng.below(1000); s.tx_ordinal = rng.below(50); s.slip_index = rng.below(5) as u8; s.amount = 1 + rng.below(1_000_000);
        s.slip_type = slip_type;
        s.generate_utxoset_key();
        let snapshot = BalanceSnapshot { latest_block_id: 7, latest_block_hash: [3; 32], timestamp: 1_700_000_000_000, slips: vec![s.clone()] };
        let (file_name, rows) = snapshot.get_data();
        let back = match BalanceSnapshot::new(file_name, rows.clone()) { Ok(b) => b, Err(e) => witness(format!("a snapshot the node wrote is refused when read back: {}", e)) };
        let r = &back.slips[0];
        if r.slip_type != s.slip_type || r.utxoset_key != s.utxoset_key || r.amount != s.amount || r.block_id != s.block_id || r.tx_ordinal != s.tx_ordinal || r.slip_index != s.slip_index || r.public_key != s.public_key {
            witness(format!("an unspent {:?} output of {} nolan at {}-{}-{} is written to the balance snapshot as {:?} and read back as a {:?} output: its ledger key differs ({}… vs {}…), so a wallet loaded from the snapshot counts the amount but builds inputs the ledger does not know",
                s.slip_type, s.amount, s.block_id, s.tx_ordinal, s.slip_index, rows[0], r.slip_type, hex::encode(&s.utxoset_key[50..59]), hex::encode(&r.utxoset_key[50..59])));
        }
    }
}

/// C19: on a chain without reorganisation the outputs the wallet lists as unspent are the ledger's spendable in-window outputs for
/// its key — also at the edge of the window (an output of block b is refused once the tip has reached b + genesis_period) — scenario of
/// an independent audit
#[tokio::test]
#[serial_test::serial]
async fn wallet_lists_exactly_the_outputs_the_ledger_still_accepts() {
    #[allow(unused_imports)] use crate::core::util::test::test_manager::test::TestManager;
    #[allow(unused_imports)] use crate::core::consensus::slip::Slip;
    #[allow(unused_imports)] use crate::core::consensus::slip::SlipType;
    #[allow(unused_imports)] use crate::core::defs::Currency;
    #[allow(unused_imports)] use crate::core::consensus::transaction::Transaction;
    #[allow(unused_imports)] use crate::core::defs::SaitoPublicKey;
    use crate::core::consensus::blockchain::AddBlockResult;
    use crate::core::util::test::test_manager::test::create_timestamp;

    // what the ledger holds for a key : unspent outputs that a transaction may still name as
    // inputs (the retention rule of Transaction::validate : latest < block_id + genesis_period)
    async fn ledger_spendable(t: &TestManager, public_key: SaitoPublicKey) -> (Currency, u64) {
        let blockchain = t.blockchain_lock.read().await;
        let latest_block_id = blockchain.get_latest_block_id();
        let mut total: Currency = 0;
        let mut count = 0;
        for (key, spendable) in blockchain.utxoset.iter() {
            let slip = Slip::parse_slip_from_utxokey(key).unwrap();
            if *spendable
                && slip.public_key == public_key
                && slip.slip_type != SlipType::Bound
                && slip.slip_type != SlipType::BlockStake
                && latest_block_id < slip.block_id + blockchain.genesis_period
            {
                total += slip.amount;
                count += 1;
            }
        }
        (total, count)
    }

    let mut t = TestManager::default();
    let my_public_key = { t.wallet_lock.read().await.public_key };
    // block 1 pays the wallet's key two outputs of 1000 nolan
    let start = create_timestamp() - 400 * 120_000;
    t.initialize_with_timestamp(2, 1000, start).await;
    let genesis_period = {
        let blockchain = t.blockchain_lock.read().await;
        blockchain.genesis_period
    };
    assert_eq!(genesis_period, 100);

    // an honest chain without any reorganisation : every block carries one payment of 10 nolan
    // from the wallet to itself, every other block a golden ticket. One 1000 nolan output of
    // block 1 is never touched.
    for target in [genesis_period, genesis_period + 1] {
        loop {
            let latest = t.get_latest_block().await;
            if latest.id >= target {
                break;
            }
            let block = t
                .create_block(
                    t.latest_block_hash,
                    latest.timestamp + 120_000,
                    1,
                    10,
                    0,
                    latest.id % 2 == 1,
                )
                .await;
            let result = t.add_block(block).await;
            assert!(matches!(
                result,
                AddBlockResult::BlockAddedSuccessfully(_, true, _)
            ));
        }

        let (ledger_total, ledger_count) = ledger_spendable(&t, my_public_key).await;
        let wallet_lock = t.get_wallet_lock();
        let wallet = wallet_lock.read().await;
        assert!(wallet.pending_txs.is_empty());
        let listed: Currency = wallet
            .unspent_slips
            .iter()
            .map(|key| wallet.slips.get(key).unwrap().amount)
            .sum();
        assert_eq!(listed, wallet.get_available_balance());
        let oldest = wallet
            .unspent_slips
            .iter()
            .map(|key| wallet.slips.get(key).unwrap().block_id)
            .min()
            .unwrap();

        if target == genesis_period {
            // control : at block 100 the wallet and the ledger agree
            assert_eq!(wallet.get_available_balance(), ledger_total);
            assert_eq!(wallet.get_unspent_slip_count(), ledger_count);
        } else {
            if !(((wallet.get_available_balance(), wallet.get_unspent_slip_count())) == ((ledger_total, ledger_count))) { witness(format!("at block {} (genesis period {}, no reorganisation, nothing pending) the wallet lists {} unspent outputs with a balance of {} nolan, the oldest from block {}, while the ledger has {} spendable in-window outputs worth {} nolan for the same key : Transaction::validate refuses inputs of block {} since block {} (latest >= block_id + genesis_period), but remove_old_slips only drops outputs of blocks < latest - genesis_period, so the wallet counts 1000 nolan it cannot spend", target, genesis_period, wallet.get_unspent_slip_count(), wallet.get_available_balance(), oldest, ledger_count, ledger_total, oldest, oldest + genesis_period)); }
        }
    }
}

/// C19: transactions the wallet builds never spend more than they consume — a request whose amounts sum past u64::MAX is refused,
/// not wrapped — scenario of an independent audit
#[tokio::test]
#[serial_test::serial]
async fn payment_request_whose_amounts_overflow_is_refused() {
    #[allow(unused_imports)] use crate::core::util::test::test_manager::test::TestManager;
    #[allow(unused_imports)] use crate::core::defs::Currency;
    #[allow(unused_imports)] use crate::core::consensus::transaction::Transaction;
    #[allow(unused_imports)] use std::panic::AssertUnwindSafe;
    let mut t = TestManager::default();
    // block 1 pays the wallet's key one output of 1000 nolan
    t.initialize(1, 1000).await;
    let (latest_block_id, genesis_period) = {
        let blockchain = t.blockchain_lock.read().await;
        (blockchain.get_latest_block_id(), blockchain.genesis_period)
    };
    let key_a = TestManager::generate_random_public_key();
    let key_b = TestManager::generate_random_public_key();
    let wallet_lock = t.get_wallet_lock();
    let wallet = wallet_lock.read().await.clone();
    assert_eq!(wallet.get_available_balance(), 1000);

    // control : payments the wallet cannot afford are refused
    {
        let mut control_wallet = wallet.clone();
        let result = Transaction::create_with_multiple_payments(
            &mut control_wallet,
            vec![key_a, key_b],
            vec![Currency::MAX - 5, 2],
            0,
            None,
            latest_block_id,
            genesis_period,
        );
        assert!(result.is_err());
        assert_eq!(control_wallet.get_available_balance(), 1000);
    }

    // two payments whose sum wraps around to 1 nolan
    let mut hostile_wallet = wallet.clone();
    let outcome = std::panic::catch_unwind(std::panic::AssertUnwindSafe(|| {
        Transaction::create_with_multiple_payments(
            &mut hostile_wallet,
            vec![key_a, key_b],
            vec![Currency::MAX, 2],
            0,
            None,
            latest_block_id,
            genesis_period,
        )
    }));
    match outcome {
        Err(_) => panic!(
            "Transaction::create_with_multiple_payments with payments [18446744073709551615, 2] from a wallet holding 1000 nolan panicked on the unchecked sum of the payments (overflow checks of this build) instead of refusing the request; where the checks are off (the release profile) the sum wraps to 1 nolan, passes the funds check, and the wallet builds a transaction that consumes 1000 nolan and pays out more than 18446744073709551615 nolan"
        ),
        Ok(Err(_)) => {}
        Ok(Ok(tx)) => {
            let consumed: u128 = tx.from.iter().map(|slip| slip.amount as u128).sum();
            let spent: u128 = tx.to.iter().map(|slip| slip.amount as u128).sum();
            if !(spent <= consumed) { witness(format!("Transaction::create_with_multiple_payments with payments [18446744073709551615, 2] from a wallet holding 1000 nolan : the sum of the payments wrapped to 1 nolan, passed the funds check, and the wallet built a transaction that consumes {} nolan and pays out {} nolan", consumed, spent)); }
        }
    }
}

/// C19: a payment that needs more than 255 inputs yields no transaction that spends more than it consumes and loses no output
/// (known finding: the selection marks all outputs spent, add_from_slip silently drops the inputs beyond 255) — scenario of an
/// independent audit
#[tokio::test]
#[serial_test::serial]
async fn payment_needing_more_than_255_inputs_is_refused_or_exact() {
    #[allow(unused_imports)] use crate::core::util::test::test_manager::test::TestManager;
    #[allow(unused_imports)] use crate::core::defs::Currency;
    #[allow(unused_imports)] use crate::core::consensus::transaction::Transaction;
    let mut t = TestManager::default();
    // block 1 pays the wallet's key 300 outputs of 10 nolan each
    t.initialize(300, 10).await;
    let to_public_key = TestManager::generate_random_public_key();
    let (latest_block_id, genesis_period) = {
        let blockchain = t.blockchain_lock.read().await;
        (blockchain.get_latest_block_id(), blockchain.genesis_period)
    };
    let wallet_lock = t.get_wallet_lock();

    // setup sanity : the wallet lists 300 unspent outputs worth 3000 nolan, all of them in the ledger
    {
        let wallet = wallet_lock.read().await;
        let blockchain = t.blockchain_lock.read().await;
        assert_eq!(wallet.get_unspent_slip_count(), 300);
        assert_eq!(wallet.get_available_balance(), 3000);
        let listed: Currency = wallet
            .unspent_slips
            .iter()
            .map(|key| wallet.slips.get(key).unwrap().amount)
            .sum();
        assert_eq!(listed, 3000);
        assert!(wallet
            .unspent_slips
            .iter()
            .all(|key| blockchain.utxoset.get(key) == Some(&true)));
    }

    // control : a payment that needs exactly 255 inputs (2550 nolan) is built correctly and validates
    {
        let mut control_wallet = wallet_lock.read().await.clone();
        let mut tx = Transaction::create(
            &mut control_wallet,
            to_public_key,
            2550,
            0,
            false,
            None,
            latest_block_id,
            genesis_period,
        )
        .unwrap();
        tx.generate(&control_wallet.public_key, 0, 0);
        tx.sign(&control_wallet.private_key);
        let consumed: Currency = tx.from.iter().map(|slip| slip.amount).sum();
        let spent: Currency = tx.to.iter().map(|slip| slip.amount).sum();
        assert_eq!(tx.from.len(), 255);
        assert_eq!(consumed, 2550);
        assert_eq!(spent, 2550);
        let blockchain = t.blockchain_lock.read().await;
        assert!(tx.validate(&blockchain.utxoset, &blockchain, true));
    }

    // the wallet can afford 3000 nolan, but that takes 300 inputs
    let mut wallet = wallet_lock.write().await;
    let mut tx = Transaction::create(
        &mut wallet,
        to_public_key,
        3000,
        0,
        false,
        None,
        latest_block_id,
        genesis_period,
    )
    .unwrap();
    tx.generate(&wallet.public_key, 0, 0);
    tx.sign(&wallet.private_key);

    let consumed: Currency = tx.from.iter().map(|slip| slip.amount).sum();
    let spent: Currency = tx.to.iter().map(|slip| slip.amount).sum();
    let valid = {
        let blockchain = t.blockchain_lock.read().await;
        tx.validate(&blockchain.utxoset, &blockchain, true)
    };
    if !(spent <= consumed && valid) { witness(format!("Transaction::create for a payment of 3000 nolan from a wallet holding 300 outputs of 10 nolan returned a transaction with {} inputs worth {} nolan and outputs worth {} nolan (validates against the ledger : {}) while the wallet now lists {} unspent outputs / balance {} : generate_slips took all 300 outputs out of the wallet, Transaction::add_from_slip silently dropped the 45 inputs beyond 255, so the transaction the wallet built spends more than it consumes and 450 nolan of ledger-spendable outputs are neither in the transaction nor in the wallet", tx.from.len(), consumed, spent, valid, wallet.get_unspent_slip_count(), wallet.get_available_balance())); }
}

/// C19: transactions the wallet builds never reference the same output twice — also the NFT-creating one, whose named input must
/// leave the spendable set before the rest of the funding is selected (known finding) — scenario of an independent audit
#[tokio::test]
#[serial_test::serial]
async fn nft_creation_never_names_the_same_output_twice() {
    #[allow(unused_imports)] use crate::core::util::test::test_manager::test::TestManager;
    #[allow(unused_imports)] use crate::core::consensus::slip::Slip;
    let mut t = TestManager::default();
    let my_public_key = { t.wallet_lock.read().await.public_key };
    // block 1 pays the wallet's key one output of 100 nolan and one of 1000 nolan
    t.initialize_from_slips(vec![
        Slip {
            public_key: my_public_key,
            amount: 100,
            ..Slip::default()
        },
        Slip {
            public_key: my_public_key,
            amount: 1000,
            ..Slip::default()
        },
    ])
    .await;
    let (latest_block_id, genesis_period) = {
        let blockchain = t.blockchain_lock.read().await;
        (blockchain.get_latest_block_id(), blockchain.genesis_period)
    };
    let recipient = TestManager::generate_random_public_key();
    let wallet_lock = t.get_wallet_lock();
    let mut wallet = wallet_lock.write().await;

    assert_eq!(wallet.get_unspent_slip_count(), 2);
    assert_eq!(wallet.get_available_balance(), 1100);
    let small = wallet
        .slips
        .values()
        .find(|slip| slip.amount == 100)
        .unwrap()
        .clone();
    {
        let blockchain = t.blockchain_lock.read().await;
        assert_eq!(blockchain.utxoset.get(&small.utxokey), Some(&true));
    }

    // control : the 100 nolan output covers a deposit of 60 nolan on its own : one input, named once
    {
        let mut control_wallet = wallet.clone();
        let tx = control_wallet
            .create_bound_transaction(
                small.amount,
                small.block_id,
                small.tx_ordinal,
                small.slip_index as u64,
                60,
                vec![],
                &recipient,
                None,
                latest_block_id,
                genesis_period,
                "demo".to_string(),
            )
            .await
            .unwrap();
        assert_eq!(tx.from.len(), 1);
        assert_eq!(tx.from[0].get_utxoset_key(), small.utxokey);
    }

    // mint an NFT from the 100 nolan output with a deposit of 150 nolan : 50 nolan more are needed
    let mut tx = wallet
        .create_bound_transaction(
            small.amount,
            small.block_id,
            small.tx_ordinal,
            small.slip_index as u64,
            150,
            vec![],
            &recipient,
            None,
            latest_block_id,
            genesis_period,
            "demo".to_string(),
        )
        .await
        .unwrap();
    tx.generate(&my_public_key, 0, 0);

    let keys: Vec<SaitoUTXOSetKey> = tx.from.iter().map(|slip| slip.get_utxoset_key()).collect();
    let distinct: AHashSet<SaitoUTXOSetKey> = keys.iter().cloned().collect();
    let valid = {
        let blockchain = t.blockchain_lock.read().await;
        tx.validate(&blockchain.utxoset, &blockchain, true)
    };
    if !((distinct.len()) == (keys.len())) { witness(format!("create_bound_transaction (mint from the 100 nolan output of block {} tx {} with a deposit of 150 nolan) returned a transaction with {} inputs of which only {} are distinct outputs, total_in {} / total_out {}, validates against the ledger : {} : the named input is left in unspent_slips, so generate_slips picked the very same 100 nolan output again to cover the missing 50 nolan, and the transaction the wallet built references one output twice", small.block_id, small.tx_ordinal, keys.len(), distinct.len(), tx.total_in, tx.total_out, valid)); }
}

/// C19: an output the wallet has committed to a pending NFT transaction is not listed as unspent and not handed to the next
/// transaction (known finding, same cause) — scenario of an independent audit
#[tokio::test]
#[serial_test::serial]
async fn output_committed_to_an_nft_transaction_is_not_handed_out_again() {
    #[allow(unused_imports)] use crate::core::util::test::test_manager::test::TestManager;
    #[allow(unused_imports)] use crate::core::consensus::slip::Slip;
    #[allow(unused_imports)] use crate::core::consensus::transaction::Transaction;
    let mut t = TestManager::default();
    let my_public_key = { t.wallet_lock.read().await.public_key };
    t.initialize_from_slips(vec![
        Slip {
            public_key: my_public_key,
            amount: 100,
            ..Slip::default()
        },
        Slip {
            public_key: my_public_key,
            amount: 1000,
            ..Slip::default()
        },
    ])
    .await;
    let (latest_block_id, genesis_period) = {
        let blockchain = t.blockchain_lock.read().await;
        (blockchain.get_latest_block_id(), blockchain.genesis_period)
    };
    let recipient = TestManager::generate_random_public_key();
    let wallet_lock = t.get_wallet_lock();
    let mut wallet = wallet_lock.write().await;
    assert_eq!(wallet.get_available_balance(), 1100);
    let small = wallet
        .slips
        .values()
        .find(|slip| slip.amount == 100)
        .unwrap()
        .clone();

    // control : an ordinary payment takes its input out of the unspent list
    {
        let mut control_wallet = wallet.clone();
        let tx = Transaction::create(
            &mut control_wallet,
            recipient,
            60,
            0,
            false,
            None,
            latest_block_id,
            genesis_period,
        )
        .unwrap();
        assert_eq!(tx.from[0].get_utxoset_key(), small.utxokey);
        assert!(!control_wallet.unspent_slips.contains(&small.utxokey));
        assert_eq!(control_wallet.get_available_balance(), 1000);
    }

    // first transaction : mint an NFT from the 100 nolan output (deposit 60, change 40)
    let nft_tx = wallet
        .create_bound_transaction(
            small.amount,
            small.block_id,
            small.tx_ordinal,
            small.slip_index as u64,
            60,
            vec![],
            &recipient,
            None,
            latest_block_id,
            genesis_period,
            "demo".to_string(),
        )
        .await
        .unwrap();
    assert_eq!(nft_tx.from.len(), 1);
    assert_eq!(nft_tx.from[0].get_utxoset_key(), small.utxokey);
    wallet.add_to_pending(nft_tx.clone());

    // second transaction : an ordinary payment of 60 nolan
    let payment_tx = Transaction::create(
        &mut wallet,
        recipient,
        60,
        0,
        false,
        None,
        latest_block_id,
        genesis_period,
    )
    .unwrap();

    let reused = payment_tx
        .from
        .iter()
        .any(|slip| slip.get_utxoset_key() == small.utxokey);
    if !(!reused) { witness(format!("after create_bound_transaction committed the 100 nolan output of block {} tx {} to a pending NFT transaction the wallet still reported balance 1100 with that output listed as unspent, and the next Transaction::create (payment of 60 nolan) used the same output as its input : two transactions built by the wallet spend one output, only one of them can ever be accepted by the ledger", small.block_id, small.tx_ordinal)); }
}

/// C10: a wallet file whose bytes are no key pair is rejected by the decoder instead of crashing the node at its first signature
#[test]
fn wallet_file_that_is_no_key_pair_is_refused() {
    #[allow(unused_imports)] use crate::core::util::crypto::generate_keys;
    #[allow(unused_imports)] use crate::core::consensus::wallet::Wallet;
    use crate::core::util::crypto::{is_valid_public_key, sign, verify};

    // control: a real wallet written and read back works, and signs
    let keys = generate_keys();
    let wallet = Wallet::new(keys.1, keys.0);
    let honest_bytes = wallet.serialize_for_disk();
    assert_eq!(honest_bytes.len(), 65);
    let keys2 = generate_keys();
    let mut wallet2 = Wallet::new(keys2.1, keys2.0);
    assert!(wallet2.deserialize_from_disk(&honest_bytes).is_ok());
    assert_eq!(wallet2.private_key, wallet.private_key);
    let signature = sign(b"hello", &wallet2.private_key);
    assert!(verify(b"hello", &signature, &wallet2.public_key));

    // control: a file that is too short is refused and the keys are left alone
    let mut wallet3 = Wallet::new(keys2.1, keys2.0);
    assert!(wallet3.deserialize_from_disk(&[0u8; 64]).is_err());
    assert_eq!(wallet3.private_key, keys2.1);

    // the malformed file: 65 zero bytes
    let result = wallet3.deserialize_from_disk(&[0u8; 65]);
    let accepted = result.is_ok();
    let loaded_private_key = wallet3.private_key;
    let loaded_public_key = wallet3.public_key;
    let sign_result = std::panic::catch_unwind(|| sign(b"hello", &loaded_private_key));

    if !(!(accepted && sign_result.is_err())) { witness(format!("Wallet::deserialize_from_disk returned Ok for a wallet file of 65 zero bytes (private key 0, public key valid on the curve: {}), the wallet's keys were replaced by them, and the first sign() with the loaded key panicked: malformed bytes from disk are not rejected and crash the node later", is_valid_public_key(&loaded_public_key))); }
}
