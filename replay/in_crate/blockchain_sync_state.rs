// Replay / extraction-validation module for blockchain_sync_state.rs (compiled only under --cfg saito_verif in the test build)
#[allow(unused_imports)]
use super::*;
include!("/verif/replay/in_crate/common.rs");
use crate::core::util::test::test_manager::test::TestManager;
use std::ops::Deref;

fn status_code(s: &BlockStatus) -> u8 { match s { BlockStatus::Queued => 0, BlockStatus::Fetching => 1, BlockStatus::Fetched => 2, BlockStatus::Failed => 3 } }

fn snapshot(state: &BlockchainSyncState) -> Vec<(PeerIndex, Vec<(BlockId, u8, u8, u32)>)> {
    let mut v: Vec<_> = state.blocks_to_fetch.iter().map(|(p, d)| (*p, d.iter().map(|b| (b.block_id, b.block_hash[0], status_code(&b.status), b.retry_count)).collect::<Vec<_>>())).collect();
    v.sort();
    v
}

/// C16 safety clauses on the real scheduler, over random operation sequences (small universe of peers and hashes):
/// in-flight ≤ batch, never the same block twice in a peer's queue, requests in non-decreasing height order and
/// only for entries that were Queued or due for a retry, identity of entries kept, bounded retries.
#[tokio::test]
#[serial_test::serial]
async fn scheduler_contract() {
    let t = TestManager::default();
    let blockchain = t.blockchain_lock.read().await;
    let mut rng = Rng::from_env();
    for run in 0..300 {
        let batch = 1 + rng.below(4) as usize;
        let mut state = BlockchainSyncState::new(batch);
        let mut trace: Vec<String> = vec![];
        let mut in_flight: Vec<(PeerIndex, SaitoHash, BlockId)> = vec![];
        for _step in 0..40 {
            match rng.below(6) {
                0 | 1 => {
                    let peer = 1 + rng.below(2);
                    let id = 1 + rng.below(6);
                    // (the id next to a hash is the announcing peer's choice: now and then a hash comes with another id)
                    let hid = if rng.below(4) == 0 { 1 + rng.below(6) } else { id };
                    let h = [(hid * 10 + rng.below(2)) as u8; 32];
                    state.received_block_picture.entry(peer).or_default().push_back((id, h));
                    trace.push(format!("announce(peer={},id={},h={})", peer, id, h[0]));
                }
                2 => {
                    state.build_peer_block_picture(blockchain.deref());
                    trace.push("build".into());
                }
                3 => {
                    state.build_peer_block_picture(blockchain.deref());
                    let before = snapshot(&state);
                    let sel = state.get_blocks_to_fetch_per_peer();
                    trace.push(format!("select→{:?}", sel.iter().map(|(p, v)| (*p, v.iter().map(|(h, id)| (*id, h[0])).collect::<Vec<_>>())).collect::<Vec<_>>()));
                    for (p, v) in sel.iter() {
                        for w in v.windows(2) { if w[0].1 > w[1].1 { witness(format!("run {} peer {}: requests not in height order: {:?}", run, p, trace)); } }
                        for (h, id) in v.iter() {
                            if in_flight.iter().any(|(p2, h2, _id2)| p2 == p && h2 == h) { witness(format!("run {} peer {}: block {}-{} requested while already in flight: {:?}", run, p, id, h[0], trace)); }
                            let old = before.iter().find(|(bp, _)| bp == p).map(|(_, q)| q.clone()).unwrap_or_default();
                            // (a request goes out for an entry that was waiting in line or is due for a retry: never for one in flight or fetched)
                            if !old.iter().any(|(bid, bh, st, _)| bid == id && *bh == h[0] && (*st == 0 || *st == 3)) { witness(format!("run {} peer {}: requested {}-{} was neither Queued nor Failed before: {:?}", run, p, id, h[0], trace)); }
                            in_flight.push((*p, *h, *id));
                        }
                    }
                }
                4 => {
                    if !in_flight.is_empty() {
                        let k = rng.below(in_flight.len() as u64) as usize;
                        let (p, h, id) = in_flight.remove(k);
                        if rng.below(2) == 0 {
                            state.mark_as_fetched(h);
                            in_flight.retain(|(_, h2, _)| *h2 != h);
                            trace.push(format!("fetched({})", h[0]));
                        } else {
                            state.mark_as_failed(id, h, p);
                            trace.push(format!("failed(peer={},id={},h={})", p, id, h[0]));
                        }
                    }
                }
                _ => {
                    let id = 1 + rng.below(6);
                    let h = [(id * 10 + rng.below(2)) as u8; 32];
                    state.remove_entry(h);
                    in_flight.retain(|(_, h2, _)| *h2 != h);
                    trace.push(format!("remove({})", h[0]));
                }
            }
            for (p, deq) in state.blocks_to_fetch.iter() {
                let fetching = deq.iter().filter(|b| matches!(b.status, BlockStatus::Fetching)).count();
                if fetching > batch { witness(format!("run {} peer {}: {} fetches in flight > batch {}: {:?}", run, p, fetching, batch, trace)); }
                for i in 0..deq.len() { for j in (i + 1)..deq.len() {
                    if deq[i].block_hash == deq[j].block_hash { witness(format!("run {} peer {}: block {}-{} queued twice: {:?}", run, p, deq[i].block_id, deq[i].block_hash[0], trace)); }
                } }
                for b in deq.iter() { if b.retry_count > MAX_RETRIES_PER_BLOCK + 1 { witness(format!("retry count {} exceeds bound", b.retry_count)); } }
            }
        }
    }
}

/// C16, last clause: a block that keeps failing is requested only a bounded number of times
#[tokio::test]
#[serial_test::serial]
async fn retries_bounded() {
    let t = TestManager::default();
    let blockchain = t.blockchain_lock.read().await;
    for batch in 1..4usize {
        let mut state = BlockchainSyncState::new(batch);
        let h = [7u8; 32];
        state.received_block_picture.entry(1).or_default().push_back((3, h));
        state.build_peer_block_picture(blockchain.deref());
        let mut requests = 0u32;
        for _round in 0..(20 * (MAX_RETRIES_PER_BLOCK as usize + 2)) {
            let sel = state.get_blocks_to_fetch_per_peer();
            for (p, v) in sel.iter() {
                for (hash, id) in v.iter() {
                    requests += 1;
                    state.mark_as_failed(*id, *hash, *p);
                }
            }
        }
        if requests > MAX_RETRIES_PER_BLOCK + 1 {
            witness(format!("batch size {}: one block whose fetch fails every time was requested {} times from the same peer in {} scheduling rounds (bound: first attempt + {} retries)",
                batch, requests, 20 * (MAX_RETRIES_PER_BLOCK as usize + 2), MAX_RETRIES_PER_BLOCK));
        }
    }
}

/// C16 (completeness within a round): blocks the scheduler has given up on do not use up the peer's quota — a block that
/// is announced behind them is still requested
#[tokio::test]
#[serial_test::serial]
async fn abandoned_blocks_do_not_starve_the_queue() {
    let t = TestManager::default();
    let blockchain = t.blockchain_lock.read().await;
    for batch in 1..4usize {
        let mut state = BlockchainSyncState::new(batch);
        for k in 0..batch { state.received_block_picture.entry(1).or_default().push_back((3 + k as u64, [7 + k as u8; 32])); }
        state.build_peer_block_picture(blockchain.deref());
        // every fetch of these blocks fails until the scheduler gives up on them
        for _round in 0..(3 * (MAX_RETRIES_PER_BLOCK as usize + 3)) {
            let sel = state.get_blocks_to_fetch_per_peer();
            for (p, v) in sel.iter() { for (hash, id) in v.iter() { state.mark_as_failed(*id, *hash, *p); } }
        }
        // a healthy block is announced behind them
        let healthy = [99u8; 32];
        state.received_block_picture.entry(1).or_default().push_back((50, healthy));
        state.build_peer_block_picture(blockchain.deref());
        let mut requested = false;
        for _round in 0..5 {
            let sel = state.get_blocks_to_fetch_per_peer();
            if sel.values().any(|v| v.iter().any(|(h, _)| *h == healthy)) { requested = true; }
        }
        if !requested {
            witness(format!("batch size {}: {} block(s) failed until the scheduler gave up on them; a further block announced by the same peer is never requested although nothing is in flight — the abandoned entries keep using up the quota", batch, batch));
        }
    }
}

/// C16 ("the same block is never in flight twice for the same peer"): a hash announced again under other ids — the id in
/// an announcement is the peer's choice — is neither queued nor requested a second time (scenario of an independent audit)
#[tokio::test]
#[serial_test::serial]
async fn hash_announced_under_several_ids_is_requested_once() {
    let t = TestManager::default();
    let blockchain = t.blockchain_lock.read().await;
    let mut state = BlockchainSyncState::new(10);
    let hash = [9u8; 32];
    let mut requests = 0;
    for id in 5..16u64 {
        state.received_block_picture.entry(1).or_default().push_back((id, hash));
        if id == 5 { state.received_block_picture.entry(1).or_default().push_back((id + 100, hash)); }
        state.build_peer_block_picture(blockchain.deref());
        let round = state.get_blocks_to_fetch_per_peer();
        requests += round.get(&1).map(|v| v.iter().filter(|(h, _)| *h == hash).count()).unwrap_or(0);
    }
    let queued = state.blocks_to_fetch.get(&1).map(|q| q.iter().filter(|b| b.block_hash == hash).count()).unwrap_or(0);
    if requests != 1 || queued != 1 {
        witness(format!("peer 1 announced one block hash under 12 different ids while its fetch was in flight: the block was requested {} times from that peer and has {} entries in its queue (batch size 10)", requests, queued));
    }
}

/// C16: at most batch-size requests are outstanding per peer — also when blocks a peer was asked for arrive through another peer (auditor's scenario, round 5; its own recording InterfaceIO)
#[allow(dead_code, unused)]
    /// support for the audit demo below: an I/O boundary that records every block-fetch request the
    /// routing layer hands to it (the harness' TestIOHandler panics with todo!() on fetch_block_from_peer),
    /// and a routing thread (from NodeTester, batch size 10) whose peers can serve blocks.
    mod audit_f16_quota_support {
        use crate::core::consensus::peers::peer::{Peer, PeerStatus};
        use crate::core::consensus::peers::peer_service::PeerService;
        use crate::core::consensus::wallet::Wallet;
        use crate::core::defs::{BlockId, PeerIndex, SaitoHash};
        use crate::core::io::interface_io::{InterfaceEvent, InterfaceIO};
        use crate::core::io::network_event::NetworkEvent;
        use crate::core::msg::message::Message;
        use crate::core::process::process_event::ProcessEvent;
        use crate::core::routing_thread::RoutingEvent;
        use crate::core::util::test::node_tester::test::NodeTester;
        use async_trait::async_trait;
        use std::io::Error;
        use crate::core::defs::Timestamp;
        use crate::core::process::keep_time::{KeepTime, Timer};
        use std::sync::atomic::{AtomicU64, Ordering};
        use std::sync::{Arc, Mutex};
        use std::time::Duration;

        /// a clock the test sets by hand (NodeTester's default clock runs 10_000 times faster than real time)
        #[derive(Clone)]
        pub struct ManualClock(pub Arc<AtomicU64>);
        impl KeepTime for ManualClock {
            fn get_timestamp_in_ms(&self) -> Timestamp {
                self.0.load(Ordering::SeqCst)
            }
        }

        #[derive(Debug, Clone, Default)]
        pub struct RecordingIo {
            pub requests: Arc<Mutex<Vec<(PeerIndex, SaitoHash, BlockId)>>>,
            pub disconnects: Arc<Mutex<Vec<PeerIndex>>>,
        }

        #[async_trait]
        impl InterfaceIO for RecordingIo {
            async fn send_message(&self, _peer_index: u64, _buffer: &[u8]) -> Result<(), Error> {
                Ok(())
            }
            async fn send_message_to_all(
                &self,
                _buffer: &[u8],
                _peer_exceptions: Vec<u64>,
            ) -> Result<(), Error> {
                Ok(())
            }
            async fn connect_to_peer(
                &mut self,
                _url: String,
                _peer_index: PeerIndex,
            ) -> Result<(), Error> {
                Ok(())
            }
            async fn disconnect_from_peer(&self, peer_index: u64) -> Result<(), Error> {
                self.disconnects.lock().unwrap().push(peer_index);
                Ok(())
            }
            async fn fetch_block_from_peer(
                &self,
                block_hash: SaitoHash,
                peer_index: u64,
                _url: &str,
                block_id: BlockId,
            ) -> Result<(), Error> {
                self.requests
                    .lock()
                    .unwrap()
                    .push((peer_index, block_hash, block_id));
                Ok(())
            }
            async fn write_value(&self, _key: &str, _value: &[u8]) -> Result<(), Error> {
                Ok(())
            }
            async fn append_value(&mut self, _key: &str, _value: &[u8]) -> Result<(), Error> {
                Ok(())
            }
            async fn flush_data(&mut self, _key: &str) -> Result<(), Error> {
                Ok(())
            }
            async fn read_value(&self, _key: &str) -> Result<Vec<u8>, Error> {
                Ok(vec![])
            }
            async fn load_block_file_list(&self) -> Result<Vec<String>, Error> {
                Ok(vec![])
            }
            async fn is_existing_file(&self, _key: &str) -> bool {
                false
            }
            async fn remove_value(&self, _key: &str) -> Result<(), Error> {
                Ok(())
            }
            fn get_block_dir(&self) -> String {
                "./data/blocks/".to_string()
            }
            fn get_checkpoint_dir(&self) -> String {
                "data/checkpoints/".to_string()
            }
            fn ensure_block_directory_exists(&self, _block_dir_path: &str) -> std::io::Result<()> {
                Ok(())
            }
            async fn process_api_call(&self, _b: Vec<u8>, _i: u32, _p: PeerIndex) {}
            async fn process_api_success(&self, _b: Vec<u8>, _i: u32, _p: PeerIndex) {}
            async fn process_api_error(&self, _b: Vec<u8>, _i: u32, _p: PeerIndex) {}
            fn send_interface_event(&self, _event: InterfaceEvent) {}
            async fn save_wallet(&self, _wallet: &mut Wallet) -> Result<(), Error> {
                Ok(())
            }
            async fn load_wallet(&self, _wallet: &mut Wallet) -> Result<(), Error> {
                Ok(())
            }
            fn get_my_services(&self) -> Vec<PeerService> {
                vec![]
            }
        }

        pub struct Node {
            pub tester: NodeTester,
            pub io: RecordingIo,
        }

        impl Node {
            /// a node whose routing thread talks to the recording I/O and knows the given connected peers,
            /// each with a block fetch url
            pub async fn new(peer_indices: &[PeerIndex]) -> Node {
                Node::with_clock(peer_indices, None).await
            }
            pub async fn with_clock(peer_indices: &[PeerIndex], clock: Option<ManualClock>) -> Node {
                let timer = clock.map(|clock| Timer {
                    time_reader: Arc::new(clock),
                    hasten_multiplier: 1,
                    start_time: 0,
                });
                let mut tester = NodeTester::new(100, None, timer);
                let io = RecordingIo::default();
                tester.routing_thread.network.io_interface = Box::new(io.clone());
                {
                    let mut peers = tester.routing_thread.network.peer_lock.write().await;
                    for index in peer_indices {
                        let mut peer = Peer::new(*index);
                        peer.peer_status = PeerStatus::Connected;
                        peer.block_fetch_url = format!("http://peer{}", index);
                        peers.index_to_peers.insert(*index, peer);
                    }
                }
                Node { tester, io }
            }
            /// the peer announces a block: a BlockHeaderHash message arrives from it
            pub async fn announce(&mut self, peer_index: PeerIndex, hash: SaitoHash, id: BlockId) {
                self.tester
                    .routing_thread
                    .process_network_event(NetworkEvent::IncomingNetworkMessage {
                        peer_index,
                        buffer: Message::BlockHeaderHash(hash, id).serialize(),
                    })
                    .await;
            }
            /// the I/O layer reports that the peer answered the fetch of this block
            pub async fn fetched(&mut self, peer_index: PeerIndex, hash: SaitoHash, id: BlockId) {
                self.tester
                    .routing_thread
                    .process_network_event(NetworkEvent::BlockFetched {
                        block_hash: hash,
                        block_id: id,
                        peer_index,
                        buffer: vec![0; 8],
                    })
                    .await;
            }
            /// the I/O layer reports that the fetch of this block from the peer failed
            pub async fn failed(&mut self, peer_index: PeerIndex, hash: SaitoHash, id: BlockId) {
                self.tester
                    .routing_thread
                    .process_network_event(NetworkEvent::BlockFetchFailed {
                        block_hash: hash,
                        peer_index,
                        block_id: id,
                    })
                    .await;
            }
            /// the consensus thread reports that the block is on the chain now
            pub async fn chain_has(&mut self, hash: SaitoHash) {
                self.tester
                    .routing_thread
                    .process_event(RoutingEvent::BlockchainUpdated(hash))
                    .await;
            }
            /// the 2 s timer of the routing thread fires: one more selection round
            pub async fn timer_round(&mut self) {
                self.tester
                    .routing_thread
                    .process_timer_event(Duration::from_secs(2))
                    .await;
            }
            /// the block ids of the fetch requests handed to the I/O layer for this peer, in order
            pub fn requested_ids(&self, peer_index: PeerIndex) -> Vec<BlockId> {
                self.io
                    .requests
                    .lock()
                    .unwrap()
                    .iter()
                    .filter(|(p, _, _)| *p == peer_index)
                    .map(|(_, _, id)| *id)
                    .collect()
            }
        }

        /// the hash of the demo block with this id on the announced fork
        pub fn h(id: u64) -> SaitoHash {
            let mut hash = [0u8; 32];
            hash[0] = 0xF1;
            hash[24..32].copy_from_slice(&id.to_be_bytes());
            hash
        }
    }

    /// C16, quota clause: "for each peer the number of block fetches in flight never exceeds the configured
    /// batch size". Two peers announce the same 20 blocks; the node asks each of them for the first 10
    /// (batch size 10). The 10 blocks then reach the chain by another route (peer 1 is fast, peer 2 has not
    /// answered a single request). BlockchainUpdated -> remove_entry deletes peer 2's entries although they
    /// are in state Fetching, the quota of peer 2 is free again, and 10 more requests go out to peer 2 on
    /// top of the 10 it has not answered.
    #[tokio::test]
    #[serial_test::serial]
    async fn in_flight_requests_per_peer_stay_within_the_batch_when_blocks_arrive_elsewhere() {
        use audit_f16_quota_support::{h, Node};
        const BATCH: usize = 10; // NodeTester builds BlockchainSyncState::new(10)

        // control: without the chain update, peer 2 never has more than 10 requests outstanding
        {
            let mut node = Node::new(&[1, 2]).await;
            for id in 1..=20u64 {
                node.announce(1, h(id), id).await;
                node.announce(2, h(id), id).await;
            }
            for _ in 0..5 {
                node.timer_round().await;
            }
            assert_eq!(node.requested_ids(2), (1..=10u64).collect::<Vec<_>>());
        }

        let mut node = Node::new(&[1, 2]).await;
        for id in 1..=20u64 {
            node.announce(1, h(id), id).await;
            node.announce(2, h(id), id).await;
        }
        // setup sanity: each peer was asked for blocks 1..=10, in height order, nothing else
        assert_eq!(node.requested_ids(1), (1..=10u64).collect::<Vec<_>>());
        assert_eq!(node.requested_ids(2), (1..=10u64).collect::<Vec<_>>());

        // peer 1 answers its 10 requests and the blocks reach the chain; peer 2 answers nothing:
        // no BlockFetched and no BlockFetchFailed is delivered for peer 2 in this test
        for id in 1..=10u64 {
            node.fetched(1, h(id), id).await;
            node.chain_has(h(id)).await;
        }

        let answered_by_peer_2 = 0usize;
        let requested_from_peer_2 = node.requested_ids(2);
        let in_flight_at_peer_2 = requested_from_peer_2.len() - answered_by_peer_2;
        assert!(
            in_flight_at_peer_2 <= BATCH,
            "peer 2 has {} block fetches in flight (requested ids {:?}, answered 0) with batch size {}: remove_entry dropped its 10 Fetching entries when the blocks arrived via peer 1, so the quota was handed out a second time",
            in_flight_at_peer_2,
            requested_from_peer_2,
            BATCH
        );
    }


/// C16: a reply that is dropped (unknown peer, invalid-block limit) does not leave its request in flight for ever (auditor's scenario, round 5; its own recording InterfaceIO)
#[allow(dead_code, unused)]
    /// support for the audit demo below: an I/O boundary that records every block-fetch request the
    /// routing layer hands to it (the harness' TestIOHandler panics with todo!() on fetch_block_from_peer),
    /// and a routing thread (from NodeTester, batch size 10) whose peers can serve blocks.
    mod audit_f16_zombie_support {
        use crate::core::consensus::peers::peer::{Peer, PeerStatus};
        use crate::core::consensus::peers::peer_service::PeerService;
        use crate::core::consensus::wallet::Wallet;
        use crate::core::defs::{BlockId, PeerIndex, SaitoHash};
        use crate::core::io::interface_io::{InterfaceEvent, InterfaceIO};
        use crate::core::io::network_event::NetworkEvent;
        use crate::core::msg::message::Message;
        use crate::core::process::process_event::ProcessEvent;
        use crate::core::routing_thread::RoutingEvent;
        use crate::core::util::test::node_tester::test::NodeTester;
        use async_trait::async_trait;
        use std::io::Error;
        use crate::core::defs::Timestamp;
        use crate::core::process::keep_time::{KeepTime, Timer};
        use std::sync::atomic::{AtomicU64, Ordering};
        use std::sync::{Arc, Mutex};
        use std::time::Duration;

        /// a clock the test sets by hand (NodeTester's default clock runs 10_000 times faster than real time)
        #[derive(Clone)]
        pub struct ManualClock(pub Arc<AtomicU64>);
        impl KeepTime for ManualClock {
            fn get_timestamp_in_ms(&self) -> Timestamp {
                self.0.load(Ordering::SeqCst)
            }
        }

        #[derive(Debug, Clone, Default)]
        pub struct RecordingIo {
            pub requests: Arc<Mutex<Vec<(PeerIndex, SaitoHash, BlockId)>>>,
            pub disconnects: Arc<Mutex<Vec<PeerIndex>>>,
        }

        #[async_trait]
        impl InterfaceIO for RecordingIo {
            async fn send_message(&self, _peer_index: u64, _buffer: &[u8]) -> Result<(), Error> {
                Ok(())
            }
            async fn send_message_to_all(
                &self,
                _buffer: &[u8],
                _peer_exceptions: Vec<u64>,
            ) -> Result<(), Error> {
                Ok(())
            }
            async fn connect_to_peer(
                &mut self,
                _url: String,
                _peer_index: PeerIndex,
            ) -> Result<(), Error> {
                Ok(())
            }
            async fn disconnect_from_peer(&self, peer_index: u64) -> Result<(), Error> {
                self.disconnects.lock().unwrap().push(peer_index);
                Ok(())
            }
            async fn fetch_block_from_peer(
                &self,
                block_hash: SaitoHash,
                peer_index: u64,
                _url: &str,
                block_id: BlockId,
            ) -> Result<(), Error> {
                self.requests
                    .lock()
                    .unwrap()
                    .push((peer_index, block_hash, block_id));
                Ok(())
            }
            async fn write_value(&self, _key: &str, _value: &[u8]) -> Result<(), Error> {
                Ok(())
            }
            async fn append_value(&mut self, _key: &str, _value: &[u8]) -> Result<(), Error> {
                Ok(())
            }
            async fn flush_data(&mut self, _key: &str) -> Result<(), Error> {
                Ok(())
            }
            async fn read_value(&self, _key: &str) -> Result<Vec<u8>, Error> {
                Ok(vec![])
            }
            async fn load_block_file_list(&self) -> Result<Vec<String>, Error> {
                Ok(vec![])
            }
            async fn is_existing_file(&self, _key: &str) -> bool {
                false
            }
            async fn remove_value(&self, _key: &str) -> Result<(), Error> {
                Ok(())
            }
            fn get_block_dir(&self) -> String {
                "./data/blocks/".to_string()
            }
            fn get_checkpoint_dir(&self) -> String {
                "data/checkpoints/".to_string()
            }
            fn ensure_block_directory_exists(&self, _block_dir_path: &str) -> std::io::Result<()> {
                Ok(())
            }
            async fn process_api_call(&self, _b: Vec<u8>, _i: u32, _p: PeerIndex) {}
            async fn process_api_success(&self, _b: Vec<u8>, _i: u32, _p: PeerIndex) {}
            async fn process_api_error(&self, _b: Vec<u8>, _i: u32, _p: PeerIndex) {}
            fn send_interface_event(&self, _event: InterfaceEvent) {}
            async fn save_wallet(&self, _wallet: &mut Wallet) -> Result<(), Error> {
                Ok(())
            }
            async fn load_wallet(&self, _wallet: &mut Wallet) -> Result<(), Error> {
                Ok(())
            }
            fn get_my_services(&self) -> Vec<PeerService> {
                vec![]
            }
        }

        pub struct Node {
            pub tester: NodeTester,
            pub io: RecordingIo,
        }

        impl Node {
            /// a node whose routing thread talks to the recording I/O and knows the given connected peers,
            /// each with a block fetch url
            pub async fn new(peer_indices: &[PeerIndex]) -> Node {
                Node::with_clock(peer_indices, None).await
            }
            pub async fn with_clock(peer_indices: &[PeerIndex], clock: Option<ManualClock>) -> Node {
                let timer = clock.map(|clock| Timer {
                    time_reader: Arc::new(clock),
                    hasten_multiplier: 1,
                    start_time: 0,
                });
                let mut tester = NodeTester::new(100, None, timer);
                let io = RecordingIo::default();
                tester.routing_thread.network.io_interface = Box::new(io.clone());
                {
                    let mut peers = tester.routing_thread.network.peer_lock.write().await;
                    for index in peer_indices {
                        let mut peer = Peer::new(*index);
                        peer.peer_status = PeerStatus::Connected;
                        peer.block_fetch_url = format!("http://peer{}", index);
                        peers.index_to_peers.insert(*index, peer);
                    }
                }
                Node { tester, io }
            }
            /// the peer announces a block: a BlockHeaderHash message arrives from it
            pub async fn announce(&mut self, peer_index: PeerIndex, hash: SaitoHash, id: BlockId) {
                self.tester
                    .routing_thread
                    .process_network_event(NetworkEvent::IncomingNetworkMessage {
                        peer_index,
                        buffer: Message::BlockHeaderHash(hash, id).serialize(),
                    })
                    .await;
            }
            /// the I/O layer reports that the peer answered the fetch of this block
            pub async fn fetched(&mut self, peer_index: PeerIndex, hash: SaitoHash, id: BlockId) {
                self.tester
                    .routing_thread
                    .process_network_event(NetworkEvent::BlockFetched {
                        block_hash: hash,
                        block_id: id,
                        peer_index,
                        buffer: vec![0; 8],
                    })
                    .await;
            }
            /// the I/O layer reports that the fetch of this block from the peer failed
            pub async fn failed(&mut self, peer_index: PeerIndex, hash: SaitoHash, id: BlockId) {
                self.tester
                    .routing_thread
                    .process_network_event(NetworkEvent::BlockFetchFailed {
                        block_hash: hash,
                        peer_index,
                        block_id: id,
                    })
                    .await;
            }
            /// the consensus thread reports that the block is on the chain now
            pub async fn chain_has(&mut self, hash: SaitoHash) {
                self.tester
                    .routing_thread
                    .process_event(RoutingEvent::BlockchainUpdated(hash))
                    .await;
            }
            /// the 2 s timer of the routing thread fires: one more selection round
            pub async fn timer_round(&mut self) {
                self.tester
                    .routing_thread
                    .process_timer_event(Duration::from_secs(2))
                    .await;
            }
            /// the block ids of the fetch requests handed to the I/O layer for this peer, in order
            pub fn requested_ids(&self, peer_index: PeerIndex) -> Vec<BlockId> {
                self.io
                    .requests
                    .lock()
                    .unwrap()
                    .iter()
                    .filter(|(p, _, _)| *p == peer_index)
                    .map(|(_, _, id)| *id)
                    .collect()
            }
        }

        /// the hash of the demo block with this id on the announced fork
        pub fn h(id: u64) -> SaitoHash {
            let mut hash = [0u8; 32];
            hash[0] = 0xF1;
            hash[24..32].copy_from_slice(&id.to_be_bytes());
            hash
        }
    }

    /// C16, completeness clause: "every announced block the node lacks is eventually requested unless it
    /// arrives by another route". The BlockFetched handler of the routing thread returns early when the
    /// peer's invalid-block limiter is exceeded (and when the peer is unknown): the reply is thrown away, but
    /// the scheduler entry is neither removed nor marked failed. It stays in state Fetching for ever, counts
    /// against the quota of that peer index for ever, and blocks every later announcement of the same hash
    /// (already_exists). Ten such replies and the peer index (a static peer keeps its index across
    /// reconnects) is never asked for a block again.
    #[tokio::test]
    #[serial_test::serial]
    async fn dropped_reply_does_not_starve_the_peer() {
        use audit_f16_zombie_support::{h, ManualClock, Node};
        use std::sync::atomic::{AtomicU64, Ordering};
        use std::sync::Arc;
        const T0: u64 = 1_700_000_000_000;
        const HOUR: u64 = 3_600_000;

        // control: the same peer, same blocks, but the limiter is not exceeded: replies are taken, the
        // entries leave the queue and what the peer announces afterwards is requested
        {
            let clock = ManualClock(Arc::new(AtomicU64::new(T0)));
            let mut node = Node::with_clock(&[1], Some(clock.clone())).await;
            for id in 11..=20u64 {
                node.announce(1, h(id), id).await;
            }
            for id in 11..=20u64 {
                node.fetched(1, h(id), id).await;
            }
            clock.0.store(T0 + 2 * HOUR, Ordering::SeqCst);
            for id in 21..=25u64 {
                node.announce(1, h(id), id).await;
            }
            assert_eq!(node.requested_ids(1), (11..=25u64).collect::<Vec<_>>());
        }

        let clock = ManualClock(Arc::new(AtomicU64::new(T0)));
        let mut node = Node::with_clock(&[1], Some(clock.clone())).await;

        // stage A: peer 1 serves 10 blocks (ids 1..=10) which the chain rejects as invalid. every reply is
        // taken by the BlockFetched handler (limiter not exceeded yet) ...
        for id in 1..=10u64 {
            node.announce(1, h(id), id).await;
        }
        for id in 1..=10u64 {
            node.fetched(1, h(id), id).await;
        }
        assert_eq!(node.requested_ids(1), (1..=10u64).collect::<Vec<_>>());
        assert_eq!(
            node.tester
                .routing_thread
                .blockchain_sync_state
                .get_fetching_block_count(),
            0
        );
        // ... and for each of them Blockchain::add_blocks_from_mempool, on AddBlockResult::FailedNotValid,
        // does peer.invalid_block_limiter.increase() (blockchain.rs, FailedNotValid arm)
        {
            let mut peers = node.tester.routing_thread.network.peer_lock.write().await;
            let peer = peers.find_peer_by_index_mut(1).unwrap();
            for _ in 0..10 {
                peer.invalid_block_limiter.increase();
            }
            assert!(peer.has_invalid_block_limit_exceeded(T0));
        }

        // stage B: one minute later peer 1 announces ids 11..=20; the node requests all 10 (batch size 10)
        clock.0.store(T0 + 60_000, Ordering::SeqCst);
        for id in 11..=20u64 {
            node.announce(1, h(id), id).await;
        }
        assert_eq!(node.requested_ids(1), (1..=20u64).collect::<Vec<_>>());
        // the 10 replies arrive. the handler sees the exceeded limiter, disconnects and returns early
        for id in 11..=20u64 {
            node.fetched(1, h(id), id).await;
        }
        assert_eq!(node.io.disconnects.lock().unwrap().len(), 10);
        // all 20 requests made so far have been answered: nothing is in flight at the I/O boundary

        // stage C: two hours later (the limiter window of one hour is over) the peer, a static peer with
        // the same index 1, is connected again, re-announces 11..=20 and announces 21..=25
        clock.0.store(T0 + 2 * HOUR, Ordering::SeqCst);
        {
            let mut peers = node.tester.routing_thread.network.peer_lock.write().await;
            let peer = peers.find_peer_by_index_mut(1).unwrap();
            assert!(!peer.has_invalid_block_limit_exceeded(T0 + 2 * HOUR));
        }
        for id in 11..=25u64 {
            node.announce(1, h(id), id).await;
        }
        for _ in 0..5 {
            node.timer_round().await;
        }
        let requested = node.requested_ids(1);
        let later: Vec<u64> = requested[20..].to_vec();
        assert!(
            !later.is_empty(),
            "peer 1 announced blocks 11..=25 which the node lacks, all 20 earlier requests are answered (0 in flight), yet after 15 announcements and 5 timer rounds not one block was requested (queue length {}): the 10 replies dropped by the invalid-block limiter left 10 entries in state Fetching that hold the whole quota of 10 for ever",
            node.tester
                .routing_thread
                .blockchain_sync_state
                .get_fetching_block_count()
        );
    }


/// C16: requests go out in height order — a failed block due for a retry is not overtaken by a higher block (auditor's scenario, round 5; its own recording InterfaceIO)
#[allow(dead_code, unused)]
    /// support for the audit demo below: an I/O boundary that records every block-fetch request the
    /// routing layer hands to it (the harness' TestIOHandler panics with todo!() on fetch_block_from_peer),
    /// and a routing thread (from NodeTester, batch size 10) whose peers can serve blocks.
    mod audit_f16_retry_support {
        use crate::core::consensus::peers::peer::{Peer, PeerStatus};
        use crate::core::consensus::peers::peer_service::PeerService;
        use crate::core::consensus::wallet::Wallet;
        use crate::core::defs::{BlockId, PeerIndex, SaitoHash};
        use crate::core::io::interface_io::{InterfaceEvent, InterfaceIO};
        use crate::core::io::network_event::NetworkEvent;
        use crate::core::msg::message::Message;
        use crate::core::process::process_event::ProcessEvent;
        use crate::core::routing_thread::RoutingEvent;
        use crate::core::util::test::node_tester::test::NodeTester;
        use async_trait::async_trait;
        use std::io::Error;
        use crate::core::defs::Timestamp;
        use crate::core::process::keep_time::{KeepTime, Timer};
        use std::sync::atomic::{AtomicU64, Ordering};
        use std::sync::{Arc, Mutex};
        use std::time::Duration;

        /// a clock the test sets by hand (NodeTester's default clock runs 10_000 times faster than real time)
        #[derive(Clone)]
        pub struct ManualClock(pub Arc<AtomicU64>);
        impl KeepTime for ManualClock {
            fn get_timestamp_in_ms(&self) -> Timestamp {
                self.0.load(Ordering::SeqCst)
            }
        }

        #[derive(Debug, Clone, Default)]
        pub struct RecordingIo {
            pub requests: Arc<Mutex<Vec<(PeerIndex, SaitoHash, BlockId)>>>,
            pub disconnects: Arc<Mutex<Vec<PeerIndex>>>,
        }

        #[async_trait]
        impl InterfaceIO for RecordingIo {
            async fn send_message(&self, _peer_index: u64, _buffer: &[u8]) -> Result<(), Error> {
                Ok(())
            }
            async fn send_message_to_all(
                &self,
                _buffer: &[u8],
                _peer_exceptions: Vec<u64>,
            ) -> Result<(), Error> {
                Ok(())
            }
            async fn connect_to_peer(
                &mut self,
                _url: String,
                _peer_index: PeerIndex,
            ) -> Result<(), Error> {
                Ok(())
            }
            async fn disconnect_from_peer(&self, peer_index: u64) -> Result<(), Error> {
                self.disconnects.lock().unwrap().push(peer_index);
                Ok(())
            }
            async fn fetch_block_from_peer(
                &self,
                block_hash: SaitoHash,
                peer_index: u64,
                _url: &str,
                block_id: BlockId,
            ) -> Result<(), Error> {
                self.requests
                    .lock()
                    .unwrap()
                    .push((peer_index, block_hash, block_id));
                Ok(())
            }
            async fn write_value(&self, _key: &str, _value: &[u8]) -> Result<(), Error> {
                Ok(())
            }
            async fn append_value(&mut self, _key: &str, _value: &[u8]) -> Result<(), Error> {
                Ok(())
            }
            async fn flush_data(&mut self, _key: &str) -> Result<(), Error> {
                Ok(())
            }
            async fn read_value(&self, _key: &str) -> Result<Vec<u8>, Error> {
                Ok(vec![])
            }
            async fn load_block_file_list(&self) -> Result<Vec<String>, Error> {
                Ok(vec![])
            }
            async fn is_existing_file(&self, _key: &str) -> bool {
                false
            }
            async fn remove_value(&self, _key: &str) -> Result<(), Error> {
                Ok(())
            }
            fn get_block_dir(&self) -> String {
                "./data/blocks/".to_string()
            }
            fn get_checkpoint_dir(&self) -> String {
                "data/checkpoints/".to_string()
            }
            fn ensure_block_directory_exists(&self, _block_dir_path: &str) -> std::io::Result<()> {
                Ok(())
            }
            async fn process_api_call(&self, _b: Vec<u8>, _i: u32, _p: PeerIndex) {}
            async fn process_api_success(&self, _b: Vec<u8>, _i: u32, _p: PeerIndex) {}
            async fn process_api_error(&self, _b: Vec<u8>, _i: u32, _p: PeerIndex) {}
            fn send_interface_event(&self, _event: InterfaceEvent) {}
            async fn save_wallet(&self, _wallet: &mut Wallet) -> Result<(), Error> {
                Ok(())
            }
            async fn load_wallet(&self, _wallet: &mut Wallet) -> Result<(), Error> {
                Ok(())
            }
            fn get_my_services(&self) -> Vec<PeerService> {
                vec![]
            }
        }

        pub struct Node {
            pub tester: NodeTester,
            pub io: RecordingIo,
        }

        impl Node {
            /// a node whose routing thread talks to the recording I/O and knows the given connected peers,
            /// each with a block fetch url
            pub async fn new(peer_indices: &[PeerIndex]) -> Node {
                Node::with_clock(peer_indices, None).await
            }
            pub async fn with_clock(peer_indices: &[PeerIndex], clock: Option<ManualClock>) -> Node {
                let timer = clock.map(|clock| Timer {
                    time_reader: Arc::new(clock),
                    hasten_multiplier: 1,
                    start_time: 0,
                });
                let mut tester = NodeTester::new(100, None, timer);
                let io = RecordingIo::default();
                tester.routing_thread.network.io_interface = Box::new(io.clone());
                {
                    let mut peers = tester.routing_thread.network.peer_lock.write().await;
                    for index in peer_indices {
                        let mut peer = Peer::new(*index);
                        peer.peer_status = PeerStatus::Connected;
                        peer.block_fetch_url = format!("http://peer{}", index);
                        peers.index_to_peers.insert(*index, peer);
                    }
                }
                Node { tester, io }
            }
            /// the peer announces a block: a BlockHeaderHash message arrives from it
            pub async fn announce(&mut self, peer_index: PeerIndex, hash: SaitoHash, id: BlockId) {
                self.tester
                    .routing_thread
                    .process_network_event(NetworkEvent::IncomingNetworkMessage {
                        peer_index,
                        buffer: Message::BlockHeaderHash(hash, id).serialize(),
                    })
                    .await;
            }
            /// the I/O layer reports that the peer answered the fetch of this block
            pub async fn fetched(&mut self, peer_index: PeerIndex, hash: SaitoHash, id: BlockId) {
                self.tester
                    .routing_thread
                    .process_network_event(NetworkEvent::BlockFetched {
                        block_hash: hash,
                        block_id: id,
                        peer_index,
                        buffer: vec![0; 8],
                    })
                    .await;
            }
            /// the I/O layer reports that the fetch of this block from the peer failed
            pub async fn failed(&mut self, peer_index: PeerIndex, hash: SaitoHash, id: BlockId) {
                self.tester
                    .routing_thread
                    .process_network_event(NetworkEvent::BlockFetchFailed {
                        block_hash: hash,
                        peer_index,
                        block_id: id,
                    })
                    .await;
            }
            /// the consensus thread reports that the block is on the chain now
            pub async fn chain_has(&mut self, hash: SaitoHash) {
                self.tester
                    .routing_thread
                    .process_event(RoutingEvent::BlockchainUpdated(hash))
                    .await;
            }
            /// the 2 s timer of the routing thread fires: one more selection round
            pub async fn timer_round(&mut self) {
                self.tester
                    .routing_thread
                    .process_timer_event(Duration::from_secs(2))
                    .await;
            }
            /// the block ids of the fetch requests handed to the I/O layer for this peer, in order
            pub fn requested_ids(&self, peer_index: PeerIndex) -> Vec<BlockId> {
                self.io
                    .requests
                    .lock()
                    .unwrap()
                    .iter()
                    .filter(|(p, _, _)| *p == peer_index)
                    .map(|(_, _, id)| *id)
                    .collect()
            }
        }

        /// the hash of the demo block with this id on the announced fork
        pub fn h(id: u64) -> SaitoHash {
            let mut hash = [0u8; 32];
            hash[0] = 0xF1;
            hash[24..32].copy_from_slice(&id.to_be_bytes());
            hash
        }
    }

    /// C16, ordering clause: "blocks are requested in non-decreasing height order". When a fetch failed, the
    /// next selection round turns the entry from Failed to Queued and takes a quota slot for it, but does
    /// not request it; the same round goes on and requests higher blocks with the rest of the quota. The
    /// failed lower block goes out one round later, after the higher one.
    #[tokio::test]
    #[serial_test::serial]
    async fn retry_is_not_passed_over_by_a_higher_block() {
        use audit_f16_retry_support::{h, Node};

        // control: block 1 fails, nothing else changes: block 1 is asked for again (two rounds later) and no
        // higher block is requested in between
        {
            let mut node = Node::new(&[1]).await;
            for id in 1..=12u64 {
                node.announce(1, h(id), id).await;
            }
            node.failed(1, h(1), 1).await;
            node.timer_round().await;
            node.timer_round().await;
            assert_eq!(
                node.requested_ids(1),
                vec![1, 2, 3, 4, 5, 6, 7, 8, 9, 10, 1],
                "control: the retry of block 1 goes out and nothing overtakes it"
            );
        }

        let mut node = Node::new(&[1]).await;
        for id in 1..=12u64 {
            node.announce(1, h(id), id).await;
        }
        // setup sanity: blocks 1..=10 requested in height order, 11 and 12 wait (batch size 10)
        assert_eq!(node.requested_ids(1), (1..=10u64).collect::<Vec<_>>());

        // the fetch of block 1 fails, the fetch of block 2 succeeds: two slots of the quota are free, and the
        // lowest block the node still lacks from this peer is block 1
        node.failed(1, h(1), 1).await;
        node.fetched(1, h(2), 2).await; // runs a selection round
        node.timer_round().await; // and one more
        node.timer_round().await;

        let requested = node.requested_ids(1);
        let after_failure: Vec<u64> = requested[10..].to_vec();
        // sanity: both went out eventually
        assert!(after_failure.contains(&1) && after_failure.contains(&11));
        let mut sorted = after_failure.clone();
        sorted.sort();
        assert_eq!(
            after_failure, sorted,
            "after block 1 failed at peer 1 (2 free slots, block 1 due for retry) the requests went out in the order {:?}: block 11 was requested before the lower block 1, because the round that revived block 1 took a quota slot for it without requesting it and gave the other slot to block 11",
            after_failure
        );
    }

