// Replay / extraction-validation module for blockchain_sync_state.rs (compiled only under --cfg saito_verif in the test build)
#[allow(unused_imports)]
use super::*;
include!("/verif/replay/in_crate/common.rs");
use crate::core::util::test::test_manager::test::TestManager;
use std::ops::Deref;

fn status_code(s: &BlockStatus) -> u8 { match s { BlockStatus::Queued => 0, BlockStatus::Fetching => 1, BlockStatus::Fetched => 2, BlockStatus::Failed => 3 } }

fn snapshot(state: &BlockchainSyncState) -> Vec<(PeerIndex, Vec<(BlockId, u8, u8, u32)>)> {
    let mut v: Vec<_> = state.blocks_to_fetch.iter().map(|(p, d)| (*p, d.iter().map(|b| (b.block_id, b.block_hash[0], status_code(&b.status), b.retry_count)).collect::<Vec<_>>())).collect();
    v.sort();
    v
}

/// C16 safety clauses on the real scheduler, over random operation sequences (small universe of peers and hashes):
/// in-flight ≤ batch, never the same block twice in a peer's queue, requests in non-decreasing height order and
/// only for entries that were Queued, identity of entries kept, bounded retries.
#[tokio::test]
#[serial_test::serial]
async fn scheduler_contract() {
    let t = TestManager::default();
    let blockchain = t.blockchain_lock.read().await;
    let mut rng = Rng::from_env();
    for run in 0..300 {
        let batch = 1 + rng.below(4) as usize;
        let mut state = BlockchainSyncState::new(batch);
        let mut trace: Vec<String> = vec![];
        let mut in_flight: Vec<(PeerIndex, SaitoHash, BlockId)> = vec![];
        for _step in 0..40 {
            match rng.below(6) {
                0 | 1 => {
                    let peer = 1 + rng.below(2);
                    let id = 1 + rng.below(6);
                    // (the id next to a hash is the announcing peer's choice: now and then a hash comes with another id)
                    let hid = if rng.below(4) == 0 { 1 + rng.below(6) } else { id };
                    let h = [(hid * 10 + rng.below(2)) as u8; 32];
                    state.received_block_picture.entry(peer).or_default().push_back((id, h));
                    trace.push(format!("announce(peer={},id={},h={})", peer, id, h[0]));
                }
                2 => {
                    state.build_peer_block_picture(blockchain.deref());
                    trace.push("build".into());
                }
                3 => {
                    state.build_peer_block_picture(blockchain.deref());
                    let before = snapshot(&state);
                    let sel = state.get_blocks_to_fetch_per_peer();
                    trace.push(format!("select→{:?}", sel.iter().map(|(p, v)| (*p, v.iter().map(|(h, id)| (*id, h[0])).collect::<Vec<_>>())).collect::<Vec<_>>()));
                    for (p, v) in sel.iter() {
                        for w in v.windows(2) { if w[0].1 > w[1].1 { witness(format!("run {} peer {}: requests not in height order: {:?}", run, p, trace)); } }
                        for (h, id) in v.iter() {
                            if in_flight.iter().any(|(p2, h2, _id2)| p2 == p && h2 == h) { witness(format!("run {} peer {}: block {}-{} requested while already in flight: {:?}", run, p, id, h[0], trace)); }
                            let old = before.iter().find(|(bp, _)| bp == p).map(|(_, q)| q.clone()).unwrap_or_default();
                            if !old.iter().any(|(bid, bh, st, _)| bid == id && *bh == h[0] && *st == 0) { witness(format!("run {} peer {}: requested {}-{} was not Queued before: {:?}", run, p, id, h[0], trace)); }
                            in_flight.push((*p, *h, *id));
                        }
                    }
                }
                4 => {
                    if !in_flight.is_empty() {
                        let k = rng.below(in_flight.len() as u64) as usize;
                        let (p, h, id) = in_flight.remove(k);
                        if rng.below(2) == 0 {
                            state.mark_as_fetched(h);
                            in_flight.retain(|(_, h2, _)| *h2 != h);
                            trace.push(format!("fetched({})", h[0]));
                        } else {
                            state.mark_as_failed(id, h, p);
                            trace.push(format!("failed(peer={},id={},h={})", p, id, h[0]));
                        }
                    }
                }
                _ => {
                    let id = 1 + rng.below(6);
                    let h = [(id * 10 + rng.below(2)) as u8; 32];
                    state.remove_entry(h);
                    in_flight.retain(|(_, h2, _)| *h2 != h);
                    trace.push(format!("remove({})", h[0]));
                }
            }
            for (p, deq) in state.blocks_to_fetch.iter() {
                let fetching = deq.iter().filter(|b| matches!(b.status, BlockStatus::Fetching)).count();
                if fetching > batch { witness(format!("run {} peer {}: {} fetches in flight > batch {}: {:?}", run, p, fetching, batch, trace)); }
                for i in 0..deq.len() { for j in (i + 1)..deq.len() {
                    if deq[i].block_hash == deq[j].block_hash { witness(format!("run {} peer {}: block {}-{} queued twice: {:?}", run, p, deq[i].block_id, deq[i].block_hash[0], trace)); }
                } }
                for b in deq.iter() { if b.retry_count > MAX_RETRIES_PER_BLOCK + 1 { witness(format!("retry count {} exceeds bound", b.retry_count)); } }
            }
        }
    }
}

/// C16, last clause: a block that keeps failing is requested only a bounded number of times
#[tokio::test]
#[serial_test::serial]
async fn retries_bounded() {
    let t = TestManager::default();
    let blockchain = t.blockchain_lock.read().await;
    for batch in 1..4usize {
        let mut state = BlockchainSyncState::new(batch);
        let h = [7u8; 32];
        state.received_block_picture.entry(1).or_default().push_back((3, h));
        state.build_peer_block_picture(blockchain.deref());
        let mut requests = 0u32;
        for _round in 0..(20 * (MAX_RETRIES_PER_BLOCK as usize + 2)) {
            let sel = state.get_blocks_to_fetch_per_peer();
            for (p, v) in sel.iter() {
                for (hash, id) in v.iter() {
                    requests += 1;
                    state.mark_as_failed(*id, *hash, *p);
                }
            }
        }
        if requests > MAX_RETRIES_PER_BLOCK + 1 {
            witness(format!("batch size {}: one block whose fetch fails every time was requested {} times from the same peer in {} scheduling rounds (bound: first attempt + {} retries)",
                batch, requests, 20 * (MAX_RETRIES_PER_BLOCK as usize + 2), MAX_RETRIES_PER_BLOCK));
        }
    }
}

/// C16 (completeness within a round): blocks the scheduler has given up on do not use up the peer's quota — a block that
/// is announced behind them is still requested
#[tokio::test]
#[serial_test::serial]
async fn abandoned_blocks_do_not_starve_the_queue() {
    let t = TestManager::default();
    let blockchain = t.blockchain_lock.read().await;
    for batch in 1..4usize {
        let mut state = BlockchainSyncState::new(batch);
        for k in 0..batch { state.received_block_picture.entry(1).or_default().push_back((3 + k as u64, [7 + k as u8; 32])); }
        state.build_peer_block_picture(blockchain.deref());
        // every fetch of these blocks fails until the scheduler gives up on them
        for _round in 0..(3 * (MAX_RETRIES_PER_BLOCK as usize + 3)) {
            let sel = state.get_blocks_to_fetch_per_peer();
            for (p, v) in sel.iter() { for (hash, id) in v.iter() { state.mark_as_failed(*id, *hash, *p); } }
        }
        // a healthy block is announced behind them
        let healthy = [99u8; 32];
        state.received_block_picture.entry(1).or_default().push_back((50, healthy));
        state.build_peer_block_picture(blockchain.deref());
        let mut requested = false;
        for _round in 0..5 {
            let sel = state.get_blocks_to_fetch_per_peer();
            if sel.values().any(|v| v.iter().any(|(h, _)| *h == healthy)) { requested = true; }
        }
        if !requested {
            witness(format!("batch size {}: {} block(s) failed until the scheduler gave up on them; a further block announced by the same peer is never requested although nothing is in flight — the abandoned entries keep using up the quota", batch, batch));
        }
    }
}

/// C16 ("the same block is never in flight twice for the same peer"): a hash announced again under other ids — the id in
/// an announcement is the peer's choice — is neither queued nor requested a second time (scenario of an independent audit)
#[tokio::test]
#[serial_test::serial]
async fn hash_announced_under_several_ids_is_requested_once() {
    let t = TestManager::default();
    let blockchain = t.blockchain_lock.read().await;
    let mut state = BlockchainSyncState::new(10);
    let hash = [9u8; 32];
    let mut requests = 0;
    for id in 5..16u64 {
        state.received_block_picture.entry(1).or_default().push_back((id, hash));
        if id == 5 { state.received_block_picture.entry(1).or_default().push_back((id + 100, hash)); }
        state.build_peer_block_picture(blockchain.deref());
        let round = state.get_blocks_to_fetch_per_peer();
        requests += round.get(&1).map(|v| v.iter().filter(|(h, _)| *h == hash).count()).unwrap_or(0);
    }
    let queued = state.blocks_to_fetch.get(&1).map(|q| q.iter().filter(|b| b.block_hash == hash).count()).unwrap_or(0);
    if requests != 1 || queued != 1 {
        witness(format!("peer 1 announced one block hash under 12 different ids while its fetch was in flight: the block was requested {} times from that peer and has {} entries in its queue (batch size 10)", requests, queued));
    }
}
