// Replay / extraction-validation module for message.rs (compiled only under --cfg saito_verif in the test build)
#[allow(unused_imports)]
use super::*;
include!("/verif/replay/in_crate/common.rs");

fn decode_guarded(buf: &[u8]) -> Result<bool, String> {
    let b = buf.to_vec();
    let prev = std::panic::take_hook();
    std::panic::set_hook(Box::new(|_| {}));
    let r = std::panic::catch_unwind(move || Message::deserialize(b).is_ok());
    std::panic::set_hook(prev);
    r.map_err(|e| e.downcast_ref::<String>().cloned().or_else(|| e.downcast_ref::<&str>().map(|s| s.to_string())).unwrap_or_default())
}

/// C10: Message::deserialize returns Ok/Err for every buffer, for every tag (tags 2, 3, 9 go through decoders
/// that are not under a Verus contract in unit `message`; they are exercised here all the same)
#[test]
fn decoder_total() {
    let mut rng = Rng::from_env();
    for tag in 0u8..=17 {
        for len in 0..200usize {
            for _ in 0..3 {
                let mut b = vec![tag];
                b.extend(rng.bytes(len));
                // small counts make deeper paths reachable
                if len >= 36 && rng.below(2) == 0 { b[33] = 0; b[34] = 0; b[35] = 0; b[36] = rng.below(4) as u8; }
                if let Err(p) = decode_guarded(&b) {
                    witness(format!("Message::deserialize panicked on tag {} with {} payload bytes {:?}…: {}", tag, len, &b[1..b.len().min(12)], p));
                }
            }
        }
    }
}

/// C09: tag table and payload round trip for the fixed-layout variants
#[test]
fn roundtrip_simple_variants() {
    let mut rng = Rng::from_env();
    for _ in 0..500 {
        let h: [u8; 32] = rng.arr(); let f: [u8; 32] = rng.arr(); let id = rng.edge_u64();
        let m = Message::BlockHeaderHash(h, id);
        match Message::deserialize(m.serialize()) { Ok(Message::BlockHeaderHash(h2, id2)) if h2 == h && id2 == id => {}, _ => witness(format!("BlockHeaderHash({:?},{}) does not round trip", &h[..4], id)) }
        let m = Message::GhostChainRequest(id, h, f);
        match Message::deserialize(m.serialize()) { Ok(Message::GhostChainRequest(i2, h2, f2)) if h2 == h && i2 == id && f2 == f => {}, _ => witness("GhostChainRequest does not round trip".to_string()) }
        let n = rng.below(5) as usize;
        let keys: Vec<SaitoPublicKey> = (0..n).map(|_| rng.arr::<33>()).collect();
        match Message::deserialize(Message::KeyListUpdate(keys.clone()).serialize()) { Ok(Message::KeyListUpdate(k2)) if k2 == keys => {}, _ => witness("KeyListUpdate does not round trip".to_string()) }
        let api = ApiMessage { msg_index: rng.next() as u32, data: rng.bytes(n * 3) };
        match Message::deserialize(Message::ApplicationMessage(ApiMessage { msg_index: api.msg_index, data: api.data.clone() }).serialize()) { Ok(Message::ApplicationMessage(a)) if a.msg_index == api.msg_index && a.data == api.data => {}, _ => witness("ApplicationMessage does not round trip".to_string()) }
    }
}

/// C11 (routing thread): whatever well-formed message a peer sends, and however often, the routing thread's handler
/// returns — a block message (decodable, but not part of the protocol), key-list updates beyond the rate limit, key-list
/// updates and pings from a peer index the node has no record of.
#[tokio::test]
#[serial_test::serial]
async fn well_formed_messages_never_stop_the_routing_thread() {
    use crate::core::util::test::node_tester::test::NodeTester;
    use crate::core::io::network_event::NetworkEvent;
    use crate::core::process::process_event::ProcessEvent;
    use crate::core::consensus::peers::peer::Peer;
    use crate::core::consensus::block::{Block, BlockType};
    let mut tester = NodeTester::default();
    { let mut peers = tester.routing_thread.network.peer_lock.write().await; peers.index_to_peers.insert(7, Peer::new(7)); }
    let block_message = { let mut b = Block::new(); b.id = 5; let mut v = vec![3u8]; v.extend(b.serialize_for_net(BlockType::Full)); v };
    let key_list = Message::KeyListUpdate(vec![[2u8; 33], [3u8; 33]]).serialize();
    let mut cases: Vec<(String, u64, Vec<u8>)> = vec![
        ("a block message".to_string(), 7, block_message),
        ("a ping".to_string(), 7, Message::Ping().serialize()),
        ("a ghost-chain request from a peer that has not completed the handshake".to_string(), 7, Message::GhostChainRequest(1, [4u8; 32], [0u8; 32]).serialize()),
    ];
    for n in 0..400 { cases.push((format!("key-list update #{} from the same peer", n + 1), 7, key_list.clone())); }
    for (what, peer_index, buffer) in cases {
        let fut = std::panic::AssertUnwindSafe(tester.routing_thread.process_network_event(NetworkEvent::IncomingNetworkMessage { peer_index, buffer }));
        let r = futures::FutureExt::catch_unwind(fut).await;
        if r.is_err() { witness(format!("the routing thread's message handler panicked on {} — the routing thread is gone", what)); }
    }
}

/// C01 (the exemption every block-level clause makes for blocks whose parent is a ghost block): a node that validates
/// transactions never follows a chain a peer merely describes by hashes — after a GhostChain message from a peer (one that
/// has not even completed the handshake) a full node holds no ghost block and its tip and by-height index are where they were
#[tokio::test]
#[serial_test::serial]
async fn ghost_chain_from_a_peer_is_not_followed_by_a_full_node() {
    use crate::core::util::test::node_tester::test::NodeTester;
    use crate::core::io::network_event::NetworkEvent;
    use crate::core::process::process_event::ProcessEvent;
    use crate::core::consensus::block::BlockType;
    use crate::core::msg::ghost_chain_sync::GhostChainSync;
    use crate::core::defs::NOLAN_PER_SAITO;
    use crate::core::util::crypto::hash;
    NodeTester::delete_data().await.unwrap();
    let mut tester = NodeTester::new(100, None, None);
    tester.init_with_staking(0, 60, 100_000 * NOLAN_PER_SAITO).await.unwrap();
    tester.wait_till_block_id_with_txs(3, 0, 0).await.unwrap();
    { let configs = tester.routing_thread.config_lock.read().await; assert!(!configs.is_spv_mode() && !configs.is_browser(), "harness: a full node"); }
    let (tip_id, tip_hash, tip_ts) = { let bc = tester.routing_thread.blockchain_lock.read().await; let b = bc.get_latest_block().unwrap(); (b.id, b.hash, b.timestamp) };
    let peer_index = 7;
    tester.routing_thread.process_network_event(NetworkEvent::PeerConnectionResult { result: Ok((peer_index, None)) }).await;
    let mut rng = Rng::from_env();
    for n_blocks in 1..=3usize {
        let mut prehashes = vec![]; let mut prevs = vec![]; let mut ids = vec![]; let mut ts = vec![];
        let mut prev = tip_hash;
        for k in 0..n_blocks {
            let pre: [u8; 32] = rng.arr();
            prehashes.push(pre); prevs.push(prev); ids.push(tip_id + 1 + k as u64); ts.push(tip_ts + 1000 * (k as u64 + 1));
            prev = hash(&[prev.as_slice(), pre.as_slice()].concat());
        }
        let chain = GhostChainSync { start: tip_hash, prehashes, previous_block_hashes: prevs, block_ids: ids, block_ts: ts, txs: vec![false; n_blocks], gts: vec![true; n_blocks] };
        tester.routing_thread.process_network_event(NetworkEvent::IncomingNetworkMessage { peer_index, buffer: Message::GhostChain(chain).serialize() }).await;
        let bc = tester.routing_thread.blockchain_lock.read().await;
        let ghosts = bc.blocks.values().filter(|b| matches!(b.block_type, BlockType::Ghost)).count();
        let index_above = (1..=n_blocks as u64).filter(|k| bc.blockring.get_longest_chain_block_hash_at_block_id(tip_id + k).is_some()).count();
        if ghosts > 0 || index_above > 0 || bc.get_latest_block_hash() != tip_hash {
            witness(format!("a full node with tip {} received one GhostChain message describing {} made-up block(s) on its tip from a peer that never completed the handshake: it now stores {} ghost block(s), its by-height index has {} entr(ies) above the tip, reported tip id {} — a block built on a ghost block is accepted without its transactions being checked",
                tip_id, n_blocks, ghosts, index_above, bc.get_latest_block_id()));
        }
    }
}

/// C16 (every announced block the node lacks is eventually requested): a block queued for peer 1 stays queued when a peer
/// without a fetch url announces the same hash (scenario of an independent audit)
#[tokio::test]
#[serial_test::serial]
async fn announcement_from_a_peer_without_fetch_url_leaves_other_peers_queues_alone() {
    use crate::core::consensus::peers::peer::Peer;
    use crate::core::util::test::node_tester::test::NodeTester;
    use crate::core::process::process_event::ProcessEvent;

    let mut tester = NodeTester::default();
    let peer_lock = tester.routing_thread.network.peer_lock.clone();
    {
        let mut peers = peer_lock.write().await;
        // peer 1 : an honest full node we can fetch blocks from
        let mut peer_1 = Peer::new(1);
        peer_1.block_fetch_url = "http://peer1.invalid/block/".to_string();
        peers.index_to_peers.insert(1, peer_1);
        // peer 2 : a peer without a block fetch url (e.g. a lite / browser client)
        peers.index_to_peers.insert(2, Peer::new(2));
    }

    // peer 1 announces 11 blocks the node lacks; batch size is 10, so 10 go in flight and
    // block 11 stays queued. (Scheduler driven directly here only because the test I/O
    // handler's fetch_block_from_peer is todo!(); these are the exact calls routing makes.)
    let batch_size = 10;
    for i in 1..=(batch_size + 1) {
        tester
            .routing_thread
            .blockchain_sync_state
            .add_entry([i as u8; 32], i as u64, 1, peer_lock.clone())
            .await;
    }
    {
        let blockchain = tester.routing_thread.blockchain_lock.read().await;
        tester
            .routing_thread
            .blockchain_sync_state
            .build_peer_block_picture(&blockchain);
    }
    let round_1 = tester
        .routing_thread
        .blockchain_sync_state
        .get_blocks_to_fetch_per_peer();
    assert_eq!(round_1.get(&1).unwrap().len(), batch_size);
    assert_eq!(
        tester
            .routing_thread
            .blockchain_sync_state
            .get_fetching_block_count(),
        (batch_size + 1) as u64
    );
    let queued_hash = [(batch_size + 1) as u8; 32];
    assert!(!round_1.get(&1).unwrap().iter().any(|(h, _)| *h == queued_hash));

    // peer 2 (no fetch url) now announces the block that is still queued for peer 1.
    // This goes through the real routing code: process_incoming_message ->
    // process_incoming_block_hash -> fetch_next_blocks.
    tester
        .routing_thread
        .process_network_event(crate::core::io::network_event::NetworkEvent::IncomingNetworkMessage {
            peer_index: 2,
            buffer: Message::BlockHeaderHash(queued_hash, (batch_size + 1) as u64).serialize(),
        })
        .await;

    // the 10 in-flight fetches from peer 1 complete, freeing its whole quota
    for i in 1..=batch_size {
        tester
            .routing_thread
            .blockchain_sync_state
            .mark_as_fetched([i as u8; 32]);
    }

    // the node still lacks block 11, nobody delivered it ...
    {
        let blockchain = tester.routing_thread.blockchain_lock.read().await;
        assert!(!blockchain.blocks.contains_key(&queued_hash));
        let mempool = tester.routing_thread.mempool_lock.read().await;
        assert!(!mempool.blocks_queue.iter().any(|b| b.hash == queued_hash));
        tester
            .routing_thread
            .blockchain_sync_state
            .build_peer_block_picture(&blockchain);
    }
    // ... so the next selection round must request it from peer 1.
    let round_2 = tester
        .routing_thread
        .blockchain_sync_state
        .get_blocks_to_fetch_per_peer();
    let requested = round_2
        .get(&1)
        .map(|v| v.iter().any(|(h, _)| *h == queued_hash))
        .unwrap_or(false);
    if !requested { witness(format!(
        "block 11 was announced by peer 1, the node lacks it and it never arrived, yet it is never requested: an announcement of the same hash by url-less peer 2 made fetch_next_blocks call remove_entry(hash), which erased the entry queued for peer 1 as well (scheduler now holds {} entries)",
        tester
            .routing_thread
            .blockchain_sync_state
            .get_fetching_block_count()
    )); }
}

/// C02: no value hides in the outputs of an NFT-creating transaction — the transaction the wallet builds validates, the same
/// transaction with one more output, a Bound slip of 10^6 SAITO, re-signed by its sender, does not (Bound amounts count as
/// zero in the in/out comparison; a trailing Bound slip is later rebroadcast as a spendable slip of its face amount) —
/// scenario of an independent audit
#[tokio::test]
#[serial_test::serial]
async fn nft_creation_cannot_carry_an_extra_bound_output() {
    use crate::core::util::test::node_tester::test::NodeTester;
    use crate::core::consensus::slip::{Slip, SlipType};
    use crate::core::consensus::transaction::TransactionType;
    use crate::core::defs::NOLAN_PER_SAITO;
    use crate::core::util::crypto::generate_keys;
    use crate::core::defs::PrintForLog;
    let genesis_period: u64 = 10;
    NodeTester::delete_data().await.unwrap();
    let mut tester = NodeTester::new(genesis_period, None, None);
    let public_key = tester.get_public_key().await;
    tester.set_issuance(vec![(public_key.to_base58(), 100_000 * NOLAN_PER_SAITO), (public_key.to_base58(), 50_000 * NOLAN_PER_SAITO)]).await.unwrap();
    tester.set_staking_enabled(false).await;
    tester.init().await.unwrap();
    tester.wait_till_block_id(1).await.unwrap();
    let latest_block_id = tester.get_latest_block_id().await;
    let (honest, forged) = {
        let mut wallet = tester.consensus_thread.wallet_lock.write().await;
        let private_key = wallet.private_key;
        let slip = wallet.slips.values().find(|s| !s.spent && s.lc && wallet.unspent_slips.contains(&s.utxokey)).expect("an unspent wallet slip").clone();
        let mut tx = wallet.create_bound_transaction(slip.amount, slip.block_id, slip.tx_ordinal, slip.slip_index as u64, 1_000, vec![], &public_key, None, latest_block_id, genesis_period, "replay".to_string())
            .await.expect("the wallet builds the NFT transaction");
        assert_eq!(tx.transaction_type, TransactionType::Bound);
        tx.sign(&private_key);
        tx.generate(&public_key, 0, 0);
        let honest = tx.clone();
        let mut extra = Slip::default();
        extra.public_key = generate_keys().0;
        extra.amount = 1_000_000 * NOLAN_PER_SAITO;
        extra.slip_type = SlipType::Bound;
        tx.add_to_slip(extra);
        tx.sign(&private_key);
        tx.generate(&public_key, 0, 0);
        (honest, tx)
    };
    let blockchain = tester.consensus_thread.blockchain_lock.read().await;
    assert!(honest.validate(&blockchain.utxoset, &blockchain, true), "harness: the NFT transaction the wallet builds validates");
    if forged.validate(&blockchain.utxoset, &blockchain, true) {
        witness(format!("an NFT-creating transaction with {} outputs, the last one a Bound slip of {} nolan under a foreign key that nothing pays for (the wallet's own transaction has {} outputs), signed by its sender, is accepted by Transaction::validate: total_in {} total_out {}",
            forged.to.len(), forged.to.last().unwrap().amount, honest.to.len(), forged.total_in, forged.total_out));
    }
}

/// C02: the fee an NFT (Bound) transaction pays is booked in the block that carries it — the supply the ledger accounts for stays
/// what was issued — scenario of an independent audit
#[tokio::test]
#[serial_test::serial]
async fn fee_of_an_nft_transaction_is_not_lost() {
    #[allow(unused_imports)] use crate::core::defs::PrintForLog;
    #[allow(unused_imports)] use crate::core::util::test::node_tester::test::NodeTester;
    #[allow(unused_imports)] use crate::core::consensus::slip::SlipType;
    #[allow(unused_imports)] use crate::core::defs::NOLAN_PER_SAITO;
    #[allow(unused_imports)] use crate::core::consensus::transaction::Transaction;
    #[allow(unused_imports)] use crate::core::consensus::block::Block;
    #[allow(unused_imports)] use std::ops::Deref;
    #[allow(unused_imports)] use crate::core::util::crypto::generate_keys;
    #[allow(unused_imports)] use ahash::AHashMap;
    #[allow(unused_imports)] use crate::core::consensus::wallet::Wallet;
    use crate::core::consensus::blockchain::Blockchain;
    use crate::core::consensus::slip::Slip;
    use crate::core::consensus::transaction::TransactionType;
    use futures::FutureExt;

    // the quantity the property talks about, in unbounded (u128) arithmetic
    fn audit_supply(blockchain: &Blockchain, genesis_period: u64) -> u128 {
        let latest = blockchain.get_latest_block().expect("a latest block");
        let mut supply: u128 = 0;
        for (key, spendable) in blockchain.utxoset.iter() {
            if !*spendable {
                continue;
            }
            let slip = Slip::parse_slip_from_utxokey(key).unwrap();
            if slip.slip_type == SlipType::Bound {
                continue;
            }
            if slip.block_id < latest.id.saturating_sub(genesis_period) {
                continue;
            }
            supply += slip.amount as u128;
        }
        supply
            + latest.treasury as u128
            + latest.graveyard as u128
            + latest.previous_block_unpaid as u128
            + latest.total_fees as u128
    }

    const FEE: u64 = 5_000;
    const DEPOSIT: u64 = 1_000;
    let genesis_period: u64 = 10;

    NodeTester::delete_data().await.unwrap();
    let mut tester = NodeTester::new(genesis_period, None, None);
    let public_key = tester.get_public_key().await;
    let private_key = tester.get_private_key().await;
    let issuance = vec![
        (public_key.to_base58(), 100_000 * NOLAN_PER_SAITO),
        (public_key.to_base58(), 50_000 * NOLAN_PER_SAITO),
        (public_key.to_base58(), 25_000 * NOLAN_PER_SAITO),
    ];
    tester.set_issuance(issuance).await.unwrap();
    tester.set_staking_enabled(false).await;
    tester.init().await.unwrap();
    tester.wait_till_block_id(1).await.unwrap();

    let issued: u128 = {
        let blockchain = tester.consensus_thread.blockchain_lock.read().await;
        audit_supply(&blockchain, genesis_period)
    };
    assert_eq!(
        issued,
        175_000u128 * NOLAN_PER_SAITO as u128,
        "setup: the genesis block issues 175000 SAITO"
    );

    // control 1: a Normal transaction paying the same fee keeps the supply
    let tx = tester
        .create_transaction(10_000, FEE, public_key)
        .await
        .unwrap();
    tester.add_transaction(tx).await;
    tester.wait_till_block_id(2).await.unwrap();
    {
        let blockchain = tester.consensus_thread.blockchain_lock.read().await;
        assert_eq!(
            audit_supply(&blockchain, genesis_period),
            issued,
            "control: a Normal transaction with a {} nolan fee conserves the supply",
            FEE
        );
        assert_eq!(blockchain.get_latest_block().unwrap().total_fees, FEE);
    }

    // builds an NFT-creating (Bound) transaction out of one unspent wallet slip; `fee` is taken off
    // the change output
    async fn audit_nft_tx(
        tester: &NodeTester,
        fee: u64,
        deposit: u64,
        genesis_period: u64,
    ) -> crate::core::consensus::transaction::Transaction {
        let latest_block_id = tester.get_latest_block_id().await;
        let mut wallet = tester.consensus_thread.wallet_lock.write().await;
        let public_key = wallet.public_key;
        let private_key = wallet.private_key;
        let slip = wallet
            .slips
            .values()
            .find(|s| {
                !s.spent
                    && s.lc
                    && s.slip_type != SlipType::Bound
                    && s.amount > 1_000_000
                    && wallet.unspent_slips.contains(&s.utxokey)
            })
            .expect("an unspent wallet slip")
            .clone();
        let mut tx = wallet
            .create_bound_transaction(
                slip.amount,
                slip.block_id,
                slip.tx_ordinal,
                slip.slip_index as u64,
                deposit,
                vec![],
                &public_key,
                None,
                latest_block_id,
                genesis_period,
                "audit".to_string(),
            )
            .await
            .expect("the wallet builds the NFT transaction");
        assert_eq!(tx.transaction_type, TransactionType::Bound);
        assert_eq!(tx.from.len(), 1);
        assert_eq!(tx.to.len(), 4, "bound, payload, bound, change");
        assert_eq!(tx.to[3].amount, slip.amount - deposit);
        tx.to[3].amount -= fee;
        tx.sign(&private_key);
        tx.generate(&public_key, 0, 0);
        assert_eq!(tx.total_fees, fee);
        tx
    }

    // control 2: the NFT transaction the wallet builds (no fee) keeps the supply
    let honest_nft = audit_nft_tx(&tester, 0, DEPOSIT, genesis_period).await;
    tester.add_transaction(honest_nft.clone()).await;
    tester.wait_till_block_id(3).await.unwrap();
    {
        let blockchain = tester.consensus_thread.blockchain_lock.read().await;
        let block = blockchain.get_latest_block().unwrap();
        if !(block
                .transactions
                .iter()
                .any(|t| t.signature == honest_nft.signature)) { witness(format!("setup: block 3 carries the fee-less NFT transaction")); }
        assert_eq!(
            audit_supply(&blockchain, genesis_period),
            issued,
            "control: an NFT transaction without a fee conserves the supply"
        );
    }

    // the same transaction paying a fee of 5000 nolan
    let paying_nft = audit_nft_tx(&tester, FEE, DEPOSIT, genesis_period).await;
    tester.add_transaction(paying_nft.clone()).await;
    // (the node's own wrapping check aborts the process once the block has been wound in)
    let outcome = std::panic::AssertUnwindSafe(tester.wait_till_block_id(4))
        .catch_unwind()
        .await;
    let node_aborted = outcome.is_err();

    let blockchain = tester.consensus_thread.blockchain_lock.read().await;
    let block = blockchain
        .blocks
        .values()
        .find(|b| {
            b.transactions
                .iter()
                .any(|t| t.signature == paying_nft.signature)
        })
        .expect("setup: a block carrying the fee-paying NFT transaction was produced");
    assert_eq!(block.id, 4);
    let payload = block
        .transactions
        .iter()
        .find(|t| t.signature == paying_nft.signature)
        .unwrap()
        .to[1]
        .clone();
    assert_eq!(
        blockchain.utxoset.get(&payload.utxoset_key),
        Some(&true),
        "setup: block 4 passed Block::validate and was wound into the ledger (its outputs are spendable)"
    );
    assert_eq!(blockchain.get_latest_block_id(), 4);

    let after = audit_supply(&blockchain, genesis_period);
    assert_eq!(
        after,
        issued,
        "block 4 carries a Bound (NFT) transaction that consumes {} nolan more than it pays out; the block validated and was wound in, but the {} nolan are counted nowhere (block.total_fees = {}, total_fees_new = {}): spendable outputs + treasury + graveyard + unpaid + tip fees = {} instead of the {} issued, {} nolan are lost (node aborted in check_total_supply: {})",
        FEE,
        FEE,
        block.total_fees,
        block.total_fees_new,
        after,
        issued,
        issued - after,
        node_aborted
    );
}
