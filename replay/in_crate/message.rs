// Replay / extraction-validation module for message.rs (compiled only under --cfg saito_verif in the test build)
#[allow(unused_imports)]
use super::*;
include!("/verif/replay/in_crate/common.rs");

fn decode_guarded(buf: &[u8]) -> Result<bool, String> {
    let b = buf.to_vec();
    let prev = std::panic::take_hook();
    std::panic::set_hook(Box::new(|_| {}));
    let r = std::panic::catch_unwind(move || Message::deserialize(b).is_ok());
    std::panic::set_hook(prev);
    r.map_err(|e| e.downcast_ref::<String>().cloned().or_else(|| e.downcast_ref::<&str>().map(|s| s.to_string())).unwrap_or_default())
}

/// C10: Message::deserialize returns Ok/Err for every buffer, for every tag (tags 2, 3, 9 go through decoders
/// that are not under a Verus contract in unit `message`; they are exercised here all the same)
#[test]
fn decoder_total() {
    let mut rng = Rng::from_env();
    for tag in 0u8..=17 {
        for len in 0..200usize {
            for _ in 0..3 {
                let mut b = vec![tag];
                b.extend(rng.bytes(len));
                // small counts make deeper paths reachable
                if len >= 36 && rng.below(2) == 0 { b[33] = 0; b[34] = 0; b[35] = 0; b[36] = rng.below(4) as u8; }
                if let Err(p) = decode_guarded(&b) {
                    witness(format!("Message::deserialize panicked on tag {} with {} payload bytes {:?}…: {}", tag, len, &b[1..b.len().min(12)], p));
                }
            }
        }
    }
}

/// C09: tag table and payload round trip for the fixed-layout variants
#[test]
fn roundtrip_simple_variants() {
    let mut rng = Rng::from_env();
    for _ in 0..500 {
        let h: [u8; 32] = rng.arr(); let f: [u8; 32] = rng.arr(); let id = rng.edge_u64();
        let m = Message::BlockHeaderHash(h, id);
        match Message::deserialize(m.serialize()) { Ok(Message::BlockHeaderHash(h2, id2)) if h2 == h && id2 == id => {}, _ => witness(format!("BlockHeaderHash({:?},{}) does not round trip", &h[..4], id)) }
        let m = Message::GhostChainRequest(id, h, f);
        match Message::deserialize(m.serialize()) { Ok(Message::GhostChainRequest(i2, h2, f2)) if h2 == h && i2 == id && f2 == f => {}, _ => witness("GhostChainRequest does not round trip".to_string()) }
        let n = rng.below(5) as usize;
        let keys: Vec<SaitoPublicKey> = (0..n).map(|_| rng.arr::<33>()).collect();
        match Message::deserialize(Message::KeyListUpdate(keys.clone()).serialize()) { Ok(Message::KeyListUpdate(k2)) if k2 == keys => {}, _ => witness("KeyListUpdate does not round trip".to_string()) }
        let api = ApiMessage { msg_index: rng.next() as u32, data: rng.bytes(n * 3) };
        match Message::deserialize(Message::ApplicationMessage(ApiMessage { msg_index: api.msg_index, data: api.data.clone() }).serialize()) { Ok(Message::ApplicationMessage(a)) if a.msg_index == api.msg_index && a.data == api.data => {}, _ => witness("ApplicationMessage does not round trip".to_string()) }
    }
}

/// C11 (routing thread): whatever well-formed message a peer sends, and however often, the routing thread's handler
/// returns — a block message (decodable, but not part of the protocol), key-list updates beyond the rate limit, key-list
/// updates and pings from a peer index the node has no record of.
#[tokio::test]
#[serial_test::serial]
async fn well_formed_messages_never_stop_the_routing_thread() {
    use crate::core::util::test::node_tester::test::NodeTester;
    use crate::core::io::network_event::NetworkEvent;
    use crate::core::process::process_event::ProcessEvent;
    use crate::core::consensus::peers::peer::Peer;
    use crate::core::consensus::block::{Block, BlockType};
    let mut tester = NodeTester::default();
    { let mut peers = tester.routing_thread.network.peer_lock.write().await; peers.index_to_peers.insert(7, Peer::new(7)); }
    let block_message = { let mut b = Block::new(); b.id = 5; let mut v = vec![3u8]; v.extend(b.serialize_for_net(BlockType::Full)); v };
    let key_list = Message::KeyListUpdate(vec![[2u8; 33], [3u8; 33]]).serialize();
    let mut cases: Vec<(String, u64, Vec<u8>)> = vec![
        ("a block message".to_string(), 7, block_message),
        ("a ping".to_string(), 7, Message::Ping().serialize()),
        ("a ghost-chain request from a peer that has not completed the handshake".to_string(), 7, Message::GhostChainRequest(1, [4u8; 32], [0u8; 32]).serialize()),
    ];
    for n in 0..400 { cases.push((format!("key-list update #{} from the same peer", n + 1), 7, key_list.clone())); }
    for (what, peer_index, buffer) in cases {
        let fut = std::panic::AssertUnwindSafe(tester.routing_thread.process_network_event(NetworkEvent::IncomingNetworkMessage { peer_index, buffer }));
        let r = futures::FutureExt::catch_unwind(fut).await;
        if r.is_err() { witness(format!("the routing thread's message handler panicked on {} — the routing thread is gone", what)); }
    }
}

/// C01 (the exemption every block-level clause makes for blocks whose parent is a ghost block): a node that validates
/// transactions never follows a chain a peer merely describes by hashes — after a GhostChain message from a peer (one that
/// has not even completed the handshake) a full node holds no ghost block and its tip and by-height index are where they were
#[tokio::test]
#[serial_test::serial]
async fn ghost_chain_from_a_peer_is_not_followed_by_a_full_node() {
    use crate::core::util::test::node_tester::test::NodeTester;
    use crate::core::io::network_event::NetworkEvent;
    use crate::core::process::process_event::ProcessEvent;
    use crate::core::consensus::block::BlockType;
    use crate::core::msg::ghost_chain_sync::GhostChainSync;
    use crate::core::defs::NOLAN_PER_SAITO;
    use crate::core::util::crypto::hash;
    NodeTester::delete_data().await.unwrap();
    let mut tester = NodeTester::new(100, None, None);
    tester.init_with_staking(0, 60, 100_000 * NOLAN_PER_SAITO).await.unwrap();
    tester.wait_till_block_id_with_txs(3, 0, 0).await.unwrap();
    { let configs = tester.routing_thread.config_lock.read().await; assert!(!configs.is_spv_mode() && !configs.is_browser(), "harness: a full node"); }
    let (tip_id, tip_hash, tip_ts) = { let bc = tester.routing_thread.blockchain_lock.read().await; let b = bc.get_latest_block().unwrap(); (b.id, b.hash, b.timestamp) };
    let peer_index = 7;
    tester.routing_thread.process_network_event(NetworkEvent::PeerConnectionResult { result: Ok((peer_index, None)) }).await;
    let mut rng = Rng::from_env();
    for n_blocks in 1..=3usize {
        let mut prehashes = vec![]; let mut prevs = vec![]; let mut ids = vec![]; let mut ts = vec![];
        let mut prev = tip_hash;
        for k in 0..n_blocks {
            let pre: [u8; 32] = rng.arr();
            prehashes.push(pre); prevs.push(prev); ids.push(tip_id + 1 + k as u64); ts.push(tip_ts + 1000 * (k as u64 + 1));
            prev = hash(&[prev.as_slice(), pre.as_slice()].concat());
        }
        let chain = GhostChainSync { start: tip_hash, prehashes, previous_block_hashes: prevs, block_ids: ids, block_ts: ts, txs: vec![false; n_blocks], gts: vec![true; n_blocks] };
        tester.routing_thread.process_network_event(NetworkEvent::IncomingNetworkMessage { peer_index, buffer: Message::GhostChain(chain).serialize() }).await;
        let bc = tester.routing_thread.blockchain_lock.read().await;
        let ghosts = bc.blocks.values().filter(|b| matches!(b.block_type, BlockType::Ghost)).count();
        let index_above = (1..=n_blocks as u64).filter(|k| bc.blockring.get_longest_chain_block_hash_at_block_id(tip_id + k).is_some()).count();
        if ghosts > 0 || index_above > 0 || bc.get_latest_block_hash() != tip_hash {
            witness(format!("a full node with tip {} received one GhostChain message describing {} made-up block(s) on its tip from a peer that never completed the handshake: it now stores {} ghost block(s), its by-height index has {} entr(ies) above the tip, reported tip id {} — a block built on a ghost block is accepted without its transactions being checked",
                tip_id, n_blocks, ghosts, index_above, bc.get_latest_block_id()));
        }
    }
}

/// C16 (every announced block the node lacks is eventually requested): a block queued for peer 1 stays queued when a peer
/// without a fetch url announces the same hash (scenario of an independent audit)
#[tokio::test]
#[serial_test::serial]
async fn announcement_from_a_peer_without_fetch_url_leaves_other_peers_queues_alone() {
    use crate::core::consensus::peers::peer::Peer;
    use crate::core::util::test::node_tester::test::NodeTester;
    use crate::core::process::process_event::ProcessEvent;

    let mut tester = NodeTester::default();
    let peer_lock = tester.routing_thread.network.peer_lock.clone();
    {
        let mut peers = peer_lock.write().await;
        // peer 1 : an honest full node we can fetch blocks from
        let mut peer_1 = Peer::new(1);
        peer_1.block_fetch_url = "http://peer1.invalid/block/".to_string();
        peers.index_to_peers.insert(1, peer_1);
        // peer 2 : a peer without a block fetch url (e.g. a lite / browser client)
        peers.index_to_peers.insert(2, Peer::new(2));
    }

    // peer 1 announces 11 blocks the node lacks; batch size is 10, so 10 go in flight and
    // block 11 stays queued. (Scheduler driven directly here only because the test I/O
    // handler's fetch_block_from_peer is todo!(); these are the exact calls routing makes.)
    let batch_size = 10;
    for i in 1..=(batch_size + 1) {
        tester
            .routing_thread
            .blockchain_sync_state
            .add_entry([i as u8; 32], i as u64, 1, peer_lock.clone())
            .await;
    }
    {
        let blockchain = tester.routing_thread.blockchain_lock.read().await;
        tester
            .routing_thread
            .blockchain_sync_state
            .build_peer_block_picture(&blockchain);
    }
    let round_1 = tester
        .routing_thread
        .blockchain_sync_state
        .get_blocks_to_fetch_per_peer();
    assert_eq!(round_1.get(&1).unwrap().len(), batch_size);
    assert_eq!(
        tester
            .routing_thread
            .blockchain_sync_state
            .get_fetching_block_count(),
        (batch_size + 1) as u64
    );
    let queued_hash = [(batch_size + 1) as u8; 32];
    assert!(!round_1.get(&1).unwrap().iter().any(|(h, _)| *h == queued_hash));

    // peer 2 (no fetch url) now announces the block that is still queued for peer 1.
    // This goes through the real routing code: process_incoming_message ->
    // process_incoming_block_hash -> fetch_next_blocks.
    tester
        .routing_thread
        .process_network_event(crate::core::io::network_event::NetworkEvent::IncomingNetworkMessage {
            peer_index: 2,
            buffer: Message::BlockHeaderHash(queued_hash, (batch_size + 1) as u64).serialize(),
        })
        .await;

    // the 10 in-flight fetches from peer 1 complete, freeing its whole quota
    for i in 1..=batch_size {
        tester
            .routing_thread
            .blockchain_sync_state
            .mark_as_fetched([i as u8; 32]);
    }

    // the node still lacks block 11, nobody delivered it ...
    {
        let blockchain = tester.routing_thread.blockchain_lock.read().await;
        assert!(!blockchain.blocks.contains_key(&queued_hash));
        let mempool = tester.routing_thread.mempool_lock.read().await;
        assert!(!mempool.blocks_queue.iter().any(|b| b.hash == queued_hash));
        tester
            .routing_thread
            .blockchain_sync_state
            .build_peer_block_picture(&blockchain);
    }
    // ... so the next selection round must request it from peer 1.
    let round_2 = tester
        .routing_thread
        .blockchain_sync_state
        .get_blocks_to_fetch_per_peer();
    let requested = round_2
        .get(&1)
        .map(|v| v.iter().any(|(h, _)| *h == queued_hash))
        .unwrap_or(false);
    if !requested { witness(format!(
        "block 11 was announced by peer 1, the node lacks it and it never arrived, yet it is never requested: an announcement of the same hash by url-less peer 2 made fetch_next_blocks call remove_entry(hash), which erased the entry queued for peer 1 as well (scheduler now holds {} entries)",
        tester
            .routing_thread
            .blockchain_sync_state
            .get_fetching_block_count()
    )); }
}

/// C02: no value hides in the outputs of an NFT-creating transaction — the transaction the wallet builds validates, the same
/// transaction with one more output, a Bound slip of 10^6 SAITO, re-signed by its sender, does not (Bound amounts count as
/// zero in the in/out comparison; a trailing Bound slip is later rebroadcast as a spendable slip of its face amount) —
/// scenario of an independent audit
#[tokio::test]
#[serial_test::serial]
async fn nft_creation_cannot_carry_an_extra_bound_output() {
    use crate::core::util::test::node_tester::test::NodeTester;
    use crate::core::consensus::slip::{Slip, SlipType};
    use crate::core::consensus::transaction::TransactionType;
    use crate::core::defs::NOLAN_PER_SAITO;
    use crate::core::util::crypto::generate_keys;
    use crate::core::defs::PrintForLog;
    let genesis_period: u64 = 10;
    NodeTester::delete_data().await.unwrap();
    let mut tester = NodeTester::new(genesis_period, None, None);
    let public_key = tester.get_public_key().await;
    tester.set_issuance(vec![(public_key.to_base58(), 100_000 * NOLAN_PER_SAITO), (public_key.to_base58(), 50_000 * NOLAN_PER_SAITO)]).await.unwrap();
    tester.set_staking_enabled(false).await;
    tester.init().await.unwrap();
    tester.wait_till_block_id(1).await.unwrap();
    let latest_block_id = tester.get_latest_block_id().await;
    let (honest, forged) = {
        let mut wallet = tester.consensus_thread.wallet_lock.write().await;
        let private_key = wallet.private_key;
        let slip = wallet.slips.values().find(|s| !s.spent && s.lc && wallet.unspent_slips.contains(&s.utxokey)).expect("an unspent wallet slip").clone();
        let mut tx = wallet.create_bound_transaction(slip.amount, slip.block_id, slip.tx_ordinal, slip.slip_index as u64, 1_000, vec![], &public_key, None, latest_block_id, genesis_period, "replay".to_string())
            .await.expect("the wallet builds the NFT transaction");
        assert_eq!(tx.transaction_type, TransactionType::Bound);
        tx.sign(&private_key);
        tx.generate(&public_key, 0, 0);
        let honest = tx.clone();
        let mut extra = Slip::default();
        extra.public_key = generate_keys().0;
        extra.amount = 1_000_000 * NOLAN_PER_SAITO;
        extra.slip_type = SlipType::Bound;
        tx.add_to_slip(extra);
        tx.sign(&private_key);
        tx.generate(&public_key, 0, 0);
        (honest, tx)
    };
    let blockchain = tester.consensus_thread.blockchain_lock.read().await;
    assert!(honest.validate(&blockchain.utxoset, &blockchain, true), "harness: the NFT transaction the wallet builds validates");
    if forged.validate(&blockchain.utxoset, &blockchain, true) {
        witness(format!("an NFT-creating transaction with {} outputs, the last one a Bound slip of {} nolan under a foreign key that nothing pays for (the wallet's own transaction has {} outputs), signed by its sender, is accepted by Transaction::validate: total_in {} total_out {}",
            forged.to.len(), forged.to.last().unwrap().amount, honest.to.len(), forged.total_in, forged.total_out));
    }
}

/// C02: the fee an NFT (Bound) transaction pays is booked in the block that carries it — the supply the ledger accounts for stays
/// what was issued — scenario of an independent audit
#[tokio::test]
#[serial_test::serial]
async fn fee_of_an_nft_transaction_is_not_lost() {
    #[allow(unused_imports)] use crate::core::defs::PrintForLog;
    #[allow(unused_imports)] use crate::core::util::test::node_tester::test::NodeTester;
    #[allow(unused_imports)] use crate::core::consensus::slip::SlipType;
    #[allow(unused_imports)] use crate::core::defs::NOLAN_PER_SAITO;
    #[allow(unused_imports)] use crate::core::consensus::transaction::Transaction;
    #[allow(unused_imports)] use crate::core::consensus::block::Block;
    #[allow(unused_imports)] use std::ops::Deref;
    #[allow(unused_imports)] use crate::core::util::crypto::generate_keys;
    #[allow(unused_imports)] use ahash::AHashMap;
    #[allow(unused_imports)] use crate::core::consensus::wallet::Wallet;
    use crate::core::consensus::blockchain::Blockchain;
    use crate::core::consensus::slip::Slip;
    use crate::core::consensus::transaction::TransactionType;
    use futures::FutureExt;

    // the quantity the property talks about, in unbounded (u128) arithmetic
    fn audit_supply(blockchain: &Blockchain, genesis_period: u64) -> u128 {
        let latest = blockchain.get_latest_block().expect("a latest block");
        let mut supply: u128 = 0;
        for (key, spendable) in blockchain.utxoset.iter() {
            if !*spendable {
                continue;
            }
            let slip = Slip::parse_slip_from_utxokey(key).unwrap();
            if slip.slip_type == SlipType::Bound {
                continue;
            }
            if slip.block_id < latest.id.saturating_sub(genesis_period) {
                continue;
            }
            supply += slip.amount as u128;
        }
        supply
            + latest.treasury as u128
            + latest.graveyard as u128
            + latest.previous_block_unpaid as u128
            + latest.total_fees as u128
    }

    const FEE: u64 = 5_000;
    const DEPOSIT: u64 = 1_000;
    let genesis_period: u64 = 10;

    NodeTester::delete_data().await.unwrap();
    let mut tester = NodeTester::new(genesis_period, None, None);
    let public_key = tester.get_public_key().await;
    let private_key = tester.get_private_key().await;
    let issuance = vec![
        (public_key.to_base58(), 100_000 * NOLAN_PER_SAITO),
        (public_key.to_base58(), 50_000 * NOLAN_PER_SAITO),
        (public_key.to_base58(), 25_000 * NOLAN_PER_SAITO),
    ];
    tester.set_issuance(issuance).await.unwrap();
    tester.set_staking_enabled(false).await;
    tester.init().await.unwrap();
    tester.wait_till_block_id(1).await.unwrap();

    let issued: u128 = {
        let blockchain = tester.consensus_thread.blockchain_lock.read().await;
        audit_supply(&blockchain, genesis_period)
    };
    assert_eq!(
        issued,
        175_000u128 * NOLAN_PER_SAITO as u128,
        "setup: the genesis block issues 175000 SAITO"
    );

    // control 1: a Normal transaction paying the same fee keeps the supply
    let tx = tester
        .create_transaction(10_000, FEE, public_key)
        .await
        .unwrap();
    tester.add_transaction(tx).await;
    tester.wait_till_block_id(2).await.unwrap();
    {
        let blockchain = tester.consensus_thread.blockchain_lock.read().await;
        assert_eq!(
            audit_supply(&blockchain, genesis_period),
            issued,
            "control: a Normal transaction with a {} nolan fee conserves the supply",
            FEE
        );
        assert_eq!(blockchain.get_latest_block().unwrap().total_fees, FEE);
    }

    // builds an NFT-creating (Bound) transaction out of one unspent wallet slip; `fee` is taken off
    // the change output
    async fn audit_nft_tx(
        tester: &NodeTester,
        fee: u64,
        deposit: u64,
        genesis_period: u64,
    ) -> crate::core::consensus::transaction::Transaction {
        let latest_block_id = tester.get_latest_block_id().await;
        let mut wallet = tester.consensus_thread.wallet_lock.write().await;
        let public_key = wallet.public_key;
        let private_key = wallet.private_key;
        let slip = wallet
            .slips
            .values()
            .find(|s| {
                !s.spent
                    && s.lc
                    && s.slip_type != SlipType::Bound
                    && s.amount > 1_000_000
                    && wallet.unspent_slips.contains(&s.utxokey)
            })
            .expect("an unspent wallet slip")
            .clone();
        let mut tx = wallet
            .create_bound_transaction(
                slip.amount,
                slip.block_id,
                slip.tx_ordinal,
                slip.slip_index as u64,
                deposit,
                vec![],
                &public_key,
                None,
                latest_block_id,
                genesis_period,
                "audit".to_string(),
            )
            .await
            .expect("the wallet builds the NFT transaction");
        assert_eq!(tx.transaction_type, TransactionType::Bound);
        assert_eq!(tx.from.len(), 1);
        assert_eq!(tx.to.len(), 4, "bound, payload, bound, change");
        assert_eq!(tx.to[3].amount, slip.amount - deposit);
        tx.to[3].amount -= fee;
        tx.sign(&private_key);
        tx.generate(&public_key, 0, 0);
        assert_eq!(tx.total_fees, fee);
        tx
    }

    // control 2: the NFT transaction the wallet builds (no fee) keeps the supply
    let honest_nft = audit_nft_tx(&tester, 0, DEPOSIT, genesis_period).await;
    tester.add_transaction(honest_nft.clone()).await;
    tester.wait_till_block_id(3).await.unwrap();
    {
        let blockchain = tester.consensus_thread.blockchain_lock.read().await;
        let block = blockchain.get_latest_block().unwrap();
        if !(block
                .transactions
                .iter()
                .any(|t| t.signature == honest_nft.signature)) { witness(format!("setup: block 3 carries the fee-less NFT transaction")); }
        assert_eq!(
            audit_supply(&blockchain, genesis_period),
            issued,
            "control: an NFT transaction without a fee conserves the supply"
        );
    }

    // the same transaction paying a fee of 5000 nolan
    let paying_nft = audit_nft_tx(&tester, FEE, DEPOSIT, genesis_period).await;
    tester.add_transaction(paying_nft.clone()).await;
    // (the node's own wrapping check aborts the process once the block has been wound in)
    let outcome = std::panic::AssertUnwindSafe(tester.wait_till_block_id(4))
        .catch_unwind()
        .await;
    let node_aborted = outcome.is_err();

    let blockchain = tester.consensus_thread.blockchain_lock.read().await;
    let block = blockchain
        .blocks
        .values()
        .find(|b| {
            b.transactions
                .iter()
                .any(|t| t.signature == paying_nft.signature)
        })
        .expect("setup: a block carrying the fee-paying NFT transaction was produced");
    assert_eq!(block.id, 4);
    let payload = block
        .transactions
        .iter()
        .find(|t| t.signature == paying_nft.signature)
        .unwrap()
        .to[1]
        .clone();
    assert_eq!(
        blockchain.utxoset.get(&payload.utxoset_key),
        Some(&true),
        "setup: block 4 passed Block::validate and was wound into the ledger (its outputs are spendable)"
    );
    assert_eq!(blockchain.get_latest_block_id(), 4);

    let after = audit_supply(&blockchain, genesis_period);
    assert_eq!(
        after,
        issued,
        "block 4 carries a Bound (NFT) transaction that consumes {} nolan more than it pays out; the block validated and was wound in, but the {} nolan are counted nowhere (block.total_fees = {}, total_fees_new = {}): spendable outputs + treasury + graveyard + unpaid + tip fees = {} instead of the {} issued, {} nolan are lost (node aborted in check_total_supply: {})",
        FEE,
        FEE,
        block.total_fees,
        block.total_fees_new,
        after,
        issued,
        issued - after,
        node_aborted
    );
}

/// C11: a peer's block dated ahead of the node's clock, accepted as tip, does not stop the consensus thread on its next timer tick
/// (the bundler declines instead of asserting) — scenario of an independent audit
#[tokio::test]
#[serial_test::serial]
async fn tip_dated_ahead_of_the_clock_does_not_stop_the_consensus_thread() {
    #[allow(unused_imports)] use crate::core::consensus_thread::ConsensusEvent;
    #[allow(unused_imports)] use crate::core::process::process_event::ProcessEvent;
    #[allow(unused_imports)] use crate::core::util::crypto::generate_keys;
    #[allow(unused_imports)] use crate::core::util::test::node_tester::test::NodeTester;
    #[allow(unused_imports)] use crate::core::defs::NOLAN_PER_SAITO;
    #[allow(unused_imports)] use crate::core::defs::PrintForLog;
    #[allow(unused_imports)] use crate::core::consensus::block::Block;
    #[allow(unused_imports)] use crate::core::util::crypto::hash;
    #[allow(unused_imports)] use crate::core::consensus::mempool::Mempool;
    use crate::core::consensus::block::BlockType;
    use crate::core::consensus::transaction::Transaction;
    use crate::core::consensus_thread::BLOCK_PRODUCING_TIMER;
    use crate::core::defs::{SaitoSignature, Timestamp};
    use ahash::AHashMap;
    use futures::FutureExt;
    use std::ops::Deref;
    use std::panic::AssertUnwindSafe;
    use std::time::Duration;

    NodeTester::delete_data().await.unwrap();
    let mut tester = NodeTester::default();
    let public_key = tester.get_public_key().await;
    tester
        .set_issuance(vec![(public_key.to_base58(), 100_000 * NOLAN_PER_SAITO)])
        .await
        .unwrap();
    tester.set_staking_enabled(false).await;
    tester.init().await.unwrap();
    tester.wait_till_block_id(1).await.unwrap();
    let tx = tester
        .create_transaction(10_000, 1000, public_key)
        .await
        .unwrap();
    tester.add_transaction(tx).await;
    tester.wait_till_block_id(2).await.unwrap();

    // control: with only honest blocks in the chain the block producing timer handler returns normally
    let control = AssertUnwindSafe(
        tester
            .consensus_thread
            .process_timer_event(Duration::from_millis(BLOCK_PRODUCING_TIMER)),
    )
    .catch_unwind()
    .await;
    assert!(
        control.is_ok(),
        "setup: the timer handler must not panic on the honest chain"
    );

    // a remote block producer (its own key pair) builds block 3 on our tip. everything in the block is
    // what an honest producer would write, except the timestamp, which it is free to choose: 10 years
    // ahead of this node's clock
    let (attacker_public_key, attacker_private_key) = generate_keys();
    const TEN_YEARS_IN_MS: Timestamp = 10 * 365 * 24 * 3600 * 1000;
    let node_time_now = tester.consensus_thread.timer.get_timestamp_in_ms();
    let hostile_timestamp = node_time_now + TEN_YEARS_IN_MS;
    let carried_tx = tester
        .create_transaction(10_000, 1000, public_key)
        .await
        .unwrap();
    let mut hostile_block;
    {
        let configs = tester.consensus_thread.config_lock.read().await;
        let blockchain = tester.consensus_thread.blockchain_lock.read().await;
        let mut txs: AHashMap<SaitoSignature, Transaction> = Default::default();
        txs.insert(carried_tx.signature, carried_tx);
        hostile_block = Block::create(
            &mut txs,
            blockchain.get_latest_block_hash(),
            &blockchain,
            hostile_timestamp,
            &attacker_public_key,
            &attacker_private_key,
            None,
            configs.deref(),
            &tester.consensus_thread.storage,
        )
        .await
        .unwrap();
    }
    hostile_block.generate().unwrap();
    // it travels as bytes, like any fetched block
    let mut hostile_block =
        Block::deserialize_from_net(&hostile_block.serialize_for_net(BlockType::Full)).unwrap();
    hostile_block.generate().unwrap();
    let hostile_hash = hostile_block.hash;
    assert_eq!(hostile_block.id, 3);
    assert_eq!(hostile_block.timestamp, hostile_timestamp);

    let delivered = AssertUnwindSafe(tester.consensus_thread.process_event(
        ConsensusEvent::BlockFetched {
            block: hostile_block,
            peer_index: 1,
        },
    ))
    .catch_unwind()
    .await;
    assert!(
        delivered.is_ok(),
        "setup: handling the fetched block itself must not panic"
    );
    {
        let blockchain = tester.consensus_thread.blockchain_lock.read().await;
        assert_eq!(
            blockchain.get_latest_block_hash(),
            hostile_hash,
            "setup: the block dated 10 years ahead was accepted as the tip of the longest chain"
        );
        assert!(blockchain.get_latest_block().unwrap().timestamp > node_time_now);
    }

    // the next tick of the node's own block producing timer
    let result = AssertUnwindSafe(
        tester
            .consensus_thread
            .process_timer_event(Duration::from_millis(BLOCK_PRODUCING_TIMER)),
    )
    .catch_unwind()
    .await;
    if !(result.is_ok()) { witness(format!("ConsensusThread::process_timer_event panicked (Mempool::bundle_block asserts current_timestamp > previous_block_timestamp) after a peer's block 3 dated {} ms ahead of the node's clock was accepted as chain tip: one peer-supplied block kills the consensus thread on its next timer tick, instead of the block being rejected", TEN_YEARS_IN_MS)); }
}

/// C11: a decodable fetched buffer whose transactions name inputs of u64::MAX does not stop the verification thread
/// (Block::generate sums saturate) — scenario of an independent audit
#[tokio::test]
#[serial_test::serial]
async fn fetched_block_with_overflowing_fee_sums_does_not_stop_the_verification_thread() {
    #[allow(unused_imports)] use crate::core::util::crypto::generate_keys;
    #[allow(unused_imports)] use crate::core::util::test::node_tester::test::NodeTester;
    use crate::core::consensus::block::{Block, BlockType};
    use crate::core::consensus::slip::Slip;
    use crate::core::consensus::transaction::Transaction;
    use crate::core::defs::Currency;
    use crate::core::io::network_event::NetworkEvent;
    use crate::core::process::process_event::ProcessEvent;
    use crate::core::verification_thread::VerifyRequest;
    use futures::FutureExt;
    use std::panic::AssertUnwindSafe;

    let mut tester = NodeTester::default();
    // peer 1 is connected (it does not even need to finish the handshake to have a block fetched from it
    // counted against it)
    tester
        .routing_thread
        .process_network_event(NetworkEvent::PeerConnectionResult {
            result: Ok((1, None)),
        })
        .await;

    let (attacker_public_key, _attacker_private_key) = generate_keys();
    // a block buffer with two transactions, each naming one input of the given amount and no output:
    // nothing has to exist or be signed, the numbers are only summed at this stage
    let build_buffer = |amount_1: Currency, amount_2: Currency| -> Vec<u8> {
        let mut block = Block::new();
        block.id = 5;
        block.previous_block_hash = [9; 32];
        block.timestamp = 1_700_000_000_000;
        block.creator = attacker_public_key;
        for amount in [amount_1, amount_2] {
            let mut tx = Transaction::default();
            let mut input = Slip::default();
            input.public_key = attacker_public_key;
            input.amount = amount;
            input.block_id = 1;
            input.tx_ordinal = amount % 7;
            tx.from.push(input);
            block.transactions.push(tx);
        }
        block.serialize_for_net(BlockType::Full)
    };

    // control: small amounts. the buffer goes through the verification thread's handler normally
    let control_buffer = build_buffer(1, 2);
    assert!(Block::deserialize_from_net(&control_buffer).is_ok());
    let control = AssertUnwindSafe(tester.verification_thread.process_event(
        VerifyRequest::Block(control_buffer, 1, [1; 32], 5),
    ))
    .catch_unwind()
    .await;
    assert!(
        control.is_ok(),
        "setup: a fetched block buffer with small amounts must be handled normally"
    );

    // hostile: the same buffer, the two inputs claim u64::MAX nolan each
    let hostile_buffer = build_buffer(Currency::MAX, Currency::MAX);
    let decoded = Block::deserialize_from_net(&hostile_buffer);
    assert!(
        decoded.is_ok(),
        "setup: the hostile buffer is a decodable block"
    );
    assert_eq!(decoded.unwrap().transactions.len(), 2);
    let result = AssertUnwindSafe(tester.verification_thread.process_event(
        VerifyRequest::Block(hostile_buffer, 1, [1; 32], 5),
    ))
    .catch_unwind()
    .await;
    if !(result.is_ok()) { witness(format!("VerificationThread::process_event panicked on a fetched block buffer from peer 1 whose two transactions each name an input of 18446744073709551615 nolan: Block::generate adds the per-transaction fees with an unchecked `cumulative_fees + total_fees` (overflow) before any validation, so one decodable buffer kills a verification thread instead of counting as an invalid block for the peer")); }
}

/// C11: a GhostChainRequest naming block id u64::MAX is answered, not overflowed on — scenario of an independent audit
#[tokio::test]
#[serial_test::serial]
async fn ghost_chain_request_for_block_id_max_does_not_stop_the_routing_thread() {
    #[allow(unused_imports)] use crate::core::util::crypto::generate_keys;
    #[allow(unused_imports)] use crate::core::util::test::node_tester::test::NodeTester;
    #[allow(unused_imports)] use crate::core::defs::NOLAN_PER_SAITO;
    use crate::core::defs::PrintForLog;
    use crate::core::io::network_event::NetworkEvent;
    use crate::core::consensus::peers::peer::PeerStatus;
    use crate::core::msg::message::Message;
    use crate::core::process::process_event::ProcessEvent;
    use futures::FutureExt;
    use std::panic::AssertUnwindSafe;

    NodeTester::delete_data().await.unwrap();
    let mut tester = NodeTester::default();
    let public_key = tester.get_public_key().await;
    tester
        .set_issuance(vec![(public_key.to_base58(), 100_000 * NOLAN_PER_SAITO)])
        .await
        .unwrap();
    tester.set_staking_enabled(false).await;
    tester.init().await.unwrap();
    tester.wait_till_block_id(1).await.unwrap();
    let tx = tester
        .create_transaction(10_000, 1000, public_key)
        .await
        .unwrap();
    tester.add_transaction(tx).await;
    tester.wait_till_block_id(2).await.unwrap();

    // peer 1 connects and authenticates under its own key (the state Network::handle_handshake_response
    // leaves behind is written directly: the test io handler cannot run a handshake)
    tester
        .routing_thread
        .process_network_event(NetworkEvent::PeerConnectionResult {
            result: Ok((1, None)),
        })
        .await;
    let (peer_public_key, _peer_private_key) = generate_keys();
    {
        let mut peers = tester.routing_thread.network.peer_lock.write().await;
        let peer = peers.find_peer_by_index_mut(1).unwrap();
        peer.public_key = Some(peer_public_key);
        peer.peer_status = PeerStatus::Connected;
        peer.challenge_for_peer = None;
        peers.address_to_peers.insert(peer_public_key, 1);
    }

    // control: an ordinary ghost chain request (the peer is at block 1) is answered
    let block_1_hash = {
        let blockchain = tester.routing_thread.blockchain_lock.read().await;
        blockchain
            .blockring
            .get_longest_chain_block_hash_at_block_id(1)
            .unwrap()
    };
    let control = AssertUnwindSafe(tester.routing_thread.process_network_event(
        NetworkEvent::IncomingNetworkMessage {
            peer_index: 1,
            buffer: Message::GhostChainRequest(1, block_1_hash, [0; 32]).serialize(),
        },
    ))
    .catch_unwind()
    .await;
    assert!(
        control.is_ok(),
        "setup: an ordinary ghost chain request must be handled normally"
    );

    // the hostile request: 72 well-formed bytes, the peer claims to be at block u64::MAX on a fork
    // this node does not know
    let fork_id = [0x5a; 32];
    {
        let blockchain = tester.routing_thread.blockchain_lock.read().await;
        assert_eq!(
            blockchain.generate_last_shared_ancestor(u64::MAX, fork_id),
            0,
            "setup: no shared ancestor is found for the claimed fork"
        );
    }
    let result = AssertUnwindSafe(tester.routing_thread.process_network_event(
        NetworkEvent::IncomingNetworkMessage {
            peer_index: 1,
            buffer: Message::GhostChainRequest(u64::MAX, [0; 32], fork_id).serialize(),
        },
    ))
    .catch_unwind()
    .await;
    if !(result.is_ok()) { witness(format!("RoutingThread::process_network_event panicked on a GhostChainRequest with block_id = u64::MAX from authenticated peer 1: generate_ghost_chain falls back to last_shared_ancestor = 18446744073709551615 and computes last_shared_ancestor + 1 (overflow), so a single 73 byte message kills the routing thread instead of being answered with an empty ghost chain")); }
}

/// C11: the 101st key-list update within a minute from a peer that never completed the handshake is refused by the rate limiter,
/// with debug logging on as well — scenario of an independent audit
#[tokio::test]
#[serial_test::serial]
async fn key_list_flood_from_an_unauthenticated_peer_is_refused_without_a_panic() {
    #[allow(unused_imports)] use crate::core::util::crypto::generate_keys;
    #[allow(unused_imports)] use crate::core::util::test::node_tester::test::NodeTester;
    use crate::core::io::network_event::NetworkEvent;
    use crate::core::msg::message::Message;
    use crate::core::process::keep_time::Timer;
    use crate::core::process::process_event::ProcessEvent;
    use crate::core::util::test::node_tester::test::TestTimeKeeper;
    use crate::core::process::keep_time::KeepTime;
    use futures::FutureExt;
    use std::panic::AssertUnwindSafe;
    use std::sync::Arc;

    // (a clock that is not hastened, so that the 60 second window of the key list limiter is 60 seconds)
    let timer = Timer {
        time_reader: Arc::new(TestTimeKeeper {}),
        hasten_multiplier: 1,
        start_time: TestTimeKeeper {}.get_timestamp_in_ms(),
    };
    let mut tester = NodeTester::new(100, None, Some(timer));
    // peer 1 connects and never answers the handshake: it has no public key
    tester
        .routing_thread
        .process_network_event(NetworkEvent::PeerConnectionResult {
            result: Ok((1, None)),
        })
        .await;
    {
        let peers = tester.routing_thread.network.peer_lock.read().await;
        assert!(peers.find_peer_by_index(1).unwrap().public_key.is_none());
    }
    let (some_key, _) = generate_keys();
    let buffer = Message::KeyListUpdate(vec![some_key]).serialize();

    // the first 100 key list updates are within the limit of the 60 second window and are handled normally
    for _ in 0..100 {
        tester
            .routing_thread
            .process_network_event(NetworkEvent::IncomingNetworkMessage {
                peer_index: 1,
                buffer: buffer.clone(),
            })
            .await;
    }
    {
        let peers = tester.routing_thread.network.peer_lock.read().await;
        assert_eq!(
            peers.find_peer_by_index(1).unwrap().key_list,
            vec![some_key],
            "setup: key list updates of the unauthenticated peer are being processed"
        );
    }

    // the node runs with debug logging (RUST_LOG=debug): the arguments of debug!() are evaluated
    let previous_level = log::max_level();
    log::set_max_level(log::LevelFilter::Debug);
    let result = AssertUnwindSafe(tester.routing_thread.process_network_event(
        NetworkEvent::IncomingNetworkMessage {
            peer_index: 1,
            buffer: buffer.clone(),
        },
    ))
    .catch_unwind()
    .await;
    log::set_max_level(previous_level);
    if !(result.is_ok()) { witness(format!("RoutingThread::process_network_event panicked on the 101st KeyListUpdate within a minute from peer 1, which never completed the handshake: the rate-limit branch of Network::handle_received_key_list formats peer.public_key.unwrap() (None for an unauthenticated peer), so with debug logging on the rate limiter itself kills the routing thread instead of refusing the message")); }
}

/// C11/C16: garbage bytes one peer returns for a block do not erase the entry an honest peer has queued for it (rejected input
/// leaves honest peers' state alone; the block the node lacks is still requested) — scenario of an independent audit
#[tokio::test]
#[serial_test::serial]
async fn garbage_returned_for_a_block_leaves_the_honest_peers_entry_queued() {
    #[allow(unused_imports)] use crate::core::util::crypto::generate_keys;
    #[allow(unused_imports)] use crate::core::util::test::node_tester::test::NodeTester;
    #[allow(unused_imports)] use crate::core::consensus::block::Block;
    use crate::core::consensus::peers::peer::PeerStatus;
    use crate::core::consensus::peers::peer_service::PeerService;
    use crate::core::consensus::wallet::Wallet;
    use crate::core::defs::{BlockId, PeerIndex, SaitoHash};
    use crate::core::io::interface_io::{InterfaceEvent, InterfaceIO};
    use crate::core::io::network_event::NetworkEvent;
    use crate::core::msg::message::Message;
    use crate::core::process::process_event::ProcessEvent;
    use crate::core::routing_thread::RoutingEvent;
    use crate::core::verification_thread::VerifyRequest;
    use async_trait::async_trait;
    use std::io::Error;
    use std::sync::{Arc, Mutex};

    // the network side of the node: block fetches are recorded instead of being sent out
    #[derive(Debug)]
    struct AuditIo {
        fetches: Arc<Mutex<Vec<(PeerIndex, SaitoHash)>>>,
    }
    #[async_trait]
    impl InterfaceIO for AuditIo {
        async fn send_message(&self, _peer_index: u64, _buffer: &[u8]) -> Result<(), Error> {
            Ok(())
        }
        async fn send_message_to_all(
            &self,
            _buffer: &[u8],
            _excluded_peers: Vec<u64>,
        ) -> Result<(), Error> {
            Ok(())
        }
        async fn connect_to_peer(
            &mut self,
            _url: String,
            _peer_index: PeerIndex,
        ) -> Result<(), Error> {
            Ok(())
        }
        async fn disconnect_from_peer(&self, _peer_index: u64) -> Result<(), Error> {
            Ok(())
        }
        async fn fetch_block_from_peer(
            &self,
            block_hash: SaitoHash,
            peer_index: u64,
            _url: &str,
            _block_id: BlockId,
        ) -> Result<(), Error> {
            self.fetches.lock().unwrap().push((peer_index, block_hash));
            Ok(())
        }
        async fn write_value(&self, _key: &str, _value: &[u8]) -> Result<(), Error> {
            Ok(())
        }
        async fn append_value(&mut self, _key: &str, _value: &[u8]) -> Result<(), Error> {
            Ok(())
        }
        async fn flush_data(&mut self, _key: &str) -> Result<(), Error> {
            Ok(())
        }
        async fn read_value(&self, _key: &str) -> Result<Vec<u8>, Error> {
            Ok(vec![])
        }
        async fn load_block_file_list(&self) -> Result<Vec<String>, Error> {
            Ok(vec![])
        }
        async fn is_existing_file(&self, _key: &str) -> bool {
            false
        }
        async fn remove_value(&self, _key: &str) -> Result<(), Error> {
            Ok(())
        }
        fn get_block_dir(&self) -> String {
            "./data/test/blocks/".to_string()
        }
        fn get_checkpoint_dir(&self) -> String {
            "./data/test/checkpoints/".to_string()
        }
        fn ensure_block_directory_exists(&self, _block_dir: &str) -> Result<(), Error> {
            Ok(())
        }
        async fn process_api_call(&self, _b: Vec<u8>, _m: u32, _p: PeerIndex) {}
        async fn process_api_success(&self, _b: Vec<u8>, _m: u32, _p: PeerIndex) {}
        async fn process_api_error(&self, _b: Vec<u8>, _m: u32, _p: PeerIndex) {}
        fn send_interface_event(&self, _event: InterfaceEvent) {}
        async fn save_wallet(&self, _wallet: &mut Wallet) -> Result<(), Error> {
            Ok(())
        }
        async fn load_wallet(&self, _wallet: &mut Wallet) -> Result<(), Error> {
            Ok(())
        }
        fn get_my_services(&self) -> Vec<PeerService> {
            vec![]
        }
    }

    const HONEST: PeerIndex = 1;
    const HOSTILE: PeerIndex = 2;
    let hash_of = |id: u64| -> SaitoHash { [id as u8; 32] };

    // honest peer 1 announces blocks 1..=11 (10 fetches per peer run at a time, so block 11 waits in the
    // queue of peer 1). with `hostile_delivery`, peer 2 announces block 11 too and answers the fetch with
    // 10 bytes of garbage. then block 1 arrives from peer 1 and is added, which frees a fetch slot of peer 1.
    // returns whether block 11 was ever requested from honest peer 1
    async fn run(hostile_delivery: bool, hash_of: &dyn Fn(u64) -> SaitoHash) -> bool {
        let fetches: Arc<Mutex<Vec<(PeerIndex, SaitoHash)>>> = Default::default();
        let mut tester = NodeTester::default();
        tester.routing_thread.network.io_interface = Box::new(AuditIo {
            fetches: fetches.clone(),
        });
        for peer_index in [HONEST, HOSTILE] {
            tester
                .routing_thread
                .process_network_event(NetworkEvent::PeerConnectionResult {
                    result: Ok((peer_index, None)),
                })
                .await;
            // (the state a completed handshake leaves behind)
            let mut peers = tester.routing_thread.network.peer_lock.write().await;
            let peer = peers.find_peer_by_index_mut(peer_index).unwrap();
            peer.public_key = Some(generate_keys().0);
            peer.peer_status = PeerStatus::Connected;
            peer.challenge_for_peer = None;
            peer.block_fetch_url = format!("http://peer{}", peer_index);
        }
        for id in 1..=11u64 {
            tester
                .routing_thread
                .process_network_event(NetworkEvent::IncomingNetworkMessage {
                    peer_index: HONEST,
                    buffer: Message::BlockHeaderHash(hash_of(id), id).serialize(),
                })
                .await;
        }
        assert_eq!(
            fetches.lock().unwrap().len(),
            10,
            "setup: 10 fetches are running against peer 1"
        );
        assert!(
            !fetches.lock().unwrap().contains(&(HONEST, hash_of(11))),
            "setup: block 11 is queued behind them"
        );
        assert_eq!(
            tester
                .routing_thread
                .blockchain_sync_state
                .get_fetching_block_count(),
            11
        );

        if hostile_delivery {
            tester
                .routing_thread
                .process_network_event(NetworkEvent::IncomingNetworkMessage {
                    peer_index: HOSTILE,
                    buffer: Message::BlockHeaderHash(hash_of(11), 11).serialize(),
                })
                .await;
            assert!(
                fetches.lock().unwrap().contains(&(HOSTILE, hash_of(11))),
                "setup: block 11 is being fetched from peer 2"
            );
            let garbage = vec![0xab; 10];
            tester
                .routing_thread
                .process_network_event(NetworkEvent::BlockFetched {
                    block_hash: hash_of(11),
                    block_id: 11,
                    peer_index: HOSTILE,
                    buffer: garbage.clone(),
                })
                .await;
            // the verification thread refuses the buffer: nothing reaches the blockchain
            tester
                .verification_thread
                .process_event(VerifyRequest::Block(garbage, HOSTILE, hash_of(11), 11))
                .await;
            let blockchain = tester.routing_thread.blockchain_lock.read().await;
            assert!(
                !blockchain.blocks.contains_key(&hash_of(11)),
                "setup: the garbage was rejected"
            );
        }

        // block 1 from peer 1 arrives and is added to the chain: the consensus thread reports it, a fetch
        // slot of peer 1 is free again
        tester
            .routing_thread
            .process_event(RoutingEvent::BlockchainUpdated(hash_of(1)))
            .await;
        let requested = fetches.lock().unwrap().contains(&(HONEST, hash_of(11)));
        requested
    }

    assert!(
        run(false, &hash_of).await,
        "control: without the hostile peer, block 11 is requested from peer 1 as soon as a slot is free"
    );
    if !(run(true, &hash_of).await) { witness(format!("block 11 was never requested from honest peer 1: the 10 garbage bytes peer 2 returned for it were marked as 'fetched' in RoutingThread::process_network_event before verification, which removed block 11 from the fetch queue of every peer (11 queued entries of peer 1 became 10), so rejected input of one peer erased sync state that belongs to an honest peer")); }
}

/// C10: the issuance file decoder answers every malformed file (truncated line, blank line, short key, unknown slip type, non-UTF-8
/// byte) with a value or nothing, never a panic — scenario of an independent audit
#[tokio::test]
#[serial_test::serial]
async fn issuance_file_decoder_is_total() {
    #[allow(unused_imports)] use crate::core::util::crypto::generate_keys;
    #[allow(unused_imports)] use crate::core::util::test::test_manager::test::TestManager;
    #[allow(unused_imports)] use crate::core::defs::PrintForLog;
    use futures::FutureExt;
    use std::panic::AssertUnwindSafe;

    let t = TestManager::default();
    let key = crate::core::util::crypto::generate_keys().0.to_base58();
    let key = key.as_str();
    std::fs::create_dir_all("./data").unwrap();
    let path = "./data/audit_demo_issuance_file.txt";

    // control: a well-formed issuance file of one line decodes to one slip of 100000
    std::fs::write(path, format!("100000\t{}\tNormal\n", key)).unwrap();
    let slips = t.storage.get_token_supply_slips_from_disk_path(path).await;
    assert_eq!(slips.len(), 1, "control: the honest one-line file must decode to one slip");
    assert_eq!(slips[0].amount, 100000);

    // hostile: truncations and single-field corruptions of that same valid line
    let valid_line = format!("100000\t{}\tNormal\n", key);
    let mut cases: Vec<(&str, Vec<u8>)> = vec![];
    // cut right after the key (the type field is lost)
    cases.push((
        "line cut after the key",
        valid_line.as_bytes()[..valid_line.len() - 8].to_vec(),
    ));
    // cut right after the amount
    cases.push(("line cut after the amount", b"100000\n".to_vec()));
    // a line holding only a blank
    cases.push(("line holding one blank", b" \n".to_vec()));
    // key field shortened by one character: decodes to fewer than 33 bytes
    cases.push((
        "key one character short",
        format!("100000\t{}\tNormal\n", &key[..key.len() - 1]).into_bytes(),
    ));
    // type field corrupted
    cases.push((
        "unknown slip type",
        format!("100000\t{}\tNormaX\n", key).into_bytes(),
    ));
    // one byte of the file is not UTF-8
    let mut non_utf8 = valid_line.clone().into_bytes();
    non_utf8[0] = 0xff;
    cases.push(("first byte set to 0xff", non_utf8));

    let mut panicked: Vec<&str> = vec![];
    for (name, bytes) in cases.iter() {
        std::fs::write(path, bytes).unwrap();
        let result = AssertUnwindSafe(t.storage.get_token_supply_slips_from_disk_path(path))
            .catch_unwind()
            .await;
        if result.is_err() {
            panicked.push(name);
        }
    }
    let _ = std::fs::remove_file(path);

    if !(panicked.is_empty()) { witness(format!("the issuance file decoder (Storage::get_token_supply_slips_from_disk_path) panicked on {} of {} malformed files read from disk {:?}; a decoder fed bytes from disk must return a value or an error for every byte string, never panic", panicked.len(), cases.len(), panicked)); }
}

/// C10: a checkpoint file that is not text is no checkpoint, not a panic — scenario of an independent audit
#[tokio::test]
#[serial_test::serial]
async fn checkpoint_file_decoder_is_total() {
    #[allow(unused_imports)] use crate::core::util::test::test_manager::test::TestManager;
    #[allow(unused_imports)] use crate::core::defs::PrintForLog;
    #[allow(unused_imports)] use crate::core::defs::SaitoHash;
    use futures::FutureExt;
    use std::panic::AssertUnwindSafe;

    let t = TestManager::default();
    let block_hash: SaitoHash = [7; 32];
    let block_id = 4242;
    let dir = t.storage.io_interface.get_checkpoint_dir();
    std::fs::create_dir_all(&dir).unwrap();
    let path = format!("{}{}-{}.chk", dir, block_id, block_hash.to_hex());

    // control: a well-formed checkpoint file (one utxo key in hex per line) decodes to one key
    let key_hex = hex::encode([3u8; 59]);
    std::fs::write(&path, format!("{}\n", key_hex)).unwrap();
    let keys = t.storage.load_checkpoint_file(&block_hash, block_id).await;
    assert_eq!(
        keys.map(|k| k.len()),
        Some(1),
        "control: the honest checkpoint file must decode to one key"
    );

    // hostile: the same file with its first byte set to 0xff (no longer UTF-8)
    let mut bytes = format!("{}\n", key_hex).into_bytes();
    bytes[0] = 0xff;
    std::fs::write(&path, &bytes).unwrap();
    let result = AssertUnwindSafe(t.storage.load_checkpoint_file(&block_hash, block_id))
        .catch_unwind()
        .await;
    let _ = std::fs::remove_file(&path);

    if !(result.is_ok()) { witness(format!("the checkpoint file decoder (Storage::load_checkpoint_file) panicked on a {}-byte checkpoint file whose first byte is 0xff (String::from_utf8(..).unwrap()); a decoder fed bytes from disk must return a value or an error, never panic", bytes.len())); }
}

/// C03: the ledger is the replay of the longest chain — purging a never-validated block that was merely stored next to the chain
/// does not delete the outputs it names — scenario of an independent audit
#[tokio::test]
#[serial_test::serial]
async fn purging_a_side_block_leaves_the_ledger_alone() {
    #[allow(unused_imports)] use crate::core::util::crypto::generate_keys;
    #[allow(unused_imports)] use crate::core::util::test::node_tester::test::NodeTester;
    #[allow(unused_imports)] use crate::core::defs::NOLAN_PER_SAITO;
    #[allow(unused_imports)] use crate::core::defs::PrintForLog;
    #[allow(unused_imports)] use crate::core::consensus::block::Block;
    #[allow(unused_imports)] use crate::core::util::crypto::hash;
    #[allow(unused_imports)] use crate::core::consensus_thread::ConsensusEvent;
    #[allow(unused_imports)] use crate::core::process::process_event::ProcessEvent;
    #[allow(unused_imports)] use std::panic::AssertUnwindSafe;
    use crate::core::consensus::block::BlockType;
    use crate::core::consensus::slip::Slip;
    use crate::core::consensus::transaction::{Transaction, TransactionType};

    NodeTester::delete_data().await.unwrap();
    // genesis period 10: blocks are purged once they are 20 blocks behind the tip
    let mut tester = NodeTester::new(10, None, None);
    let public_key = tester.get_public_key().await;
    let victim_key = generate_keys().0;
    let issuance = vec![(public_key.to_base58(), 100_000 * NOLAN_PER_SAITO)];
    tester.set_issuance(issuance).await.unwrap();
    tester.set_staking_enabled(false).await;
    tester.init().await.unwrap();
    tester.wait_till_block_id(1).await.unwrap();

    // honest chain 1..22, block 22 pays 5000 nolan to the victim
    for i in 2..=22u64 {
        let tx = if i == 22 {
            tester.create_transaction(5000, 10, victim_key).await.unwrap()
        } else {
            tester.create_transaction(10, 10, public_key).await.unwrap()
        };
        tester.add_transaction(tx).await;
        tester.wait_till_block_id(i).await.unwrap();
    }

    // the victim's output of block 22 and the parent (block 3) the hostile block hangs on
    let victim_slip: Slip;
    let parent_hash;
    let parent_timestamp;
    {
        let blockchain = tester.consensus_thread.blockchain_lock.read().await;
        assert_eq!(blockchain.get_latest_block_id(), 22);
        let block22 = blockchain.get_latest_block().unwrap();
        assert!(block22.in_longest_chain);
        victim_slip = block22
            .transactions
            .iter()
            .flat_map(|tx| tx.to.iter())
            .find(|slip| slip.public_key == victim_key && slip.amount == 5000)
            .expect("block 22 pays the victim")
            .clone();
        assert_eq!(victim_slip.block_id, 22);
        assert_eq!(
            blockchain.utxoset.get(&victim_slip.get_utxoset_key()),
            Some(&true),
            "setup: the victim's output is spendable after block 22"
        );
        parent_hash = blockchain
            .blockring
            .get_longest_chain_block_hash_at_block_id(3)
            .expect("block 3 is still held");
        parent_timestamp = blockchain.get_block(&parent_hash).unwrap().timestamp;
    }

    // the hostile block: id 4, child of block 3, unsigned, one unsigned "transaction" whose input
    // names the victim's output. it is a sibling of the chain's block 4 and never becomes the tip,
    // so nothing in it is ever validated
    let mut input = Slip::default();
    input.public_key = victim_slip.public_key;
    input.amount = victim_slip.amount;
    input.block_id = victim_slip.block_id;
    input.tx_ordinal = victim_slip.tx_ordinal;
    input.slip_index = victim_slip.slip_index;
    input.slip_type = victim_slip.slip_type;
    let mut hostile_tx = Transaction::default();
    hostile_tx.transaction_type = TransactionType::Normal;
    hostile_tx.from.push(input);
    let mut hostile = Block::new();
    hostile.id = 4;
    hostile.previous_block_hash = parent_hash;
    hostile.timestamp = parent_timestamp + 1;
    hostile.creator = generate_keys().0;
    hostile.transactions.push(hostile_tx);
    hostile.generate().unwrap();
    // what a peer would send
    let hostile = Block::deserialize_from_net(&hostile.serialize_for_net(BlockType::Full))
        .expect("the hostile block is a decodable buffer");
    let mut hostile_for_hash = hostile.clone();
    hostile_for_hash.generate().unwrap();
    let hostile_hash = hostile_for_hash.hash;

    tester
        .consensus_thread
        .process_event(ConsensusEvent::BlockFetched {
            block: hostile,
            peer_index: 0,
        })
        .await;
    {
        let blockchain = tester.consensus_thread.blockchain_lock.read().await;
        let stored = blockchain
            .get_block(&hostile_hash)
            .expect("the hostile block was stored as a side block");
        assert!(!stored.in_longest_chain);
        assert_eq!(blockchain.get_latest_block_id(), 22);
        assert_eq!(
            blockchain.utxoset.get(&victim_slip.get_utxoset_key()),
            Some(&true),
            "control: storing the side block leaves the ledger alone"
        );
    }

    // two more honest blocks; block 24 purges height 4. (the node's own supply check panics once the
    // output is gone, so the step is run under catch_unwind and the ledger is inspected afterwards)
    let blockchain_lock = tester.consensus_thread.blockchain_lock.clone();
    let mut node_aborted = false;
    for i in 23..=24u64 {
        let step = std::panic::AssertUnwindSafe(async {
            let tx = tester.create_transaction(10, 10, public_key).await.unwrap();
            tester.add_transaction(tx).await;
            tester.wait_till_block_id(i).await.unwrap();
        });
        if futures::FutureExt::catch_unwind(step).await.is_err() {
            node_aborted = true;
        }
        let blockchain = blockchain_lock.read().await;
        // no block of the chain spends the victim's output
        let block = blockchain.get_latest_block().unwrap();
        assert_eq!(block.id, i, "setup: the chain has reached block {}", i);
        assert!(block.in_longest_chain);
        assert!(
            !block
                .transactions
                .iter()
                .flat_map(|tx| tx.from.iter())
                .any(|slip| slip.get_utxoset_key() == victim_slip.get_utxoset_key()),
            "setup: block {} of the chain does not spend the victim's output",
            i
        );
        if i == 23 {
            assert!(!node_aborted);
            assert_eq!(
                blockchain.utxoset.get(&victim_slip.get_utxoset_key()),
                Some(&true),
                "control: still spendable at tip 23 (height 4 not purged yet)"
            );
        }
    }

    let blockchain = blockchain_lock.read().await;
    assert_eq!(blockchain.get_latest_block_id(), 24);
    assert!(
        blockchain.get_block(&hostile_hash).is_none(),
        "setup: the side block of height 4 has been purged at tip 24"
    );
    if !(blockchain.utxoset.contains_key(&victim_slip.get_utxoset_key())) { witness(format!("the 5000 nolan output of block 22 (tx {} slip {}) is gone from the utxoset at tip 24 although no block of the chain spends it: purging the never-validated, unsigned side block of height 4 deleted the output its transaction merely names as an input, so the ledger is no longer the replay of the longest chain (node aborted by its own supply check: {})", victim_slip.tx_ordinal, victim_slip.slip_index, node_aborted)); }
}

/// C11/C14: one golden ticket transaction from a peer whose solution does not meet the tip's difficulty does not stall block
/// production (the bundler drops it; the node's own tickets are pooled again) — scenario of an independent audit
#[tokio::test]
#[serial_test::serial]
async fn unsolved_golden_ticket_from_a_peer_does_not_stop_block_production() {
    #[allow(unused_imports)] use crate::core::util::test::node_tester::test::TestTimeKeeper;
    #[allow(unused_imports)] use crate::core::process::keep_time::KeepTime;
    #[allow(unused_imports)] use crate::core::util::crypto::generate_keys;
    #[allow(unused_imports)] use crate::core::util::test::node_tester::test::NodeTester;
    #[allow(unused_imports)] use crate::core::defs::NOLAN_PER_SAITO;
    #[allow(unused_imports)] use crate::core::defs::PrintForLog;
    #[allow(unused_imports)] use crate::core::consensus::transaction::Transaction;
    #[allow(unused_imports)] use crate::core::defs::SaitoHash;
    #[allow(unused_imports)] use crate::core::process::process_event::ProcessEvent;
    use crate::core::consensus::golden_ticket::GoldenTicket;
    use crate::core::consensus::wallet::Wallet;
    use crate::core::defs::SaitoPublicKey;
    use crate::core::io::network_event::NetworkEvent;
    use crate::core::msg::message::Message;
    use crate::core::util::crypto::{generate_random_bytes, hash};

    // One round: honest blocks until the tip asks for a difficulty of at least 2; then one more
    // block while this node's miner is silent (so that the peer's ticket for it is the first to
    // arrive: on a live network mining takes a while, a peer that sends right after the block
    // always wins that race); then the peer relays a golden ticket transaction for that tip whose
    // solution is valid / not valid; then the node's miner is switched on again, an honest
    // user sends a fee-paying transaction and the node runs for up to 5 s of wall clock, which
    // are 50_000 s of node time (the tester's clock runs 10_000 times faster).
    // returns (tip id, tip difficulty, latest block id afterwards, tickets the node's own miner
    // found for the tip, whether the peer's ticket is still the one pooled for the tip)
    async fn round(
        tester: &mut NodeTester,
        peer_index: u64,
        atk_public_key: SaitoPublicKey,
        atk_private_key: [u8; 32],
        valid_solution: bool,
    ) -> (u64, u64, u64, u64, bool) {
        let public_key = tester.get_public_key().await;
        let time_keeper = TestTimeKeeper {};
        let mut tip_id = tester.get_latest_block_id().await;
        loop {
            let tx = tester
                .create_transaction(10_000, 1_000, public_key)
                .await
                .unwrap();
            tester.add_transaction(tx).await;
            tester.wait_till_block_id(tip_id + 1).await.unwrap();
            tip_id = tester.get_latest_block_id().await;
            let difficulty = tester
                .consensus_thread
                .blockchain_lock
                .read()
                .await
                .get_latest_block()
                .unwrap()
                .difficulty;
            if difficulty >= 2 {
                break;
            }
            assert!(tip_id < 60, "setup: difficulty never reached 2");
        }

        tester.mining_thread.enabled = false;
        let tx = tester
            .create_transaction(10_000, 1_000, public_key)
            .await
            .unwrap();
        tester.add_transaction(tx).await;
        tester.wait_till_block_id(tip_id + 1).await.unwrap();
        let (tip_id, tip_hash, tip_difficulty) = {
            let blockchain = tester.consensus_thread.blockchain_lock.read().await;
            let block = blockchain.get_latest_block().unwrap();
            (block.id, block.hash, block.difficulty)
        };
        assert!(tip_difficulty >= 1, "setup: the tip asks for mining work");
        assert!(
            !tester
                .consensus_thread
                .mempool_lock
                .read()
                .await
                .golden_tickets
                .contains_key(&tip_hash),
            "setup: no ticket for the tip is pooled yet"
        );

        // the peer's golden ticket transaction for the tip
        let mut ticket;
        loop {
            let random: SaitoHash = hash(&generate_random_bytes(32).await);
            ticket = GoldenTicket::create(tip_hash, random, atk_public_key);
            if ticket.validate(tip_difficulty) == valid_solution {
                break;
            }
        }
        let ticket_tx =
            Wallet::create_golden_ticket_transaction(ticket, &atk_public_key, &atk_private_key)
                .await;
        tester
            .routing_thread
            .process_network_event(NetworkEvent::IncomingNetworkMessage {
                peer_index,
                buffer: Message::Transaction(ticket_tx).serialize(),
            })
            .await;
        tester
            .run_until(time_keeper.get_timestamp_in_ms() + 300)
            .await
            .unwrap();
        {
            let mempool = tester.consensus_thread.mempool_lock.read().await;
            let pooled = mempool.golden_tickets.get(&tip_hash);
            // (on the repaired tree the bundler may already have dropped a ticket that does not solve the tip)
            let _ = pooled;
        }
        assert_eq!(tester.get_latest_block_id().await, tip_id);

        // the node's own miner works on the tip again, and an honest user sends a transaction
        let mined_before = tester.mining_thread.mined_golden_tickets;
        tester.mining_thread.enabled = true;
        tester.mining_thread.target = tip_hash;
        tester.mining_thread.target_id = tip_id;
        tester.mining_thread.difficulty = tip_difficulty;
        tester.mining_thread.miner_active = true;
        let tx = tester
            .create_transaction(10_000, 1_000, public_key)
            .await
            .unwrap();
        tester.add_transaction(tx).await;

        let deadline = time_keeper.get_timestamp_in_ms() + 5_000;
        while time_keeper.get_timestamp_in_ms() < deadline
            && tester.get_latest_block_id().await == tip_id
        {
            tester
                .run_until(time_keeper.get_timestamp_in_ms() + 50)
                .await
                .unwrap();
        }
        let latest_block_id = tester.get_latest_block_id().await;
        let mined = tester.mining_thread.mined_golden_tickets - mined_before;
        let still_pooled = {
            let mempool = tester.consensus_thread.mempool_lock.read().await;
            mempool
                .golden_tickets
                .get(&tip_hash)
                .map(|(tx, _)| tx.from[0].public_key == atk_public_key)
                .unwrap_or(false)
        };
        (tip_id, tip_difficulty, latest_block_id, mined, still_pooled)
    }

    NodeTester::delete_data().await.unwrap();
    let mut tester = NodeTester::default();
    let public_key = tester.get_public_key().await;
    let issuance = vec![(public_key.to_base58(), 100_000 * NOLAN_PER_SAITO)];
    tester.set_issuance(issuance).await.unwrap();
    tester.set_staking_enabled(false).await;
    tester.init().await.unwrap();
    tester.wait_till_block_id(1).await.unwrap();

    // a peer connects (no handshake is needed to send transactions)
    let peer_index = 77;
    tester
        .routing_thread
        .process_network_event(NetworkEvent::PeerConnectionResult {
            result: Ok((peer_index, None)),
        })
        .await;
    let (atk_public_key, atk_private_key) = generate_keys();

    // control: the peer's ticket solves the tip : the next block is produced with it
    let (tip_id, tip_difficulty, latest_block_id, _, _) = round(
        &mut tester,
        peer_index,
        atk_public_key,
        atk_private_key,
        true,
    )
    .await;
    assert!(
        latest_block_id > tip_id,
        "control: with a peer's valid ticket (difficulty {}) for tip {} the next block is produced, chain is at {}",
        tip_difficulty,
        tip_id,
        latest_block_id
    );

    // hostile: the same, but the solution in the peer's ticket does not meet the difficulty
    let (tip_id, tip_difficulty, latest_block_id, mined, still_pooled) = round(
        &mut tester,
        peer_index,
        atk_public_key,
        atk_private_key,
        false,
    )
    .await;
    if !(latest_block_id > tip_id) { witness(format!("one golden ticket transaction from a peer, whose solution does not meet difficulty {} of tip {}, stalled block production: after 50_000 s of node time the chain is still at block {} although a fee-paying transaction is pooled and the node's own miner found {} valid ticket(s) for the tip (dropped as duplicates); the peer's ticket is still the one pooled for the tip ({}) and every block bundled with it fails validation. hostile input must at worst be rejected, not stop the node from producing blocks (with a valid ticket the same steps produced the next block)", tip_difficulty, tip_id, latest_block_id, mined, still_pooled)); }
}

/// C03: the by-height index and the tip describe the same chain, also on a lite node that is sent a second ghost chain after its peer reorganised
#[tokio::test]
#[serial_test::serial]
async fn second_ghost_chain_leaves_index_and_tip_on_one_chain() {
    #[allow(unused_imports)] use crate::core::util::test::node_tester::test::NodeTester;
    use crate::core::defs::SaitoHash;
    use crate::core::msg::ghost_chain_sync::GhostChainSync;
    use crate::core::util::crypto::hash;

    // builds the ghost-chain message a peer sends for the blocks that follow `start`
    fn ghost_chain(start: SaitoHash, first_id: u64, prehashes: Vec<SaitoHash>) -> (GhostChainSync, Vec<SaitoHash>) {
        let mut previous = start;
        let mut previous_block_hashes = vec![];
        let mut hashes = vec![];
        for prehash in prehashes.iter() {
            previous_block_hashes.push(previous);
            previous = hash(&[previous.as_slice(), prehash.as_slice()].concat());
            hashes.push(previous);
        }
        let n = prehashes.len();
        (
            GhostChainSync {
                start,
                prehashes,
                previous_block_hashes,
                block_ids: (first_id..first_id + n as u64).collect(),
                block_ts: (0..n as u64).map(|i| 1_000 + i).collect(),
                txs: vec![false; n],
                gts: vec![true; n],
            },
            hashes,
        )
    }

    NodeTester::delete_data().await.unwrap();
    // the state of a lite node: no blocks yet (process_ghost_chain is what the message handler of a
    // lite node calls for every ghost chain a peer sends)
    let mut tester = NodeTester::new(100, None, None);

    // the peer's chain 1..5
    let (chain_a, a) = ghost_chain([0; 32], 1, (1u8..=5).map(|i| [i; 32]).collect());
    tester.routing_thread.verif_process_ghost_chain(chain_a, 1).await;
    {
        let blockchain = tester.routing_thread.blockchain_lock.read().await;
        assert_eq!(blockchain.get_latest_block_id(), 5);
        assert_eq!(blockchain.get_latest_block_hash(), a[4]);
        // control: the by-height index is the chain of ancestors of the tip
        let mut cursor = blockchain.get_latest_block_hash();
        for id in (1..=5u64).rev() {
            assert_eq!(
                blockchain.blockring.get_longest_chain_block_hash_at_block_id(id),
                Some(cursor)
            );
            cursor = blockchain.get_block(&cursor).unwrap().previous_block_hash;
        }
    }

    // the peer reorganises at block 3 and sends the ghost chain of its new fork: 4', 5', 6'
    let (chain_b, b) = ghost_chain(a[2], 4, (1u8..=3).map(|i| [0xb0 + i; 32]).collect());
    tester.routing_thread.verif_process_ghost_chain(chain_b, 1).await;

    let blockchain = tester.routing_thread.blockchain_lock.read().await;
    assert_eq!(blockchain.get_latest_block_id(), 6, "setup: the tip follows the new fork");
    assert_eq!(blockchain.get_latest_block_hash(), b[2]);
    let tip = blockchain.get_block(&b[2]).unwrap();
    assert_eq!(tip.previous_block_hash, b[1], "setup: the parent of the tip 6' is 5'");
    assert_eq!(blockchain.get_block(&b[1]).unwrap().id, 5);
    let indexed_at_5 = blockchain
        .blockring
        .get_longest_chain_block_hash_at_block_id(5)
        .unwrap();
    if !(indexed_at_5 == b[1]) { witness(format!("the node reports tip 6' whose parent is 5' ({}), but the longest-chain index at height 5 names block 5 of the abandoned fork ({}; it is the old block 5: {}): add_ghost_block marks entry 0 of the height as on-chain instead of the block it has just filed, so index and tip describe two different chains", hex::encode(&b[1][..4]), hex::encode(&indexed_at_5[..4]), indexed_at_5 == a[4])); }
}

/// C19: the inputs the wallet hands out are unspent outputs the ledger still accepts — also for the staking transaction, at the height where an output is listed past its window
#[tokio::test]
#[serial_test::serial]
async fn block_bundled_at_the_rebroadcast_height_is_accepted_by_its_own_node() {
    #[allow(unused_imports)] use crate::core::util::test::node_tester::test::NodeTester;
    #[allow(unused_imports)] use crate::core::defs::NOLAN_PER_SAITO;
    #[allow(unused_imports)] use crate::core::defs::PrintForLog;
    #[allow(unused_imports)] use crate::core::util::crypto::hash;
    use crate::core::consensus::blockchain::AddBlockResult;
    use crate::core::consensus::transaction::TransactionType;
    use crate::core::consensus::wallet::Wallet;
    use crate::core::util::test::test_manager::test::TestManager;
    use std::ops::Deref;

    NodeTester::delete_data().await.unwrap();
    let genesis_period: u64 = 10;
    let mut tester = NodeTester::new(genesis_period, None, None);
    let public_key = tester.get_public_key().await;
    let issuance = vec![
        (public_key.to_base58(), 100 * NOLAN_PER_SAITO),
        (public_key.to_base58(), 20 * NOLAN_PER_SAITO),
        (
            "27UK2MuBTdeARhYp97XBnCovGkEquJjkrQntCgYoqj6GC".to_string(),
            50 * NOLAN_PER_SAITO,
        ),
    ];
    tester.set_issuance(issuance).await.unwrap();
    tester.set_staking_enabled(false).await;
    tester.init().await.unwrap();
    tester.wait_till_block_id(1).await.unwrap();
    for i in 2..=(1 + genesis_period) {
        let tx = tester
            .create_transaction(NOLAN_PER_SAITO, NOLAN_PER_SAITO, public_key)
            .await
            .unwrap();
        tester.add_transaction(tx).await;
        tester.wait_till_block_id(i).await.unwrap();
    }
    tester
        .set_staking_requirement(2 * NOLAN_PER_SAITO, 8)
        .await;

    // a fee-paying transaction for the next block
    let tx = tester
        .create_transaction(NOLAN_PER_SAITO, NOLAN_PER_SAITO, public_key)
        .await
        .unwrap();

    let config_lock = tester.consensus_thread.config_lock.clone();
    let blockchain_lock = tester.consensus_thread.blockchain_lock.clone();
    let mempool_lock = tester.consensus_thread.mempool_lock.clone();
    let configs = config_lock.read().await;
    let mut blockchain = blockchain_lock.write().await;
    let mut mempool = mempool_lock.write().await;
    assert_eq!(blockchain.get_latest_block_id(), 1 + genesis_period);

    mempool.add_transaction_if_validates(tx, &blockchain).await;
    assert_eq!(mempool.transactions.len(), 1, "setup: the transaction is pooled");

    // a golden ticket for the tip: the pooled one if the miner has found one already, else one mined here
    // (whether the chain lets a block without a ticket follow depends on what the miner found before)
    let gt_tx = match mempool
        .golden_tickets
        .get(&blockchain.get_latest_block_hash())
        .map(|(tx, _)| tx.clone())
    {
        Some(tx) => Some(tx),
        None => {
            let tip = blockchain.get_latest_block().unwrap();
            let golden_ticket = TestManager::create_golden_ticket(
                tester.consensus_thread.wallet_lock.clone(),
                tip.hash,
                tip.difficulty,
            )
            .await;
            let wallet = tester.consensus_thread.wallet_lock.read().await;
            let mut gttx = Wallet::create_golden_ticket_transaction(
                golden_ticket,
                &wallet.public_key,
                &wallet.private_key,
            )
            .await;
            gttx.generate(&public_key, 0, 0);
            Some(gttx)
        }
    };
    let timestamp = blockchain.get_latest_block().unwrap().timestamp + 600_000;
    let block = mempool
        .bundle_block(
            &blockchain,
            timestamp,
            gt_tx,
            configs.deref(),
            &tester.consensus_thread.storage,
        )
        .await;
    // (whether a block comes out depends on the ticket the harness happened to mine: no block — and the pool as it
    // was — is an outcome the property allows, and leaves nothing to judge here)
    let block = match block {
        Some(block) => block,
        None => return,
    };
    let staking_txs = block
        .transactions
        .iter()
        .filter(|tx| tx.transaction_type == TransactionType::BlockStake)
        .count();

    let result = blockchain
        .add_block(
            block,
            &mut tester.consensus_thread.storage,
            &mut mempool,
            configs.deref(),
        )
        .await;
    if !(matches!(result, AddBlockResult::BlockAddedSuccessfully(_, true, _))) { witness(format!("the block a staking node with enough spendable funds bundles must be accepted by the node itself, but since 6037037 the wallet stakes the output that is listed past its retention window, the staking transaction is dropped and the block (staking transactions in it : {:?}) is refused", staking_txs)); }
}

/// C10: bytes from disk are rejected, never crash: a block file that decodes but cannot be generated
#[tokio::test]
#[serial_test::serial]
async fn block_file_with_one_corrupt_byte_is_refused_by_the_disk_loader() {
    #[allow(unused_imports)] use crate::core::util::test::test_manager::test::TestManager;
    #[allow(unused_imports)] use crate::core::consensus::block::Block;
    use crate::core::consensus::block::{BlockType, BLOCK_HEADER_SIZE};
    use crate::core::consensus::mempool::Mempool;
    use crate::core::consensus::slip::{Slip, SLIP_SIZE};
    use crate::core::consensus::transaction::{Transaction, TRANSACTION_SIZE};
    use crate::core::consensus::wallet::Wallet;
    use crate::core::io::storage::Storage;
    use crate::core::util::crypto::generate_keys;
    use crate::core::util::test::test_io_handler::test::TestIOHandler;
    use std::sync::Arc;
    use tokio::sync::RwLock;

    let t = TestManager::default();
    let (public_key, private_key) = generate_keys();

    // a block with one transaction that spends two outputs of the same earlier transaction
    // (same key, same block id, same ordinal, same amount: they differ in slip_index only)
    let mut tx = Transaction::default();
    for slip_index in 0..2u8 {
        let mut input = Slip::default();
        input.public_key = public_key;
        input.amount = 500;
        input.block_id = 3;
        input.tx_ordinal = 0;
        input.slip_index = slip_index;
        tx.from.push(input);
    }
    let mut output = Slip::default();
    output.public_key = public_key;
    output.amount = 1000;
    tx.to.push(output);
    tx.sign(&private_key);

    let mut block = Block::new();
    block.id = 7;
    block.timestamp = crate::core::util::test::test_manager::test::create_timestamp();
    block.previous_block_hash = [9; 32];
    block.creator = public_key;
    block.transactions.push(tx);
    let honest_bytes = block.serialize_for_net(BlockType::Full);

    // the hostile edit: ONE byte, the slip_index of the second input, 1 -> 0
    let offset = BLOCK_HEADER_SIZE + TRANSACTION_SIZE + SLIP_SIZE + 57;
    assert_eq!(honest_bytes[offset], 1, "setup: offset of second input's slip_index");
    let mut corrupt_bytes = honest_bytes.clone();
    corrupt_bytes[offset] = 0;

    // setup sanity: both buffers decode; generate() is Ok for the honest one and a plain Err (no
    // panic) for the corrupt one
    let mut honest_block = Block::deserialize_from_net(&honest_bytes).expect("honest decodes");
    assert!(honest_block.generate().is_ok(), "setup: honest block generates");
    let mut corrupt_block = Block::deserialize_from_net(&corrupt_bytes).expect("corrupt decodes");
    assert!(
        corrupt_block.generate().is_err(),
        "setup: generate() reports the corrupt block with an error"
    );

    let block_dir = "./data/blocks/";
    let honest_name = "audit_demo_c10_honest.sai".to_string();
    let corrupt_name = "audit_demo_c10_corrupt.sai".to_string();
    t.storage
        .io_interface
        .write_value((block_dir.to_string() + &honest_name).as_str(), &honest_bytes)
        .await
        .unwrap();
    t.storage
        .io_interface
        .write_value((block_dir.to_string() + &corrupt_name).as_str(), &corrupt_bytes)
        .await
        .unwrap();

    // control: the honest file is loaded into the mempool's block queue
    let keys = generate_keys();
    let wallet_lock = Arc::new(RwLock::new(Wallet::new(keys.1, keys.0)));
    let mempool_lock = Arc::new(RwLock::new(Mempool::new(wallet_lock.clone())));
    let mut storage = Storage::new(Box::new(TestIOHandler::new()));
    storage
        .load_blocks_from_disk(&[honest_name.clone()], mempool_lock.clone())
        .await;
    assert_eq!(
        mempool_lock.read().await.blocks_queue.len(),
        1,
        "control: the honest block file is loaded"
    );

    // the corrupt file, in a task of its own so that a panic is observed and not propagated
    let mempool_lock2 = Arc::new(RwLock::new(Mempool::new(wallet_lock.clone())));
    let names = vec![corrupt_name.clone()];
    let handle = tokio::spawn(async move {
        let mut storage = Storage::new(Box::new(TestIOHandler::new()));
        storage.load_blocks_from_disk(&names, mempool_lock2).await;
    });
    let result = handle.await;

    let _ = std::fs::remove_file(block_dir.to_string() + &honest_name);
    let _ = std::fs::remove_file(block_dir.to_string() + &corrupt_name);

    let panicked = matches!(&result, Err(e) if e.is_panic());
    if !(!panicked) { witness(format!("Storage::load_blocks_from_disk panicked on a block file that differs from a valid one in 1 byte (slip_index of input 2 at offset {} set from 1 to 0): Block::generate() returned Err(double-spend) and the loader unwraps it, so bytes from disk crash the node at startup instead of being rejected", offset)); }
}

/// C10 (bytes from disk are rejected, never crash) kept honest: a start-up that meets one block file it cannot use still loads, and keeps, the intact files after it
#[tokio::test]
#[serial_test::serial]
async fn unusable_block_file_does_not_cost_the_files_after_it() {
    #[allow(unused_imports)] use std::fs;
    #[allow(unused_imports)] use crate::core::util::test::node_tester::test::NodeTester;
    #[allow(unused_imports)] use crate::core::defs::NOLAN_PER_SAITO;
    #[allow(unused_imports)] use crate::core::defs::PrintForLog;
    #[allow(unused_imports)] use crate::core::consensus::block::Block;
    use crate::core::consensus::block::BlockType;
    use crate::core::consensus::transaction::TransactionType;
    use futures::FutureExt;
    use std::panic::AssertUnwindSafe;

    // the chain: five honest blocks produced by a node, each after the first with one payment
    NodeTester::delete_data().await.unwrap();
    let mut tester = NodeTester::new(100, None, None);
    let public_key = tester.get_public_key().await;
    let private_key = tester.get_private_key().await;
    tester.set_staking_requirement(2 * NOLAN_PER_SAITO, 8).await;
    let issuance = vec![
        (public_key.to_base58(), 8 * 2 * NOLAN_PER_SAITO),
        (public_key.to_base58(), 100 * NOLAN_PER_SAITO),
        (
            "27UK2MuBTdeARhYp97XBnCovGkEquJjkrQntCgYoqj6GC".to_string(),
            50 * NOLAN_PER_SAITO,
        ),
    ];
    tester.set_issuance(issuance.clone()).await.unwrap();
    tester.init().await.unwrap();
    tester.wait_till_block_id(1).await.unwrap();
    let mut blocks: Vec<Block> = vec![tester
        .consensus_thread
        .blockchain_lock
        .read()
        .await
        .get_latest_block()
        .cloned()
        .unwrap()];
    for i in 2..=5u64 {
        let tx = tester
            .create_transaction(NOLAN_PER_SAITO, 0, public_key)
            .await
            .unwrap();
        tester.add_transaction(tx).await;
        tester.wait_till_block_id(i).await.unwrap();
        blocks.push(
            tester
                .consensus_thread
                .blockchain_lock
                .read()
                .await
                .get_latest_block()
                .cloned()
                .unwrap(),
        );
    }
    assert_eq!(blocks.len(), 5, "setup: five blocks");
    let timer = tester.consensus_thread.timer.clone();
    let file_path =
        |block: &Block| -> String { "./data/blocks/".to_string() + block.get_file_name().as_str() };

    // control: the node restarted on its five intact files holds the whole chain and keeps the files
    {
        NodeTester::delete_data().await.unwrap();
        let mut tester = NodeTester::new(100, Some(private_key), Some(timer.clone()));
        tester.set_staking_requirement(2 * NOLAN_PER_SAITO, 8).await;
        for block in blocks.iter() {
            tester
                .consensus_thread
                .storage
                .write_block_to_disk(block)
                .await;
        }
        tester.init().await.unwrap();
        assert_eq!(
            tester
                .consensus_thread
                .blockchain_lock
                .read()
                .await
                .get_latest_block_id(),
            5,
            "setup: the node loads its five block files"
        );
        for block in blocks.iter() {
            assert!(
                fs::metadata(file_path(block)).is_ok(),
                "setup: start-up keeps the block files"
            );
        }
    }

    // the damaged copy of block 3: same header (same file name), one input named twice
    let mut damaged =
        Block::deserialize_from_net(&blocks[2].serialize_for_net(BlockType::Full)).unwrap();
    let position = damaged
        .transactions
        .iter()
        .position(|tx| {
            tx.transaction_type == TransactionType::Normal
                && tx.from.iter().any(|input| input.amount > 0)
        })
        .expect("setup: block 3 carries a payment");
    let mut payment = damaged.transactions.remove(position);
    let twice = payment
        .from
        .iter()
        .find(|input| input.amount > 0)
        .unwrap()
        .clone();
    payment.from.push(twice);
    damaged.transactions.insert(0, payment);
    let damaged_bytes = damaged.serialize_for_net(BlockType::Full);
    {
        let mut check = Block::deserialize_from_net(&damaged_bytes)
            .expect("setup: the damaged file still decodes");
        assert!(
            check.generate().is_err(),
            "setup: the damaged file cannot be generated"
        );
        assert_eq!(
            check.get_file_name(),
            blocks[2].get_file_name(),
            "setup: the damaged block goes by the file name of block 3"
        );
    }

    NodeTester::delete_data().await.unwrap();
    let mut tester = NodeTester::new(100, Some(private_key), Some(timer));
    tester.set_staking_requirement(2 * NOLAN_PER_SAITO, 8).await;
    for block in blocks.iter() {
        tester
            .consensus_thread
            .storage
            .write_block_to_disk(block)
            .await;
    }
    fs::write(file_path(&blocks[2]), &damaged_bytes).unwrap();
    for block in blocks.iter() {
        assert!(
            fs::metadata(file_path(block)).is_ok(),
            "setup: five block files on disk"
        );
    }

    // start-up (before 3651f67 it stopped here with a panic and touched nothing)
    let _ = AssertUnwindSafe(tester.init()).catch_unwind().await;

    if !(fs::metadata(file_path(&blocks[3])).is_ok() && fs::metadata(file_path(&blocks[4])).is_ok()) { witness(format!("a start-up that meets one block file it cannot use erases the intact block files that come after it from disk (the loader gives up at that file and the start-up clean-up deletes whatever was not loaded), where the node used to stop and leave its files alone: broken by 3651f67")); }
}
