// Replay / extraction-validation module for message.rs (compiled only under --cfg saito_verif in the test build)
#[allow(unused_imports)]
use super::*;
include!("/verif/replay/in_crate/common.rs");

fn decode_guarded(buf: &[u8]) -> Result<bool, String> {
    let b = buf.to_vec();
    let prev = std::panic::take_hook();
    std::panic::set_hook(Box::new(|_| {}));
    let r = std::panic::catch_unwind(move || Message::deserialize(b).is_ok());
    std::panic::set_hook(prev);
    r.map_err(|e| e.downcast_ref::<String>().cloned().or_else(|| e.downcast_ref::<&str>().map(|s| s.to_string())).unwrap_or_default())
}

/// C10: Message::deserialize returns Ok/Err for every buffer, for every tag (tags 2, 3, 9 go through decoders
/// that are not under a Verus contract in unit `message`; they are exercised here all the same)
#[test]
fn decoder_total() {
    let mut rng = Rng::from_env();
    for tag in 0u8..=17 {
        for len in 0..200usize {
            for _ in 0..3 {
                let mut b = vec![tag];
                b.extend(rng.bytes(len));
                // small counts make deeper paths reachable
                if len >= 36 && rng.below(2) == 0 { b[33] = 0; b[34] = 0; b[35] = 0; b[36] = rng.below(4) as u8; }
                if let Err(p) = decode_guarded(&b) {
                    witness(format!("Message::deserialize panicked on tag {} with {} payload bytes {:?}…: {}", tag, len, &b[1..b.len().min(12)], p));
                }
            }
        }
    }
}

/// C09: tag table and payload round trip for the fixed-layout variants
#[test]
fn roundtrip_simple_variants() {
    let mut rng = Rng::from_env();
    for _ in 0..500 {
        let h: [u8; 32] = rng.arr(); let f: [u8; 32] = rng.arr(); let id = rng.edge_u64();
        let m = Message::BlockHeaderHash(h, id);
        match Message::deserialize(m.serialize()) { Ok(Message::BlockHeaderHash(h2, id2)) if h2 == h && id2 == id => {}, _ => witness(format!("BlockHeaderHash({:?},{}) does not round trip", &h[..4], id)) }
        let m = Message::GhostChainRequest(id, h, f);
        match Message::deserialize(m.serialize()) { Ok(Message::GhostChainRequest(i2, h2, f2)) if h2 == h && i2 == id && f2 == f => {}, _ => witness("GhostChainRequest does not round trip".to_string()) }
        let n = rng.below(5) as usize;
        let keys: Vec<SaitoPublicKey> = (0..n).map(|_| rng.arr::<33>()).collect();
        match Message::deserialize(Message::KeyListUpdate(keys.clone()).serialize()) { Ok(Message::KeyListUpdate(k2)) if k2 == keys => {}, _ => witness("KeyListUpdate does not round trip".to_string()) }
        let api = ApiMessage { msg_index: rng.next() as u32, data: rng.bytes(n * 3) };
        match Message::deserialize(Message::ApplicationMessage(ApiMessage { msg_index: api.msg_index, data: api.data.clone() }).serialize()) { Ok(Message::ApplicationMessage(a)) if a.msg_index == api.msg_index && a.data == api.data => {}, _ => witness("ApplicationMessage does not round trip".to_string()) }
    }
}

/// C11 (routing thread): whatever well-formed message a peer sends, and however often, the routing thread's handler
/// returns — a block message (decodable, but not part of the protocol), key-list updates beyond the rate limit, key-list
/// updates and pings from a peer index the node has no record of.
#[tokio::test]
#[serial_test::serial]
async fn well_formed_messages_never_stop_the_routing_thread() {
    use crate::core::util::test::node_tester::test::NodeTester;
    use crate::core::io::network_event::NetworkEvent;
    use crate::core::process::process_event::ProcessEvent;
    use crate::core::consensus::peers::peer::Peer;
    use crate::core::consensus::block::{Block, BlockType};
    let mut tester = NodeTester::default();
    { let mut peers = tester.routing_thread.network.peer_lock.write().await; peers.index_to_peers.insert(7, Peer::new(7)); }
    let block_message = { let mut b = Block::new(); b.id = 5; let mut v = vec![3u8]; v.extend(b.serialize_for_net(BlockType::Full)); v };
    let key_list = Message::KeyListUpdate(vec![[2u8; 33], [3u8; 33]]).serialize();
    let mut cases: Vec<(String, u64, Vec<u8>)> = vec![
        ("a block message".to_string(), 7, block_message),
        ("a ping".to_string(), 7, Message::Ping().serialize()),
        ("a ghost-chain request from a peer that has not completed the handshake".to_string(), 7, Message::GhostChainRequest(1, [4u8; 32], [0u8; 32]).serialize()),
    ];
    for n in 0..400 { cases.push((format!("key-list update #{} from the same peer", n + 1), 7, key_list.clone())); }
    for (what, peer_index, buffer) in cases {
        let fut = std::panic::AssertUnwindSafe(tester.routing_thread.process_network_event(NetworkEvent::IncomingNetworkMessage { peer_index, buffer }));
        let r = futures::FutureExt::catch_unwind(fut).await;
        if r.is_err() { witness(format!("the routing thread's message handler panicked on {} — the routing thread is gone", what)); }
    }
}
