// Replay / extraction-validation module for handshake.rs (compiled only under --cfg saito_verif in the test build)
#[allow(unused_imports)]
use super::*;
include!("/verif/replay/in_crate/common.rs");

/// C10: every proper prefix of a valid handshake response, and every value of its url-length field, decodes to Ok or Err
/// without panicking — directly and as the payload of a tag-2 message
#[test]
fn truncated_and_corrupted_handshake_responses_are_errors() {
    use crate::core::msg::message::Message;
    use crate::core::process::version::Version;
    let resp = HandshakeResponse { public_key: [2; 33], signature: [3; 64], is_lite: false, block_fetch_url: "http://localhost:12101/block/".to_string(), challenge: [4; 32],
        services: vec![], wallet_version: Version::new(1, 2, 3), core_version: Version::new(1, 2, 3) };
    let full = resp.serialize();
    let mut cases: Vec<(String, Vec<u8>)> = (0..full.len()).map(|n| (format!("the first {} of {} bytes", n, full.len()), full[..n].to_vec())).collect();
    for url_len in [0u32, 1, 28, 29, 30, 141, 142, 143, 170, 171, 172, 10_000, u32::MAX] {
        for keep in [142usize, 143, 150, full.len()] {
            let mut b = full[..keep.min(full.len())].to_vec();
            if b.len() >= 142 { b[138..142].copy_from_slice(&url_len.to_be_bytes()); }
            cases.push((format!("{} bytes with the url-length field set to {}", b.len(), url_len), b));
        }
    }
    for (what, buf) in cases {
        for wrapped in [false, true] {
            let b = buf.clone();
            let prev = std::panic::take_hook();
            std::panic::set_hook(Box::new(|_| {}));
            let r = std::panic::catch_unwind(move || { if wrapped { let mut m = vec![2u8]; m.extend(b); Message::deserialize(m).is_ok() } else { HandshakeResponse::deserialize(&b).is_ok() } });
            std::panic::set_hook(prev);
            if r.is_err() { witness(format!("{} panicked on a handshake response: {}", if wrapped { "Message::deserialize (tag 2)" } else { "HandshakeResponse::deserialize" }, what)); }
        }
    }
}
