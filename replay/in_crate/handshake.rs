// Replay / extraction-validation module for handshake.rs (compiled only under --cfg saito_verif in the test build)
#[allow(unused_imports)]
use super::*;
include!("/verif/replay/in_crate/common.rs");

/// C10: every proper prefix of a valid handshake response, and every value of its url-length field, decodes to Ok or Err
/// without panicking — directly and as the payload of a tag-2 message
#[test]
fn truncated_and_corrupted_handshake_responses_are_errors() {
    use crate::core::msg::message::Message;
    use crate::core::process::version::Version;
    let resp = HandshakeResponse { public_key: [2; 33], signature: [3; 64], is_lite: false, block_fetch_url: "http://localhost:12101/block/".to_string(), challenge: [4; 32],
        services: vec![], wallet_version: Version::new(1, 2, 3), core_version: Version::new(1, 2, 3) };
    let full = resp.serialize();
    let mut cases: Vec<(String, Vec<u8>)> = (0..full.len()).map(|n| (format!("the first {} of {} bytes", n, full.len()), full[..n].to_vec())).collect();
    for url_len in [0u32, 1, 28, 29, 30, 141, 142, 143, 170, 171, 172, 10_000, u32::MAX] {
        for keep in [142usize, 143, 150, full.len()] {
            let mut b = full[..keep.min(full.len())].to_vec();
            if b.len() >= 142 { b[138..142].copy_from_slice(&url_len.to_be_bytes()); }
            cases.push((format!("{} bytes with the url-length field set to {}", b.len(), url_len), b));
        }
    }
    for (what, buf) in cases {
        for wrapped in [false, true] {
            let b = buf.clone();
            let prev = std::panic::take_hook();
            std::panic::set_hook(Box::new(|_| {}));
            let r = std::panic::catch_unwind(move || { if wrapped { let mut m = vec![2u8]; m.extend(b); Message::deserialize(m).is_ok() } else { HandshakeResponse::deserialize(&b).is_ok() } });
            std::panic::set_hook(prev);
            if r.is_err() { witness(format!("{} panicked on a handshake response: {}", if wrapped { "Message::deserialize (tag 2)" } else { "HandshakeResponse::deserialize" }, what)); }
        }
    }
}

/// C09: a handshake response / service message decodes to the value that was encoded, also when a free-text field of a service contains the separator characters
#[test]
fn service_list_with_separator_characters_round_trips() {
    use crate::core::msg::handshake::HandshakeResponse;
    use crate::core::msg::message::Message;
    use crate::core::process::version::Version;
    use crate::core::util::serialize::Serialize;

    fn response(services: Vec<PeerService>) -> HandshakeResponse {
        HandshakeResponse {
            public_key: [3; 33],
            signature: [4; 64],
            is_lite: false,
            block_fetch_url: "http://node/block/".to_string(),
            challenge: [5; 32],
            services,
            wallet_version: Version::new(1, 2, 3),
            core_version: Version::new(4, 5, 6),
        }
    }

    // control: plain field values come back as they went in, in both carriers
    let plain = PeerService {
        service: "chat".to_string(),
        domain: "saito.io".to_string(),
        name: "relay".to_string(),
    };
    let decoded = HandshakeResponse::deserialize(&response(vec![plain.clone()]).serialize())
        .expect("plain handshake response decodes");
    assert_eq!(decoded.services.len(), 1);
    assert_eq!(decoded.services[0].service, "chat");
    assert_eq!(decoded.services[0].domain, "saito.io");
    assert_eq!(decoded.services[0].name, "relay");
    assert_eq!(decoded.block_fetch_url, "http://node/block/");
    match Message::deserialize(Message::Services(vec![plain.clone()]).serialize()).unwrap() {
        Message::Services(list) => assert_eq!(list.len(), 1),
        other => panic!("decoded as {:?}", other),
    }

    // one service whose display name contains the two characters the text format uses as separators
    let odd = PeerService {
        service: "chat".to_string(),
        domain: "saito.io".to_string(),
        name: "relay;mixin|saito.io|wallet".to_string(),
    };
    let bytes = response(vec![odd.clone()]).serialize();
    let decoded = HandshakeResponse::deserialize(&bytes).expect("handshake response decodes");
    let names: Vec<String> = decoded
        .services
        .iter()
        .map(|s| format!("{}|{}|{}", s.service, s.domain, s.name))
        .collect();
    if !(decoded.services.len() == 1 && decoded.services[0].name == odd.name) { witness(format!("1 service (chat, saito.io, name \"relay;mixin|saito.io|wallet\") was encoded into the handshake response and {} services came out: {:?}; the second is a \"mixin\" service this node never announced, because ';' and '|' inside a field are written unescaped, so decode(encode(x)) != x", decoded.services.len(), names)); }
}
