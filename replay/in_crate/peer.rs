// Replay / extraction-validation module for peer.rs (compiled only under --cfg saito_verif in the test build)
#[allow(unused_imports)]
use super::*;
include!("/verif/replay/in_crate/common.rs");
use crate::core::util::test::test_manager::test::TestManager;
use crate::core::util::crypto::generate_keys;
use crate::core::process::version::Version;

use crate::core::util::configuration::{BlockchainConfig, Configuration, ConsensusConfig, PeerConfig, Server};

/// a complete Configuration for replays (the TestManager one leaves get_block_fetch_url as todo!())
#[derive(Debug, Default)]
struct ReplayCfg { peers: Vec<PeerConfig>, blockchain: BlockchainConfig, consensus: ConsensusConfig }
impl Configuration for ReplayCfg {
    fn get_server_configs(&self) -> Option<&Server> { None }
    fn get_peer_configs(&self) -> &Vec<PeerConfig> { &self.peers }
    fn get_blockchain_configs(&self) -> &BlockchainConfig { &self.blockchain }
    fn get_block_fetch_url(&self) -> String { "http://localhost:12101/block/".to_string() }
    fn is_spv_mode(&self) -> bool { false }
    fn is_browser(&self) -> bool { false }
    fn replace(&mut self, _config: &dyn Configuration) {}
    fn get_consensus_config(&self) -> Option<&ConsensusConfig> { Some(&self.consensus) }
}
fn replay_cfg() -> Arc<RwLock<dyn Configuration + Send + Sync>> { Arc::new(RwLock::new(ReplayCfg::default())) }

fn response_for(challenge: SaitoHash, sk: &crate::core::defs::SaitoPrivateKey, pk: SaitoPublicKey, core: Version) -> HandshakeResponse {
    HandshakeResponse { public_key: pk, signature: sign(&challenge, sk), is_lite: false, block_fetch_url: "".to_string(), challenge: [7; 32],
        services: vec![], wallet_version: core, core_version: core }
}

/// C17: a peer becomes connected under key K only after a valid signature by K over the challenge issued on this
/// connection; each challenge is accepted once; bad / unsolicited / replayed responses never connect — and never crash
#[tokio::test]
#[serial_test::serial]
async fn handshake_contract() {
    let t = TestManager::default();
    let my_core = { t.wallet_lock.read().await.core_version };
    let (k1, s1) = generate_keys();
    let (k2, s2) = generate_keys();
    let mut rng = Rng::from_env();
    for round in 0..200 {
        let mut peer = Peer::new(5);
        let challenge: SaitoHash = rng.arr();
        let issued = rng.below(4) != 0;
        if issued { peer.challenge_for_peer = Some(challenge); }
        let is_static = rng.below(3) == 0;                          // an outgoing connection to a configured peer
        if is_static { peer.static_peer_config = Some(PeerConfig { host: "127.0.0.1".to_string(), port: 12101, protocol: "http".to_string(), synctype: "full".to_string() }); }
        if rng.below(3) == 0 { peer.public_key = Some(k1); }          // a peer object that has been authenticated before (reconnecting static peer)
        let (pk, sk) = if rng.below(2) == 0 { (k1, s1) } else { (k2, s2) };
        let signed_challenge = match rng.below(4) { 0 => rng.arr::<32>(), 1 => [0u8; 32], _ => challenge };   // replayed / foreign / all-zero challenge
        let mut resp = response_for(signed_challenge, &sk, pk, my_core);
        if rng.below(6) == 0 { resp.signature[3] ^= 1; }
        if rng.below(6) == 0 { resp.core_version = Version::new(my_core.major, my_core.minor.wrapping_add(1), 0); }
        let sig_valid = crate::core::util::crypto::verify(&challenge, &resp.signature, &resp.public_key);
        let compatible = my_core.is_same_minor_version(&resp.core_version);
        let desc = format!("round {}: static peer={}, challenge issued={}, known key={:?}, response key={:?}, signature over issued challenge valid={}, version compatible={}", round, is_static, issued, peer.public_key.map(|k| k[1]), pk[1], sig_valid, compatible);
        let had_key = peer.public_key;
        let result = std::panic::AssertUnwindSafe(peer.handle_handshake_response(resp, t.network.io_interface.as_ref(), t.wallet_lock.clone(), replay_cfg(), 0));
        let result = futures::FutureExt::catch_unwind(result).await;
        let result = match result { Ok(r) => r, Err(e) if e.downcast_ref::<String>().map(|s| s.contains("not yet implemented")).unwrap_or(false) || e.downcast_ref::<&str>().map(|s| s.contains("not yet implemented")).unwrap_or(false) => {
            // the test harness' IO handler does not implement disconnect_from_peer (todo!()): the node asked to disconnect
            Err(std::io::Error::from(std::io::ErrorKind::InvalidInput)) }, Err(e) => { let m = e.downcast_ref::<String>().cloned().or_else(|| e.downcast_ref::<&str>().map(|s| s.to_string())).unwrap_or_default(); witness(format!("Peer::handle_handshake_response panicked ({}): {}", m, desc)) } };
        let connected = matches!(peer.peer_status, PeerStatus::Connected);
        if connected && !(issued && sig_valid && compatible) { witness(format!("peer marked connected without a valid signature over the issued challenge: {}", desc)); }
        if connected && peer.public_key != Some(pk) { witness(format!("peer connected under a key other than the signer's: {}", desc)); }
        if result.is_ok() && peer.challenge_for_peer.is_some() { witness(format!("challenge still pending after a completed handshake (could be accepted again): {}", desc)); }
        if (!issued || !sig_valid) && (result.is_ok() || connected) { witness(format!("unsolicited or badly signed response accepted: {}", desc)); }
        let _ = had_key;
    }
}

/// C17/C11: a peer object that was authenticated under key K1 before (a reconnecting static peer) and now receives a
/// correctly signed response under a different key K2 must refuse it — not abort the node
#[tokio::test]
#[serial_test::serial]
async fn reconnect_with_different_key_is_refused_not_fatal() {
    let t = TestManager::default();
    let my_core = { t.wallet_lock.read().await.core_version };
    let (k1, _s1) = generate_keys();
    let (k2, s2) = generate_keys();
    let mut peer = Peer::new(5);
    let challenge: SaitoHash = [9; 32];
    peer.challenge_for_peer = Some(challenge);
    peer.public_key = Some(k1);
    let resp = response_for(challenge, &s2, k2, my_core);
    let fut = std::panic::AssertUnwindSafe(peer.handle_handshake_response(resp, t.network.io_interface.as_ref(), t.wallet_lock.clone(), replay_cfg(), 0));
    match futures::FutureExt::catch_unwind(fut).await {
        Ok(_) => {}
        Err(e) => {
            let m = e.downcast_ref::<String>().cloned().or_else(|| e.downcast_ref::<&str>().map(|s| s.to_string())).unwrap_or_default();
            if !m.contains("not yet implemented") { witness(format!("Peer::handle_handshake_response aborted on a validly signed response under a key different from the one this peer object authenticated before: {}", m.lines().next().unwrap_or(""))); }
        }
    }
    if matches!(peer.peer_status, PeerStatus::Connected) && peer.public_key != Some(k2) { witness("connected under a key other than the signer's".to_string()); }
}

/// C17: whatever state the peer object is in, closing the connection drops the challenge issued on it — a response made
/// for the challenge of an earlier connection must find nothing pending
#[test]
fn disconnect_drops_pending_challenge() {
    for (name, status) in [("Connected", PeerStatus::Connected), ("Connecting", PeerStatus::Connecting), ("already Disconnected", PeerStatus::Disconnected(5, 1_000))] {
        let mut peer = Peer::new(3);
        peer.peer_status = status;
        peer.challenge_for_peer = Some([7u8; 32]);
        peer.mark_as_disconnected(1234);
        if peer.challenge_for_peer.is_some() { witness(format!("peer in state {} with a pending challenge: after mark_as_disconnected the challenge is still pending — a response signed over it on a later connection would be accepted", name)); }
        if matches!(peer.peer_status, PeerStatus::Connected) { witness(format!("peer in state {} is still connected after mark_as_disconnected", name)); }
    }
}

/// C17: only a verified response connects a peer — opening a handshake and answering a challenge leave the peer's status
/// and key as they were (whatever they were) and leave a challenge pending
#[tokio::test]
#[serial_test::serial]
async fn opening_or_answering_a_handshake_never_connects() {
    use crate::core::msg::handshake::HandshakeChallenge;
    let t = TestManager::default();
    let (k1, _s1) = generate_keys();
    let mut rng = Rng::from_env();
    for round in 0..60 {
        let mut peer = Peer::new(5);
        if rng.below(2) == 0 { peer.public_key = Some(k1); }
        if rng.below(3) == 0 { peer.challenge_for_peer = Some(rng.arr()); }
        let status_before = format!("{:?}", peer.peer_status);
        let key_before = peer.public_key;
        let answering = rng.below(2) == 0;
        let r = if answering {
            let fut = std::panic::AssertUnwindSafe(peer.handle_handshake_challenge(HandshakeChallenge { challenge: rng.arr() }, t.network.io_interface.as_ref(), t.wallet_lock.clone(), replay_cfg()));
            futures::FutureExt::catch_unwind(fut).await.map(|_| ())
        } else {
            let fut = std::panic::AssertUnwindSafe(peer.initiate_handshake(t.network.io_interface.as_ref()));
            futures::FutureExt::catch_unwind(fut).await.map(|_| ())
        };
        let _io_gave_up = r.is_err();   // the test I/O handler leaves some calls as todo!(): what the peer did before that still counts
        let what = if answering { "answering a handshake challenge" } else { "opening a handshake" };
        if format!("{:?}", peer.peer_status) != status_before { witness(format!("round {}: {} changed the peer's status from {} to {:?}", round, what, status_before, peer.peer_status)); }
        if peer.public_key != key_before { witness(format!("round {}: {} changed the key the peer is known under (from {:?} to {:?}) although nothing was verified", round, what, key_before.map(|k| k.to_base58()), peer.public_key.map(|k| k.to_base58()))); }
        if !_io_gave_up && peer.challenge_for_peer.is_none() { witness(format!("round {}: no challenge is pending after {}", round, what)); }
    }
}
