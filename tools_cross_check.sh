#!/bin/bash
# usage: tools_cross_check.sh [seeded-id ...]   (maintainer tool, not a registered check)
# For every seeded change: apply it to /repo, run ALL property checks, undo it; print which properties raise a VIOLATION.
# Expected: the property the change breaks (meta.json breaks_property) raises; a property that still holds stays quiet.
cd /verif
ALL="C01 C02 C03 C04 C05 C06 C08 C09 C10 C13 C14 C15 C16 C17 C18 C19"
if [ $# -gt 0 ]; then IDS="$*"; else IDS=$(ls seeded | grep -v harmless); fi
T=$(mktemp -d); cp -r evidence $T/evidence_keep
for id in $IDS; do
  [ -f seeded/$id/patch.diff ] || continue
  git -C /repo apply /verif/seeded/$id/patch.diff || { echo "$id: patch does not apply"; continue; }
  want=$(python3 -c "import json;print(json.load(open('seeded/$id/meta.json'))['breaks_property'])")
  echo $ALL | tr ' ' '\n' | xargs -P 5 -I{} sh -c "./check {} > $T/{}.txt 2>&1"
  out=""
  for p in $ALL; do
    if grep -q "^VIOLATION" $T/$p.txt; then out="$out $p"; fi
    if grep -q "^UNDECIDED\|^BROKEN-CHECK" $T/$p.txt; then out="$out $p(undecided)"; fi
  done
  git -C /repo checkout -- .
  echo "$id: breaks=$want alarms=[$out ]"
done
cp $T/evidence_keep/*.json evidence/; rm -rf $T
