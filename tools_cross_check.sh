#!/bin/bash
# usage: tools_cross_check.sh [seeded-id ...]   (maintainer tool, not a registered check)
# For every seeded change: apply it to /repo, run the checks of every property whose units read a source file the change
# touches (a check whose units read none of them sees the unchanged text), undo it; print which properties raise a
# VIOLATION. Expected: the property the change breaks (meta.json breaks_property) raises; a property that still holds
# stays quiet.
cd /verif
if [ $# -gt 0 ]; then IDS="$*"; else IDS=$(ls seeded | grep -v harmless); fi
T=$(mktemp -d); cp -r evidence $T/evidence_keep
for id in $IDS; do
  [ -f seeded/$id/patch.diff ] || continue
  PROPS=$(python3 - "$id" <<'PY'
import sys,re,glob,os,tomllib
sid=sys.argv[1]
touched=set(os.path.basename(m) for m in re.findall(r'^\+\+\+ b/(\S+)', open('/verif/seeded/%s/patch.diff'%sid).read(), re.M))
def files_of(unit, seen):
    if unit in seen: return set()
    seen.add(unit); out=set()
    for l in open('/verif/units/%s.vt'%unit):
        m=re.match(r'//@(fn|struct|enum|const)\s+(\S+)', l)
        if m: out.add(os.path.basename(m.group(2)))
        m=re.match(r'//@include\s+(\S+)', l)
        if m: out|=files_of(m.group(1), seen)
    return out
res=[]
for p in sorted(glob.glob('/verif/props/C*.toml')):
    d=tomllib.load(open(p,'rb'))
    fs=set()
    for u in d['units']: fs|=files_of(u,set())
    if fs & touched: res.append(d['id'])
print(' '.join(res))
PY
)
  git -C ${VERIF_REPO:-/repo} apply /verif/seeded/$id/patch.diff || { echo "$id: patch does not apply"; continue; }
  want=$(python3 -c "import json;print(json.load(open('seeded/$id/meta.json'))['breaks_property'])")
  echo $PROPS | tr ' ' '\n' | xargs -P 4 -I{} sh -c "./check {} > $T/{}.txt 2>&1"
  out=""
  for p in $PROPS; do
    if grep -q "^VIOLATION" $T/$p.txt; then out="$out $p"; fi
    if grep -q "^UNDECIDED\|^BROKEN-CHECK" $T/$p.txt; then out="$out $p(undecided)"; fi
  done
  git -C ${VERIF_REPO:-/repo} checkout -- .
  echo "$id: breaks=$want ran=[$PROPS] alarms=[$out ]"
done
cp $T/evidence_keep/*.json evidence/; rm -rf $T
