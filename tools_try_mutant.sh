#!/bin/sh
# usage: tools_try_mutant.sh <patch> <prop> [tier]   — applies the patch to /repo, runs the check, reverts
# (the evidence file of the property is put back afterwards: committed evidence must describe the unchanged tree)
set -u
P="$1"; PROP="$2"; TIER="${3:-quick}"
cd /repo || exit 3
git apply --check "$P" || { echo "patch does not apply"; exit 3; }
git apply "$P"
cp /verif/evidence/$PROP.json /verif/build/evidence_$PROP.keep 2>/dev/null
cd /verif && ./check "$PROP" --tier "$TIER"; RC=$?
git -C /repo checkout -- .
cp /verif/evidence/$PROP.json /verif/build/evidence_$PROP.mutant 2>/dev/null
[ -f /verif/build/evidence_$PROP.keep ] && mv /verif/build/evidence_$PROP.keep /verif/evidence/$PROP.json
echo "check exit=$RC"
