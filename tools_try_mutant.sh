#!/bin/sh
# usage: tools_try_mutant.sh <patch> <prop> [tier]   — applies the patch to /repo, runs the check, reverts
set -u
P="$1"; PROP="$2"; TIER="${3:-quick}"
cd /repo || exit 3
git apply --check "$P" || { echo "patch does not apply"; exit 3; }
git apply "$P"
cd /verif && ./check "$PROP" --tier "$TIER"; RC=$?
git -C /repo checkout -- .
echo "check exit=$RC"
