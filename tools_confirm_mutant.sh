#!/bin/sh
# usage: tools_confirm_mutant.sh <id-dir-with patch.diff demo_test.rs> <relative source file the demo is appended to>
# confirms: patch applies, compiles, existing tests pass, demo fails with the patch and passes without it.
D="$1"; F="$2"
WT=/tmp/confirm_wt; export CARGO_TARGET_DIR=/tmp/confirm_target
[ -d $WT ] || git -C /repo worktree add -q --detach $WT HEAD
cd $WT && git checkout -q --detach $(git -C /repo rev-parse HEAD) && git checkout -- . && git clean -fdq
git apply "$D/patch.diff" || { echo "CONFIRM: patch does not apply"; exit 1; }
python3 /verif/tools_insert_demo.py "$F" "$D/demo_test.rs"
cargo test -p saito-core --lib --offline 2>&1 | grep -E "^test .*FAILED|test result" > /tmp/confirm_with.txt
echo "--- with patch:"; cat /tmp/confirm_with.txt
git apply -R "$D/patch.diff"
cargo test -p saito-core --lib --offline mutant_demo 2>&1 | grep -E "^test |test result" > /tmp/confirm_without.txt
echo "--- without patch (demo only):"; cat /tmp/confirm_without.txt
git checkout -- . 
