#!/usr/bin/env python3
"""usage: tools_insert_demo.py <source file> <demo_test.rs>
inserts the demo test(s) inside the file's test module: before the closing brace that precedes the cfg(saito_verif)
replay hook (or the last closing brace of the file). A demo that brings its own `mod` is appended at the end instead."""
import sys, re
src, demo = sys.argv[1], sys.argv[2]
d = "".join(l for l in open(demo) if not l.startswith("// append to") and not l.startswith("// This file must be appended"))
s = open(src).read()
if re.search(r"^\s*(#\[cfg\(test\)\]\s*)?mod\s+\w+\s*\{", d, re.M):
    s = s + "\n" + d
else:
    hook = s.find("#[cfg(all(test, saito_verif))]")
    end = hook if hook >= 0 else len(s)
    k = s.rfind("}", 0, end)
    s = s[:k] + "\n" + d + "\n" + s[k:]
open(src, "w").write(s)
