#!/usr/bin/env python3
"""Regenerates MANIFEST.json from props/*.toml + manifest_meta.toml (so it stays valid at all times)."""
import json, os, tomllib, subprocess
ROOT = os.path.dirname(os.path.abspath(__file__))
meta = tomllib.load(open(os.path.join(ROOT, "manifest_meta.toml"), "rb"))
checks = []
claimed = set()
for pid in sorted(meta["claimed"]):
    m = meta["claimed"][pid]
    claimed.add(pid)
    checks.append({
        "property_id": pid,
        "quick_cmd": "./check %s --tier quick" % pid,
        "thorough_cmd": "./check %s --tier thorough" % pid,
        "evidence_file": "/verif/evidence/%s.json" % pid,
        "replay_cmd_template": "./check %s --replay {path}" % pid,
        "engine": "vf",
        "level_claimed": {"category": "proof", "text": m["text"], "design_ref": m.get("design_ref", "DESIGN.md §5")},
        "level_note": m["note"],
        "technique": m["technique"],
    })
na = [{"property_id": k, "reason": v} for k, v in sorted(meta["not_applicable"].items()) if k not in claimed]
hooks = subprocess.run(["git", "-C", "/repo", "log", "--format=%h %s", "--grep", "^verif hook"], stdout=subprocess.PIPE, text=True).stdout.strip().split("\n")
man = {
    "version": 1,
    "setup_cmd": "./setup.sh",
    "hooks": {
        "guard": "saito_verif",
        "enable": "RUSTFLAGS='--cfg saito_verif --cfg tokio_unstable' CARGO_TARGET_DIR=/verif/build/target cargo test -p saito-core --lib --offline <module>::verif_replay  (Verus/Kani need no hook: they read text extracted from /repo's working tree)",
        "baseline_off_cmd": "cd /repo && cargo test --workspace --no-fail-fast --offline",
        "source_commits": [h.split()[0] for h in hooks if h],
        "add_only": True,
    },
    "engines": [{"name": "vf", "path": "/verif/vf", "serves_properties": sorted(claimed),
                 "kind_free_text": "mechanical extractor (functions/structs re-extracted from /repo each run) + contract overlay templates (units/*.vt) → single-file Verus units; Kani on the same extracted text (thorough); in-crate replay modules run the real functions"}],
    "checks": checks,
    "not_applicable": na,
    "notes": meta.get("notes", ""),
}
json.dump(man, open(os.path.join(ROOT, "MANIFEST.json"), "w"), indent=1)
print("MANIFEST.json: %d checks, %d not applicable" % (len(checks), len(na)))
