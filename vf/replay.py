"""Replay / witness search against the REAL crate: in-crate test modules under
/verif/replay/in_crate, compiled into saito-core's test build through the
cfg(saito_verif) hook lines."""
import json
import os
import re
import subprocess
import time

ROOT = os.path.dirname(os.path.dirname(os.path.abspath(__file__)))
REPO = os.environ.get("VERIF_REPO", "/repo")
TARGET = os.environ.get("VERIF_TARGET", os.path.join(ROOT, "build", "target"))


def cargo_env(seed):
    env = dict(os.environ)
    env["RUSTFLAGS"] = "--cfg saito_verif --cfg tokio_unstable --check-cfg cfg(saito_verif)"
    env["CARGO_TARGET_DIR"] = TARGET
    env["CARGO_NET_OFFLINE"] = "true"
    env["VERIF_SEED"] = str(seed)
    env["RUST_BACKTRACE"] = "0"
    env.pop("RUSTUP_TOOLCHAIN", None)
    return env


_TIMED_OUT = {"n": 0}


def cargo_test(filters, seed, extra_env=None, timeout=420):
    env = cargo_env(seed)
    if extra_env:
        env.update(extra_env)
    if _TIMED_OUT["n"] > 0:
        # one twin run of this check has already failed to come back: the code under test hangs, further runs get little time
        timeout = min(timeout, 120)
    cmd = ["cargo", "test", "-p", "saito-core", "--lib", "--offline", "--"] + list(filters) + ["--test-threads", "4"]
    t0 = time.time()
    # the crate's tests keep blocks and wallets in ./data under the crate directory: two test processes (checks of two
    # properties running side by side) would trample each other's files — one at a time
    import fcntl
    os.makedirs(os.path.join(ROOT, "build"), exist_ok=True)
    lock = open(os.path.join(ROOT, "build", "twin.lock"), "w")
    fcntl.flock(lock, fcntl.LOCK_EX)
    try:
        # own process group: a twin that does not come back (a change that makes the node loop for ever) is killed with the
        # test binary cargo started, and counts as failed — a check must always return
        import signal
        p = subprocess.Popen(cmd, cwd=REPO, env=env, stdout=subprocess.PIPE, stderr=subprocess.STDOUT, text=True, start_new_session=True)
        try:
            out, _ = p.communicate(timeout=timeout)
            code = p.returncode
        except subprocess.TimeoutExpired:
            try:
                os.killpg(p.pid, signal.SIGKILL)
            except ProcessLookupError:
                pass
            out, _ = p.communicate()
            out = (out or "") + "\nTIMEOUT after %d s" % timeout
            code = -1
            _TIMED_OUT["n"] += 1
    finally:
        fcntl.flock(lock, fcntl.LOCK_UN)
        lock.close()
    return {"cmd": " ".join(cmd), "exit": code, "output": out, "wall": time.time() - t0}


def parse(out):
    passed = re.findall(r"^test (\S+) \.\.\. ok", out, re.M)
    failed = re.findall(r"^test (\S+) \.\.\. FAILED", out, re.M)
    # with --nocapture the result may be printed after other output on the same line
    passed += re.findall(r"test (\S+) \.\.\. .*?\bok$", out, re.M)
    wit = re.findall(r"^WITNESS: (.*)$", out, re.M)
    built = "running " in out or "test result" in out
    if "\nTIMEOUT after" in out:
        # tests that were started and never reported: they did not return within the time limit (with --test-threads the
        # harness prints `test X ...` lines only on completion, so what is missing from passed/failed among the filters is unknown:
        # the run as a whole is reported as one failing pseudo-test)
        failed = sorted(set(failed + ["(no result within the time limit) " + " ".join(re.findall(r"^test (\S+) has been running for over", out, re.M))[:200]]))
    if wit and not failed:
        # a watchdog test that had to kill the process (non-termination witness): the harness never prints FAILED
        started = re.findall(r"^test (\S+) \.\.\. *$", out, re.M) or re.findall(r"^test (\S+) \.\.\. WITNESS", out, re.M)
        failed = started or ["(process exited) " + wit[0][:60]]
    return sorted(set(passed)), sorted(set(failed)), wit, built


def run_tests(filters, seed):
    r = cargo_test(filters, seed)
    passed, failed, wit, built = parse(r["output"])
    status = "ok" if built else "build-failed"
    return {"status": status, "passed": passed, "failed": failed, "witnesses": wit, "wall": round(r["wall"], 1),
            "cmd": r["cmd"], "output": r["output"], "n_run": len(passed) + len(failed)}


_RESULTS = {}


def search_witness(tests, seed):
    """tests: list of {match, test, [env]} → run each until one fails on the real code (one run per test and check:
    several failing obligations of one function usually share their witness)"""
    tried = []
    for t in tests:
        key = (t["test"], seed, json.dumps(t.get("env"), sort_keys=True))
        if key not in _RESULTS:
            _RESULTS[key] = cargo_test([t["test"]], seed, t.get("env"))
        r = _RESULTS[key]
        passed, failed, wit, built = parse(r["output"])
        tried.append({"test": t["test"], "built": built, "failed": failed, "wall": round(r["wall"], 1)})
        if failed:
            return {"kind": "real-crate-replay", "found": True, "test": t["test"], "env": t.get("env", {}), "seed": seed,
                    "witness": wit, "cmd": "RUSTFLAGS='--cfg saito_verif --cfg tokio_unstable' CARGO_TARGET_DIR=%s %s" % (TARGET, r["cmd"]),
                    "output": r["output"][r["output"].rfind("Running unittests"):][-4000:], "tried": tried}
    return {"kind": "real-crate-replay", "found": False, "tried": tried, "seed": seed}


def rerun(path, pid):
    with open(path) as f:
        rec = json.load(f)
    w = rec.get("witness") or {}
    if w.get("real_code_replay"):
        w = w["real_code_replay"]
    print("obligation: %s" % rec["obligation"])
    print("verifier: %s" % rec["verifier_message"])
    if not w.get("found") or not w.get("test"):
        print("no failing input recorded for this obligation (verifier output only):")
        print(rec.get("verifier_output", ""))
        return 0
    r = cargo_test([w["test"]], w.get("seed", 0), w.get("env"))
    passed, failed, wit, built = parse(r["output"])
    print(r["output"][-3000:])
    if failed:
        print("VIOLATION property=%s replay=%s" % (pid, path))
        return 1
    print("replay no longer fails")
    return 0
