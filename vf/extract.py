"""Locate items in a Rust source file by name (never by line number) and return
their token streams."""
import os
from .lexer import lex, match_close, Tok, emit_trim

REPO = os.environ.get("VERIF_REPO", "/repo")


class AnchorLost(Exception):
    pass


_cache = {}


def tokens_of(path):
    full = path if os.path.isabs(path) else os.path.join(REPO, path)
    st = os.stat(full)
    key = (full, st.st_mtime_ns, st.st_size)
    if key not in _cache:
        with open(full) as f:
            _cache[key] = lex(f.read())
    return _cache[key]


def _skip_attrs_back(toks, i):
    """i points at first token of an item head (e.g. `pub` or `fn`); walk back
    over `#[...]` attributes; return start index including attributes."""
    j = i
    while j >= 2 and toks[j - 1].text == "]":
        # find matching [
        depth = 0
        k = j - 1
        while k >= 0:
            if toks[k].text == "]":
                depth += 1
            elif toks[k].text == "[":
                depth -= 1
                if depth == 0:
                    break
            k -= 1
        if k >= 1 and toks[k - 1].text == "#":
            j = k - 1
        else:
            break
    return j


QUALS = {"pub", "async", "const", "unsafe", "extern", "default"}


def _head_start(toks, kw_idx):
    """walk back from the keyword (`fn`, `struct`, ...) over qualifiers such as
    `pub`, `pub(crate)`, `async`."""
    i = kw_idx
    while i > 0:
        p = toks[i - 1]
        if p.kind == "id" and p.text in QUALS:
            i -= 1
        elif p.text == ")" and i >= 4 and toks[i - 4].text == "pub" and toks[i - 3].text == "(":
            i -= 4
        elif p.kind == "str" and i >= 2 and toks[i - 2].text == "extern":
            i -= 1
        else:
            break
    return i


def _top_level_items(toks, lo, hi):
    """yield (keyword_index) for item keywords at bracket depth 0 within toks[lo:hi]."""
    depth = 0
    i = lo
    while i < hi:
        t = toks[i]
        if t.kind == "punct" and t.text in "([{":
            depth += 1
        elif t.kind == "punct" and t.text in ")]}":
            depth -= 1
        elif depth == 0 and t.kind == "id" and t.text in ("fn", "struct", "enum", "impl", "const", "type", "trait", "mod", "static"):
            yield i
        i += 1


def find_impl_bodies(toks, type_name, trait=None):
    """all `impl [Trait for] type_name {` blocks: list of (open_idx, close_idx)"""
    out = []
    for i in _top_level_items(toks, 0, len(toks)):
        if toks[i].text != "impl":
            continue
        # header up to `{`
        j = i + 1
        while toks[j].text != "{":
            j += 1
        header = toks[i + 1:j]
        texts = [t.text for t in header]
        # strip leading generics
        if "for" in texts:
            k = texts.index("for")
            tr = texts[:k]
            ty = texts[k + 1:]
        else:
            tr = None
            ty = texts
        # self type name = first identifier of ty (skipping generics params at start `<...>`)
        tyname = None
        d = 0
        for x in ty:
            if x == "<":
                d += 1
            elif x == ">":
                d -= 1
            elif d == 0 and x not in ("&", "mut", "dyn", "where") and (x[0].isalpha() or x[0] == "_"):
                tyname = x
                break
        if tyname != type_name:
            continue
        if trait is None and tr is not None:
            continue
        if trait is not None and (tr is None or trait not in tr):
            continue
        out.append((j, match_close(toks, j)))
    return out


class FnItem:
    def __init__(self, toks, start, kw, body_open, body_close):
        self.attrs = toks[start:_head_start(toks, kw)]
        self.sig = toks[_head_start(toks, kw):body_open]
        self.body = toks[body_open:body_close + 1]
        self.line = toks[kw].line


def _find_fn_in(toks, lo, hi, name):
    hits = []
    for i in _top_level_items(toks, lo, hi):
        if toks[i].text == "fn" and toks[i + 1].text == name:
            # skip `fn` that is part of a type like `Fn(..)`: keyword `fn` followed by ident is an item
            j = i + 2
            # find body `{` at depth 0 (skip generics/params/where)
            depth = 0
            while True:
                t = toks[j]
                if t.text in "([":
                    depth += 1
                elif t.text in ")]":
                    depth -= 1
                elif t.text == "{" and depth == 0:
                    break
                elif t.text == ";" and depth == 0:
                    j = None
                    break
                j += 1
            if j is None:
                continue
            hs = _head_start(toks, i)
            st = _skip_attrs_back(toks, hs)
            hits.append(FnItem(toks, st, i, j, match_close(toks, j)))
    return hits


def find_fn(path, qual):
    """qual: `Type::name`, `Type as Trait::name` or `name` (free function)."""
    toks = tokens_of(path)
    hits = []
    if "::" in qual:
        ty, name = qual.rsplit("::", 1)
        trait = None
        if " as " in ty:
            ty, trait = [x.strip() for x in ty.split(" as ")]
        bodies = find_impl_bodies(toks, ty, trait)
        for (o, c) in bodies:
            hits += _find_fn_in(toks, o + 1, c, name)
    else:
        hits = _find_fn_in(toks, 0, len(toks), qual)
    # prefer non-cfg(test) variants: drop those whose attrs contain cfg(test) exactly
    def is_cfg_test(f):
        s = "".join(t.text for t in f.attrs)
        return "#[cfg(test)]" in s
    non_test = [h for h in hits if not is_cfg_test(h)]
    if len(non_test) == 1:
        return non_test[0]
    if len(hits) == 1:
        return hits[0]
    raise AnchorLost("%s: %s found %d times" % (path, qual, len(hits)))


def find_adt(path, kind, name):
    """struct/enum definition: returns (attr_toks, head_toks, body_toks or None)"""
    toks = tokens_of(path)
    for i in _top_level_items(toks, 0, len(toks)):
        if toks[i].text == kind and toks[i + 1].text == name:
            j = i + 2
            depth = 0
            while True:
                t = toks[j]
                if t.text == "{" and depth == 0:
                    c = match_close(toks, j)
                    break
                if t.text == "(" and depth == 0:
                    c = match_close(toks, j)
                    # tuple struct: ends at `;`
                    while toks[c].text != ";":
                        c += 1
                    break
                if t.text == ";" and depth == 0:
                    c = j
                    break
                if t.text == "<":
                    depth += 1
                if t.text == ">":
                    depth -= 1
                j += 1
            hs = _head_start(toks, i)
            st = _skip_attrs_back(toks, hs)
            return toks[st:hs], toks[hs:j], toks[j:c + 1]
    raise AnchorLost("%s: %s %s not found" % (path, kind, name))


def find_const(path, name):
    toks = tokens_of(path)
    for i in _top_level_items(toks, 0, len(toks)):
        if toks[i].text in ("const", "type", "static") and toks[i + 1].text == name:
            j = i
            while toks[j].text != ";":
                if toks[j].text in "([{":
                    j = match_close(toks, j)
                j += 1
            return toks[_head_start(toks, i):j + 1]
    raise AnchorLost("%s: const/type %s not found" % (path, name))


def split_fields(body):
    """body = `{ ... }` token list of a struct/enum; returns list of token lists (one per field/variant,
    attributes included)."""
    inner = body[1:-1]
    out = []
    cur = []
    depth = 0
    ang = 0
    for t in inner:
        if t.kind == "punct":
            if t.text in "([{":
                depth += 1
            elif t.text in ")]}":
                depth -= 1
            elif t.text == "<":
                ang += 1
            elif t.text == ">" and ang > 0:
                ang -= 1
            elif t.text == ">>" and ang > 1:
                ang -= 2
            elif t.text == "," and depth == 0 and ang == 0:
                if cur:
                    out.append(cur)
                cur = []
                continue
        cur.append(t)
    if cur:
        out.append(cur)
    return out


def strip_attrs(toks):
    """remove leading `#[...]` attribute groups of a field/variant"""
    i = 0
    while i < len(toks) and toks[i].text == "#" and i + 1 < len(toks) and toks[i + 1].text == "[":
        i = match_close(toks, i + 1) + 1
    return toks[i:]


def field_name(toks):
    toks = strip_attrs(toks)
    i = 0
    if toks[i].text == "pub":
        i += 1
        if toks[i].text == "(":
            i = match_close(toks, i) + 1
    return toks[i].text
