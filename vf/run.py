"""Run Verus on generated units, name failed obligations, vacuity guards."""
import json
import os
import re
import subprocess
import time
from . import gen as G
from .extract import AnchorLost
from .rewrite import RuleMismatch
from .lexer import LexError

ROOT = os.path.dirname(os.path.dirname(os.path.abspath(__file__)))
BUILD = os.path.join(ROOT, "build")
RLIMIT = os.environ.get("VERIF_RLIMIT", "200")

ASSUME_PAT = re.compile(r"\b(assume\s*\(|admit\s*\(|external_body|assume_specification|uninterp\b|external_type_specification|external_fn_specification|#\[verifier::external\]|axiom\b)")


class Undecided(Exception):
    """machinery / anchor problem: exit 2, never an alarm"""

    def __init__(self, kind, msg):
        Exception.__init__(self, "%s: %s" % (kind, msg))
        self.kind = kind


def generate(unit):
    try:
        return G.generate(unit)
    except AnchorLost as e:
        raise Undecided("anchor-lost", str(e))
    except RuleMismatch as e:
        raise Undecided("rule-mismatch", str(e))
    except (G.TemplateError, LexError) as e:
        raise Undecided("template-error", str(e))


def run_verus(path, extra=()):
    t0 = time.time()
    cmd = ["verus", path, "--output-json", "--time", "--multiple-errors", "20", "--rlimit", RLIMIT] + list(extra) + ["--", "--error-format=json"]
    p = subprocess.run(cmd, stdout=subprocess.PIPE, stderr=subprocess.PIPE, text=True, cwd=os.path.dirname(path))
    wall = time.time() - t0
    try:
        out = json.loads(p.stdout)
    except Exception:
        out = None
    diags = []
    for ln in p.stderr.split("\n"):
        ln = ln.strip()
        if ln.startswith("{"):
            try:
                diags.append(json.loads(ln))
            except Exception:
                pass
    return {"cmd": " ".join(cmd), "exit": p.returncode, "json": out, "diags": diags, "stderr": p.stderr, "wall": wall, "path": path}


def fn_of_line(g, line):
    for f in g.fns:
        if f["lo"] <= line <= f["hi"]:
            return f
    return None


def item_of_line(lines, line):
    """nearest preceding `fn name` for lines outside extracted functions (lemmas, stubs)"""
    for k in range(min(line, len(lines)) - 1, -1, -1):
        m = re.search(r"\bfn\s+([A-Za-z0-9_]+)", lines[k])
        if m:
            return m.group(1)
    return "?"


KIND_MAP = [
    ("postcondition not satisfied", "ensures"),
    ("precondition not satisfied", "call-precondition"),
    ("invariant not satisfied before loop", "invariant-init"),
    ("invariant not satisfied at end of loop body", "invariant-step"),
    ("loop invariant not satisfied", "invariant-continue"),
    ("assertion failed", "assert"),
    ("possible arithmetic underflow/overflow", "arith-overflow"),
    ("possible division by zero", "div-zero"),
    ("decreases not satisfied", "decreases"),
    ("recommendation not met", "recommends"),
]


def _call_site(sp, path):
    """a diagnostic raised inside a macro (`unreachable!()`, `assert!`) carries the macro's own file as span; the place in
    the unit is the call site recorded under `expansion`"""
    seen = 0
    cur = sp
    while cur and os.path.basename(cur.get("file_name", "")) != os.path.basename(path) and seen < 8:
        exp = cur.get("expansion")
        if not exp or not exp.get("span"):
            return sp
        nxt = dict(exp["span"])
        nxt["is_primary"] = sp.get("is_primary")
        cur = nxt
        seen += 1
    return cur or sp


def classify(res, g):
    """→ (compile_errors, failures[]) ; failure = dict(label, fn, kind, line, text, message, rendered)"""
    compile_errors = []
    fails = []
    for d in res["diags"]:
        if d.get("level") != "error":
            continue
        msg = d.get("message", "")
        if msg.startswith("aborting due to") or msg.startswith("For more information"):
            continue
        spans = [_call_site(sp, res.get("path", "")) for sp in d.get("spans", [])]
        kind = None
        for pre, k in KIND_MAP:
            if pre in msg:
                kind = k
                break
        if kind is None:
            if d.get("code") or not spans or "rlimit" in msg.lower() or "resource limit" in msg.lower():
                compile_errors.append(d)
                continue
            # unknown verification message: treat as verification failure of unknown kind
            kind = "other:" + msg[:60]
        prim = [s for s in spans if s.get("is_primary")] or spans
        # prefer the clause Verus points at (primary span), then short secondary spans; a long span (a whole
        # function body / loop) would sweep up unrelated labelled lines
        ordered = sorted(spans, key=lambda sp: (0 if sp.get("is_primary") else 1, sp["line_end"] - sp["line_start"]))
        label = None
        for sp in ordered:
            last = sp["line_end"]
            if sp["line_end"] - sp["line_start"] > 6:
                # a long clause (a multi-line `==> ({ … })`): only a label on its first line names it; a long span that
                # is a whole body / loop must not sweep up labels of the lines it contains
                if not sp.get("is_primary"):
                    continue
                last = sp["line_start"]
            for ln in range(sp["line_start"], last + 1):
                if ln in g.labels:
                    label = g.labels[ln]
                    break
            if label:
                break
        pline = prim[0]["line_start"] if prim else 0
        f = fn_of_line(g, pline)
        fn = f["qual"] if f else item_of_line(g.lines, pline)
        text = " ".join(t["text"].strip() for t in prim[0]["text"])[:200] if prim else ""
        if label is None:
            # name by function + kind + the text of the offending expression
            hl = ""
            if prim and prim[0]["text"]:
                t0 = prim[0]["text"][0]
                hl = t0["text"][t0["highlight_start"] - 1:t0["highlight_end"] - 1].strip()
                if len(prim[0]["text"]) > 1:
                    hl += " …"
            # a failing Verus `assert` is a proof step written in the overlay (run-time assert!s are vassert call
            # preconditions), so it is not a panic obligation
            grp = "safety"
            if kind in ("assert", "ensures", "invariant-init", "invariant-step", "invariant-continue", "decreases") or \
                    (kind == "call-precondition" and re.match(r"(lemma|axiom)_", hl)):
                grp = "proof"
            label = "%s/%s.%s[%s]" % (fn, grp, kind, re.sub(r"\s+", " ", hl)[:80])
        fails.append({"label": label, "fn": fn, "kind": kind, "line": pline, "text": text,
                      "message": msg, "rendered": d.get("rendered", "")})
    return compile_errors, fails


def breakdown(res):
    out = []
    j = res["json"]
    if not j:
        return out
    try:
        for m in j["times-ms"]["smt"]["smt-run-module-times"]:
            for f in m.get("function-breakdown", []):
                out.append({"function": f["function"].split("::", 1)[-1], "mode": f.get("mode:", f.get("mode")),
                            "ms": f["time"], "rlimit": f["rlimit"], "success": f["success"]})
    except KeyError:
        pass
    return out


def scan_assumptions(g):
    found = []
    for i, ln in enumerate(g.lines):
        if "// proved-in-unit" in ln:
            continue
        code = ln.split("//")[0]
        m = ASSUME_PAT.search(code)
        if m:
            # name of the item it applies to: next `fn`/`struct` line
            name = "?"
            ms = re.search(r"assume_specification\s*(?:<[^\[]*>)?\s*\[([^\]]+)\]", ln)
            if ms:
                found.append("assume_specification: " + ms.group(1).strip())
                continue
            for k in range(i, min(i + 12, len(g.lines))):
                mm = re.search(r"\b(?:fn|struct|type)\s+([A-Za-z0-9_]+)", g.lines[k])
                if mm:
                    name = mm.group(1)
                    break
            found.append("%s: %s" % (m.group(1).strip(" ("), name))
    return sorted(set(found))


def vacuity_variant(g):
    """text where every extracted function starts with `proof { assert(false); }`;
    returns (text, {line: fn})"""
    lines = list(g.lines)
    marks = {}
    out = []
    fn_at = {}
    for f in g.fns:
        # first line at/after the signature consisting of `{` that opens the body:
        # the generator emits the body starting with `{` on its own line start
        for ln in range(f["lo"], f["hi"] + 1):
            s = lines[ln - 1]
            if s.startswith("{"):
                fn_at[ln] = f["qual"]
                break
    for idx, s in enumerate(lines, start=1):
        if idx in fn_at:
            out.append("{ proof { assert(false); } // VACUITY-PROBE")
            marks[len(out)] = fn_at[idx]
            rest = s[1:]
            out.append(rest)
        else:
            out.append(s)
    return "\n".join(out) + "\n", marks


def unannotated_loops(g):
    """per function: first header line of every non-empty loop that carries neither invariant nor decreases"""
    out = {}
    lines = g.text().split("\n")
    for f in g.fns:
        body = "\n".join(lines[f["lo"] - 1:f["hi"]])
        for m in re.finditer(r"(?m)^[ \t]*(?:'[a-z_]+:\s*)?(for\b[^;{]*\bin\b|while\b|loop\b)", body):
            seg = body[m.start():]
            hdr = []
            for ln in seg.split("\n"):
                hdr.append(ln)
                if ln.rstrip().endswith("{"):
                    break
            head = "\n".join(hdr)
            ob = body.find("{", m.start() + len(head) - 1)
            depth, q = 0, ob
            while q >= 0 and q < len(body):
                if body[q] == "{":
                    depth += 1
                elif body[q] == "}":
                    depth -= 1
                    if depth == 0:
                        break
                q += 1
            if ob >= 0 and body[ob + 1:q].strip() == "":
                continue
            if "invariant" not in head and "decreases" not in head:
                out.setdefault(f["qual"], []).append(" ".join(head.strip().split("\n")[0].split()))
    return out


def check_unit(unit, tier="quick", vacuity=True):
    """returns dict with everything the driver needs"""
    g = generate(unit)
    # one directory per property run, so that checks of properties sharing a unit can run concurrently
    gen_dir = os.path.join(BUILD, "gen", os.environ.get("VERIF_GEN_SUBDIR", ""))
    os.makedirs(gen_dir, exist_ok=True)
    path = os.path.join(gen_dir, unit + ".rs")
    with open(path, "w") as f:
        f.write(g.text())
    res = run_verus(path)
    if res["json"] is None:
        raise Undecided("verus-crashed", res["stderr"][-2000:])
    cerr, fails = classify(res, g)
    if cerr:
        msgs = "; ".join((d.get("message") or "")[:200] + " @" + str((d.get("spans") or [{}])[0].get("line_start")) for d in cerr[:5])
        raise Undecided("unsupported-construct", "%s: %s" % (unit, msgs))
    bd = breakdown(res)
    vr = res["json"]["verification-results"]
    if vr.get("encountered-vir-error") or (not bd and (fails or vr.get("encountered-error"))):
        # syntax / mode / type errors reported without an error code: nothing was verified
        msgs = "; ".join((d.get("message") or "")[:160] for d in res["diags"] if d.get("level") == "error")[:600]
        raise Undecided("unsupported-construct", "%s: %s" % (unit, msgs))
    # resource-out is undecided, not a failure
    if "rlimit" in res["stderr"].lower() and "exceeded" in res["stderr"].lower():
        raise Undecided("rlimit", unit)
    # a failed obligation in a function that contains a loop WITHOUT an invariant that the committed baseline does not know
    # (assumptions/<unit>.loops: the unannotated loops of the unchanged tree, which verify as they are) is undecided, not a
    # violation: the loop is text the template does not know (a refactoring turned an iterator adapter into a loop, say) and
    # nothing can be proved across it - the twins decide (bounded), never an alarm from a missing proof
    loops_now = unannotated_loops(g)
    base_p = os.path.join(ROOT, "assumptions", unit + ".loops")
    known_loops = set()
    if os.path.exists(base_p):
        known_loops = set(l.rstrip("\n") for l in open(base_p) if l.strip() and not l.startswith("#"))
    if fails:
        for f in g.fns:
            if not any(x.get("fn") == f["qual"] for x in fails):
                continue
            for head in loops_now.get(f["qual"], []):
                if f["qual"] + " :: " + head not in known_loops:
                    raise Undecided("unannotated-loop", "%s: %s has a loop without an invariant that the baseline does not list (`%s`): failed obligations there are undecided" % (unit, f["qual"], head[:80]))
    names = [b["function"] for b in bd]
    missing = [f["qual"] for f in g.fns if not any(n.split("::")[-1] == f["rust_name"] for n in names)]
    vac = {"probed": 0, "vacuous": []}
    if vacuity:
        vtext, marks = vacuity_variant(g)
        vpath = os.path.join(gen_dir, unit + "__vac.rs")
        with open(vpath, "w") as f:
            f.write(vtext)
        vres = run_verus(vpath)
        hit = set()
        for d in vres["diags"]:
            if d.get("level") == "error" and "assertion failed" in d.get("message", ""):
                for s in d.get("spans", []):
                    if s["line_start"] in marks:
                        hit.add(marks[s["line_start"]])
        vac["probed"] = len(marks)
        vac["vacuous"] = sorted(set(marks.values()) - hit)
        vac["wall"] = vres["wall"]
    return {
        "unit": unit, "gen": g, "stub_units": g.stub_units, "path": path, "res": res, "fails": fails, "breakdown": bd,
        "verified": vr.get("verified", 0), "errors": vr.get("errors", 0),
        "missing_fns": missing, "vacuity": vac, "assumptions": scan_assumptions(g),
        "smt_ms": sum(b["ms"] for b in bd), "wall": res["wall"], "unannotated_loops": loops_now,
    }
