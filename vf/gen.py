"""Template (.vt) → Verus file.  The template holds contracts, spec functions and
lemmas; every executable function body, struct, enum and constant is pulled from
/repo's working tree at generation time."""
import os
import re
import shlex
from . import extract
from .extract import AnchorLost
from .lexer import lex, emit, emit_trim, match_close, Tok
from . import rewrite as rw
from .rewrite import RuleMismatch

UNITS_DIR = os.path.join(os.path.dirname(os.path.dirname(os.path.abspath(__file__))), "units")
SRC_ROOTS = ["saito-core/src", "saito-rust/src", "saito-wasm/src"]


class TemplateError(Exception):
    pass


_path_cache = {}


def resolve(path):
    if "/" in path:
        return path
    if path in _path_cache:
        return _path_cache[path]
    hits = []
    for root in SRC_ROOTS:
        for d, _, fs in os.walk(os.path.join(extract.REPO, root)):
            if path in fs:
                hits.append(os.path.relpath(os.path.join(d, path), extract.REPO))
    if len(hits) != 1:
        raise AnchorLost("source file %s: %d candidates" % (path, len(hits)))
    _path_cache[path] = hits[0]
    return hits[0]


def parse_opts(words):
    opts = {}
    pos = []
    for w in words:
        if "=" in w and not w.startswith('"'):
            k, v = w.split("=", 1)
            opts[k] = v
        else:
            pos.append(w)
    return pos, opts


def name_return(sig):
    """`-> T` → `-> (ret: T)`; returns new token list"""
    depth = 0
    ang = 0
    seen_params = False
    for i, t in enumerate(sig):
        if t.text in "([":
            depth += 1
        elif t.text in ")]":
            depth -= 1
            if depth == 0 and ang == 0 and t.text == ")":
                seen_params = True
        elif t.text == "<" and depth == 0 and not seen_params:
            ang += 1
        elif t.text == ">" and depth == 0 and not seen_params and ang > 0:
            ang -= 1
        elif t.text == ">>" and depth == 0 and not seen_params and ang > 1:
            ang -= 2
        elif t.text == "->" and depth == 0 and ang == 0 and seen_params:
            j = len(sig)
            for k in range(i + 1, len(sig)):
                if sig[k].text == "where" and sig[k].kind == "id":
                    j = k
                    break
            ty = sig[i + 1:j]
            new = sig[:i + 1] + lex(" (ret: " + emit_trim(ty) + ")") + sig[j:]
            return new
    return sig


def strip_item_attrs(toks, keep_derive=False):
    return toks


class Gen:
    def __init__(self, unit_name):
        self.unit = unit_name
        self.lines = []
        self.labels = {}      # line number (1-based) → label
        self.label_text = {}  # label → clause text
        self.fns = []         # dicts: qual, lo, hi, src, src_line, kind
        self.rule_log = []    # (fn, rule, count)
        self.dropped = []     # what extraction dropped (struct fields, attrs)
        self.stub = False     # currently inside a stub-included unit
        self.stub_units = []  # units whose contracts are used here without re-proving them
        self.skip = set()     # ADT names the including unit defines itself
        self.plain = False    # plain Rust output (Kani units): no Verus-only syntax

    def cur_line(self):
        return len(self.lines) + 1

    def add(self, text, fn=None):
        for ln in text.split("\n"):
            self.lines.append(ln)
            if self.stub:
                continue
            m = re.search(r"//\s*\[((?:prop|pin|safety|lemma)\.[A-Za-z0-9_.\-]+)\]", ln)
            if m:
                lab = m.group(1)
                if fn:
                    lab = fn + "/" + lab
                self.labels[len(self.lines)] = lab
                self.label_text[lab] = ln.split("//")[0].strip().rstrip(",")

    def text(self):
        return "\n".join(self.lines) + "\n"


def apply_sections(body, sections, qual, g):
    """body: token list (`{ ... }`); sections: list of (kind, args, text)"""
    # 1. named rules + rw rules
    for kind, args, text in sections:
        if kind == "rules":
            for r in args:
                if r not in rw.NAMED_RULES:
                    raise TemplateError("unknown rule %s" % r)
                body, n = rw.NAMED_RULES[r](body)
                g.rule_log.append((qual, r, n))
        elif kind == "rw":
            pat, tmpl, count = args
            body, n = rw.rewrite(body, pat, tmpl, count=count, what="%s rw" % qual)
            g.rule_log.append((qual, "rw `%s` => `%s`" % (pat, tmpl), n))
    # 2. insertions (computed against the rewritten token list, applied back to front)
    inserts = []  # (token index, text)
    lp = None
    for kind, args, text in sections:
        if kind in ("loop", "loopend") and isinstance(args, tuple):
            # loop addressed by header text: the first loop at or after the nth match of the pattern
            if lp is None:
                lp = rw.loops(body)
            optional = len(args) > 2 and args[2]
            pat, nth = args[0], args[1]
            ms = rw.find_matches(body, pat)
            if len(ms) < nth:
                if optional:
                    # `//@loop? "header"`: the invariant only helps a clause along — without the loop the clause itself decides
                    continue
                raise RuleMismatch("%s: loop anchor `%s` #%d not found (%d matches)" % (qual, pat, nth, len(ms)))
            cand = [k for k, (kw, ob) in enumerate(lp) if kw >= ms[nth - 1][0]]
            if not cand:
                raise RuleMismatch("%s: no loop after anchor `%s`" % (qual, pat))
            args = cand[0] + 1
        if kind == "loop":
            if lp is None:
                lp = rw.loops(body)
            n = args
            if n < 1 or n > len(lp):
                raise RuleMismatch("%s: loop #%d not found (%d loops)" % (qual, n, len(lp)))
            inserts.append((lp[n - 1][1], "\n" + text + "\n"))
        elif kind == "loopend":
            if lp is None:
                lp = rw.loops(body)
            n = args
            if n < 1 or n > len(lp):
                raise RuleMismatch("%s: loop #%d not found (%d loops)" % (qual, n, len(lp)))
            inserts.append((match_close(body, lp[n - 1][1]), "\n" + text + "\n"))
        elif kind == "tail":
            inserts.append((len(body) - 1, "\n" + text + "\n"))
        elif kind == "at":
            pat, nth, where, optional = args
            ms = rw.find_matches(body, pat)
            if len(ms) < nth and optional:
                continue
            if len(ms) < nth:
                raise RuleMismatch("%s: anchor `%s` #%d not found (%d matches)" % (qual, pat, nth, len(ms)))
            s, e, _ = ms[nth - 1]
            if where == "before":
                idx = s
            elif where == "stmt":
                idx = rw.stmt_start(body, s)
            elif where == "after":
                idx = rw.stmt_end(body, s)
            elif where == "inside":
                # just after the first `{` following the match start
                j = s
                while body[j].text != "{":
                    j += 1
                idx = j + 1
            else:
                raise TemplateError("bad position %s" % where)
            inserts.append((idx, "\n" + text + "\n"))
    inserts.sort(key=lambda x: -x[0])
    out = list(body)
    for idx, text in inserts:
        marker = Tok("raw", text, "", 0)
        out.insert(idx, marker)
    return out


def emit_body(toks):
    return "".join((t.ws + t.text) if t.kind != "raw" else t.text for t in toks)


def parse_fn_block(lines):
    """lines after the //@fn header up to //@end → sections"""
    sections = []
    cur = None
    for ln in lines:
        s = ln.strip()
        if s.startswith("//@"):
            if cur:
                sections.append(tuple(cur))
                cur = None
            d = s[3:].strip()
            words = shlex.split(d, posix=True)
            if not words:
                continue
            if words[0] == "rules":
                sections.append(("rules", words[1:], ""))
            elif words[0] == "rw":
                # //@rw "pat" => "tmpl" [count]
                if words[2] != "=>":
                    raise TemplateError("bad rw: %s" % d)
                count = None
                if len(words) > 4:
                    count = words[4] if words[4] in ("+", "?") else (None if words[4] == "*" else int(words[4]))
                else:
                    count = "+"
                sections.append(("rw", (words[1], words[3], count), ""))
            elif words[0] == "sigrw":
                count = 1
                if len(words) > 4:
                    count = words[4] if words[4] in ("+", "?") else int(words[4])
                sections.append(("sigrw", (words[1], words[3], count), ""))
            elif words[0] == "spec":
                cur = ["spec", None, ""]
            elif words[0] == "loop?" and not words[1].isdigit():
                cur = ["loop", (words[1], int(words[2]) if len(words) > 2 else 1, True), ""]
            elif words[0] == "loop" and not words[1].isdigit():
                cur = ["loop", (words[1], int(words[2]) if len(words) > 2 else 1), ""]
            elif words[0] == "loopend" and not words[1].isdigit():
                cur = ["loopend", (words[1], int(words[2]) if len(words) > 2 else 1), ""]
            elif words[0] == "loop":
                cur = ["loop", int(words[1]), ""]
            elif words[0] == "tail":
                cur = ["tail", None, ""]
            elif words[0] == "loopend":
                cur = ["loopend", int(words[1]), ""]
            elif words[0] in ("at", "at?"):
                # `//@at? "anchor" …`: a proof hint that only helps a clause along — without the anchor the clause itself decides
                nth = 1
                where = "before"
                for w in words[2:]:
                    if w.isdigit():
                        nth = int(w)
                    else:
                        where = w
                cur = ["at", (words[1], nth, where, words[0] == "at?"), ""]
            elif words[0] == "attr":
                sections.append(("attr", None, d[len("attr"):].strip()))
            else:
                raise TemplateError("unknown directive //@%s" % words[0])
        else:
            if cur is None:
                if s:
                    raise TemplateError("text outside a section in fn block: %s" % ln)
                continue
            cur[2] += ("\n" if cur[2] else "") + ln
    if cur:
        sections.append(tuple(cur))
    return sections


def gen_fn(g, header_words, block_lines):
    pos, opts = parse_opts(header_words)
    path = resolve(pos[0])
    qual = pos[1]
    item = extract.find_fn(path, qual)
    sections = parse_fn_block(block_lines)
    sig, _ = rw.rule_R5([Tok(t.kind, t.text, t.ws, t.line) for t in item.sig])
    body, _ = rw.rule_R5([Tok(t.kind, t.text, t.ws, t.line) for t in item.body])
    shown = opts.get("as", qual)
    if "closure" in opts or "loopbody" in opts or "blockbody" in opts or "loopstmt" in opts:
        opts["closure"] = opts["closure"].strip('"') if "closure" in opts else None
        if opts["closure"] is None:
            del opts["closure"]
        # lift a closure literal / loop body into a named function; signature comes from the template
        fsig = None
        for kind, args, text in sections:
            if kind == "attr" and text.startswith("sig "):
                fsig = text[4:].strip()
        if not fsig:
            raise TemplateError("%s: lifted unit needs `//@attr sig fn name(..) -> T`" % qual)
        pre_rules = [s for s in sections if s[0] in ("rules", "rw")]
        # named rules first so that macro-wrapped iterators become visible
        body = apply_sections(body, [s for s in pre_rules if s[0] == "rules"], qual, g)
        if "closure" in opts:
            cl = opts["closure"]
            if cl.isdigit():
                st, a_lo, a_hi, b_lo, b_hi = rw.nth_closure(body, int(cl))
            else:
                # closure=<anchor text>: the first closure literal at or after the anchor
                ms = rw.find_matches(body, cl)
                if len(ms) != 1:
                    raise RuleMismatch("%s: closure anchor `%s` matched %d times" % (qual, cl, len(ms)))
                k = 1
                while True:
                    st, a_lo, a_hi, b_lo, b_hi = rw.nth_closure(body, k)
                    if st >= ms[0][0]:
                        break
                    k += 1
            params = emit_trim(body[a_lo:a_hi])
            inner = body[b_lo:b_hi]
            if inner[0].text != "{":
                inner = lex("{") + inner + lex("}")
            g.rule_log.append((qual, "R7 closure #%s |%s| lifted as `%s`" % (opts["closure"], params, fsig), 1))
        elif "blockbody" in opts:
            # blockbody="header text": the `{ … }` block that follows the anchor (e.g. the body of an `if let … =`)
            bb = opts["blockbody"].strip('"')
            ms = rw.find_matches(body, bb)
            if len(ms) != 1:
                raise RuleMismatch("%s: block anchor `%s` matched %d times (need 1)" % (qual, bb, len(ms)))
            o = ms[0][1]
            depth = 0
            while o < len(body) and not (body[o].text == "{" and depth == 0):
                if body[o].text in ("(", "["):
                    depth += 1
                elif body[o].text in (")", "]"):
                    depth -= 1
                o += 1
            if o >= len(body):
                raise RuleMismatch("%s: no block after anchor `%s`" % (qual, bb))
            c = match_close(body, o)
            inner = body[o:c + 1]
            g.rule_log.append((qual, "R7 block after `%s` lifted as `%s`" % (bb, fsig), 1))
        elif "loopstmt" in opts:
            # loopstmt="header text": the whole loop statement (keyword … closing brace) whose keyword sits at or after the anchor
            lp = rw.loops(body)
            lb = opts["loopstmt"].strip('"')
            ms = rw.find_matches(body, lb)
            if len(ms) != 1:
                raise RuleMismatch("%s: loop anchor `%s` matched %d times (need 1)" % (qual, lb, len(ms)))
            cand = [(kw, o) for (kw, o) in lp if kw >= ms[0][0]]
            if not cand:
                raise RuleMismatch("%s: no loop at or after anchor `%s`" % (qual, lb))
            kw, o = cand[0]
            c = match_close(body, o)
            inner = lex("{") + body[kw:c + 1] + lex("}")
            g.rule_log.append((qual, "R7 loop statement at `%s` lifted as `%s`" % (lb, fsig), 1))
        else:
            lp = rw.loops(body)
            lb = opts["loopbody"].strip('"')
            if lb.isdigit():
                n = int(lb)
            else:
                # loopbody="header text": the first loop whose keyword sits at or after the anchor
                ms = rw.find_matches(body, lb)
                if not ms:
                    raise RuleMismatch("%s: loop anchor `%s` not found" % (qual, lb))
                cand = [k for k, (kw, _) in enumerate(lp) if kw >= ms[0][0]]
                if not cand:
                    raise RuleMismatch("%s: no loop at or after anchor `%s`" % (qual, lb))
                n = cand[0] + 1
            if n > len(lp):
                raise RuleMismatch("%s: loop #%d not found (%d loops)" % (qual, n, len(lp)))
            o = lp[n - 1][1]
            c = match_close(body, o)
            inner = body[o:c + 1]
            g.rule_log.append((qual, "R7 loop body #%d lifted as `%s`" % (n, fsig), 1))
        sig = lex(fsig)
        body = inner
        sections = [s for s in sections if not (s[0] == "rules")]
    for kind, args, text in sections:
        if kind == "sigrw":
            pat, tmpl, count = args
            sig, n = rw.rewrite(sig, pat, tmpl, count=count, what="%s sigrw" % qual)
            g.rule_log.append((qual, "R9 signature: `%s` => `%s`" % (pat, tmpl), n))
    if not g.plain:
        sig = name_return(sig)
    sigtxt = emit_trim(sig)
    sigtxt2 = re.sub(r"^pub\s*\([^)]*\)\s*", "pub ", sigtxt)
    if not sigtxt2.startswith("pub "):
        sigtxt2 = "pub " + sigtxt2
    sig = lex(sigtxt2)
    body = apply_sections(body, sections, qual, g)
    spec = "\n".join(text for kind, args, text in sections if kind == "spec")
    attrs = [text for kind, args, text in sections if kind == "attr" and not text.startswith("sig ")]
    lo = g.cur_line()
    if g.stub:
        g.add("#[verifier::external_body] // proved-in-unit " + g.stub)
    for a in attrs:
        g.add(a)
    if not g.stub and not g.plain and opts.get("isolation") != "on":
        g.add("#[verifier::loop_isolation(false)]")
    g.add("// <extracted %s %s line %d>" % (path, qual, item.line))
    g.add(emit_trim(sig))
    if spec.strip():
        g.add(spec, fn=shown)
    if g.stub:
        g.add("{ unimplemented!() }")
    else:
        g.add(emit_body(body).lstrip(), fn=shown)
    hi = g.cur_line() - 1
    if g.stub:
        return
    mname = re.search(r"\bfn\s+([A-Za-z0-9_]+)", emit_trim(sig))
    g.fns.append({"qual": shown, "lo": lo, "hi": hi, "src": path, "src_line": item.line, "rust_name": mname.group(1) if mname else shown})


def gen_adt(g, kind, words):
    pos, opts = parse_opts(words)
    path = resolve(pos[0])
    name = pos[1]
    attrs, head, body = extract.find_adt(path, kind, name)
    if body and body[0].text == "{":
        fields = extract.split_fields(body)
        keep = opts.get("keep")
        keep = keep.split(",") if keep else None
        out = []
        dropped = []
        for f in fields:
            fl = extract.strip_attrs(f)
            nm = extract.field_name(f)
            if keep is not None and nm not in keep:
                dropped.append(nm)
                continue
            fl, _ = rw.rule_R5([Tok(t.kind, t.text, t.ws, t.line) for t in fl])
            txt = emit_trim(fl)
            if kind == "struct":
                # visibility is erased (single-file crate): every field `pub`
                txt = re.sub(r"^pub\s*\([^)]*\)\s*", "", txt)
                if not txt.startswith("pub "):
                    txt = "pub " + txt
            out.append(txt)
        if dropped:
            g.dropped.append("%s %s: fields dropped by projection: %s" % (kind, name, ", ".join(dropped)))
        if opts.get("ghost"):
            # ghost state added to the verified copy of the struct (erased at run time; stated in the evidence)
            for gf in opts["ghost"].split(","):
                gname, gty = gf.split(":", 1)
                out.append("pub %s: %s" % (gname, gty))
            g.dropped.append("%s %s: ghost field(s) added for the proof: %s" % (kind, name, opts["ghost"]))
        derive = opts.get("derive")
        if derive:
            g.add("#[derive(%s)]" % derive)
        g.add("// <extracted %s %s %s>" % (path, kind, name))
        headtxt = re.sub(r"^pub\s*\([^)]*\)\s*", "", emit_trim(head))
        if not headtxt.startswith("pub "):
            headtxt = "pub " + headtxt
        g.add(headtxt + " {")
        for f in out:
            g.add("    " + " ".join(f.split()) + ",")
        g.add("}")
        if kind == "enum" and opts.get("primitive"):
            gen_primitive(g, name, out, opts["primitive"])
    else:
        g.add(emit_trim(head) + emit_trim(body or []))


def gen_primitive(g, name, variants, prim):
    """R8: what #[derive(FromPrimitive, ToPrimitive)] generates, from the declared discriminants"""
    pairs = []
    nxt = 0
    for v in variants:
        if "=" in v:
            nm, d = [x.strip() for x in v.split("=", 1)]
            nxt = int(d.replace("_", ""), 0)
        else:
            nm = v.strip()
        pairs.append((nm, nxt))
        nxt += 1
    g.rule_log.append((name, "R8 from_%s/to_%s tables from discriminants" % (prim, prim), 1))
    g.add("impl %s {" % name)
    g.add("    pub open spec fn spec_from_%s(n: %s) -> Option<%s> {" % (prim, prim, name))
    g.add("        " + " ".join("if n == %d { Some(%s::%s) } else" % (d, name, nm) for nm, d in pairs) + " { None }")
    g.add("    }")
    g.add("    pub open spec fn spec_to_%s(self) -> %s {" % (prim, prim))
    g.add("        match self { " + " ".join("%s::%s => %d," % (name, nm, d) for nm, d in pairs) + " }")
    g.add("    }")
    g.add("    pub fn from_%s(n: %s) -> (ret: Option<%s>) ensures ret == Self::spec_from_%s(n) {" % (prim, prim, name, prim))
    g.add("        match n { " + " ".join("%d => Some(%s::%s)," % (d, name, nm) for nm, d in pairs) + " _ => None }")
    g.add("    }")
    g.add("    pub fn to_%s(&self) -> (ret: Option<%s>) ensures ret == Some(self.spec_to_%s()) {" % (prim, prim, prim))
    g.add("        Some(match self { " + " ".join("%s::%s => %d," % (name, nm, d) for nm, d in pairs) + " })")
    g.add("    }")
    g.add("    pub proof fn lemma_%s_roundtrip(self) ensures Self::spec_from_%s(self.spec_to_%s()) == Some(self) {}" % (prim, prim, prim))
    g.add("}")


def gen_const(g, words):
    pos, opts = parse_opts(words)
    path = resolve(pos[0])
    toks = extract.find_const(path, pos[1])
    toks, _ = rw.rule_R5(list(toks))
    g.add("// <extracted %s const/type %s>" % (path, pos[1]))
    txt = re.sub(r"^pub\s*\([^)]*\)\s*", "", emit_trim(toks))
    if not txt.startswith("pub "):
        txt = "pub " + txt
    g.add(txt)


def generate(unit_name, seen=None):
    g = Gen(unit_name)
    _gen_into(g, unit_name, seen or set())
    g.add("fn main() {}")
    return g


def _gen_into(g, unit_name, seen):
    if unit_name in seen:
        return
    seen.add(unit_name)
    path = os.path.join(UNITS_DIR, unit_name + ".vt")
    with open(path) as f:
        lines = f.read().split("\n")
    i = 0
    while i < len(lines):
        ln = lines[i]
        s = ln.strip()
        if s.startswith("//@"):
            words = shlex.split(s[3:].strip(), posix=True)
            d = words[0]
            if d == "plain":
                g.plain = True
            elif d == "include":
                for w in words[2:]:
                    if w.startswith("skip="):
                        g.skip |= set(w[5:].split(","))
                if len(words) > 2 and words[2] == "stub" and not g.stub:
                    g.stub = words[1]
                    if words[1] not in g.stub_units:
                        g.stub_units.append(words[1])
                    _gen_into(g, words[1], seen)
                    g.stub = False
                else:
                    _gen_into(g, words[1], seen)
            elif d in ("struct", "enum"):
                if words[2] in g.skip and (g.stub or unit_name != g.unit):
                    pass
                else:
                    gen_adt(g, d, words[1:])
            elif d in ("const", "type"):
                gen_const(g, words[1:])
            elif d == "fn":
                j = i + 1
                block = []
                while lines[j].strip() != "//@end":
                    block.append(lines[j])
                    j += 1
                    if j >= len(lines):
                        raise TemplateError("%s: //@fn without //@end (line %d)" % (unit_name, i + 1))
                gen_fn(g, words[1:], block)
                i = j
            else:
                raise TemplateError("%s: unknown directive %s" % (unit_name, d))
        elif s == "fn main() {}":
            pass
        else:
            g.add(ln)
        i += 1
