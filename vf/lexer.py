"""Minimal Rust lexer: enough to find items, balance brackets and rewrite token
streams.  Comments are dropped (they become whitespace); every token keeps the
whitespace that preceded it so that re-emitted text stays readable."""
import re

IDENT = re.compile(r"[A-Za-z_][A-Za-z0-9_]*")
NUM = re.compile(r"[0-9][0-9A-Za-z_]*(\.[0-9][0-9A-Za-z_]*)?")
PUNCT3 = ("<<=", ">>=", "...", "..=")
PUNCT2 = ("::", "->", "=>", "==", "!=", "<=", ">=", "&&", "||", "+=", "-=", "*=", "/=",
          "%=", "^=", "&=", "|=", "<<", ">>", "..")
OPEN = {"(": ")", "[": "]", "{": "}"}
CLOSE = {v: k for k, v in OPEN.items()}


class Tok:
    __slots__ = ("kind", "text", "ws", "line")

    def __init__(self, kind, text, ws, line):
        self.kind = kind  # id | num | str | char | life | punct
        self.text = text
        self.ws = ws
        self.line = line

    def __repr__(self):
        return "Tok(%s,%r)" % (self.kind, self.text)


class LexError(Exception):
    pass


def lex(src):
    toks = []
    i = 0
    n = len(src)
    ws = ""
    line = 1
    while i < n:
        c = src[i]
        if c in " \t\r\n":
            j = i
            while j < n and src[j] in " \t\r\n":
                j += 1
            ws += src[i:j]
            line += src.count("\n", i, j)
            i = j
            continue
        if src.startswith("//", i):
            j = src.find("\n", i)
            if j < 0:
                j = n
            ws += " "
            i = j
            continue
        if src.startswith("/*", i):
            depth = 1
            j = i + 2
            while j < n and depth:
                if src.startswith("/*", j):
                    depth += 1
                    j += 2
                elif src.startswith("*/", j):
                    depth -= 1
                    j += 2
                else:
                    j += 1
            line += src.count("\n", i, j)
            ws += " "
            i = j
            continue
        # raw strings / byte strings
        m = re.match(r"(b?r)(#*)\"", src[i:i + 40])
        if m:
            hashes = m.group(2)
            end = src.find('"' + hashes, i + len(m.group(0)))
            if end < 0:
                raise LexError("unterminated raw string at line %d" % line)
            j = end + 1 + len(hashes)
            toks.append(Tok("str", src[i:j], ws, line))
            line += src.count("\n", i, j)
            ws = ""
            i = j
            continue
        if c == '"' or (c == "b" and i + 1 < n and src[i + 1] == '"'):
            j = i + (2 if c == "b" else 1)
            while j < n and src[j] != '"':
                if src[j] == "\\":
                    j += 1
                j += 1
            j += 1
            toks.append(Tok("str", src[i:j], ws, line))
            line += src.count("\n", i, j)
            ws = ""
            i = j
            continue
        if c == "'" or (c == "b" and i + 1 < n and src[i + 1] == "'"):
            k = i + (1 if c == "b" else 0)
            # char literal or lifetime
            m = re.match(r"'(\\.[^']*|[^'\\])'", src[k:k + 12])
            if m:
                j = k + len(m.group(0))
                toks.append(Tok("char", src[i:j], ws, line))
                ws = ""
                i = j
                continue
            m = IDENT.match(src, k + 1)
            if m and c == "'":
                j = m.end()
                toks.append(Tok("life", src[i:j], ws, line))
                ws = ""
                i = j
                continue
            raise LexError("bad quote at line %d" % line)
        m = IDENT.match(src, i)
        if m:
            j = m.end()
            toks.append(Tok("id", src[i:j], ws, line))
            ws = ""
            i = j
            continue
        m = NUM.match(src, i)
        if m:
            j = m.end()
            # do not swallow `0..n` or `1.method()`
            text = src[i:j]
            if "." in text:
                dot = text.index(".")
                if src[i + dot + 1:i + dot + 2] == "." or IDENT.match(text[dot + 1:dot + 2] or " ") and not text[dot + 1].isdigit():
                    j = i + dot
                    text = src[i:j]
            toks.append(Tok("num", text, ws, line))
            ws = ""
            i = j
            continue
        for p in PUNCT3:
            if src.startswith(p, i):
                toks.append(Tok("punct", p, ws, line))
                ws = ""
                i += 3
                break
        else:
            for p in PUNCT2:
                if src.startswith(p, i):
                    toks.append(Tok("punct", p, ws, line))
                    ws = ""
                    i += 2
                    break
            else:
                toks.append(Tok("punct", c, ws, line))
                ws = ""
                i += 1
    return toks


def emit(toks):
    return "".join(t.ws + t.text for t in toks)


def emit_trim(toks):
    if not toks:
        return ""
    return toks[0].text + "".join(t.ws + t.text for t in toks[1:])


def match_close(toks, i):
    """toks[i] is an opening bracket; return index of its closing bracket."""
    depth = 0
    for j in range(i, len(toks)):
        t = toks[j]
        if t.kind == "punct":
            if t.text in OPEN:
                depth += 1
            elif t.text in CLOSE:
                depth -= 1
                if depth == 0:
                    return j
    raise LexError("unbalanced bracket starting at line %d" % toks[i].line)


def split_generic_shift(toks):
    """`>>` closes two generic lists; callers that balance `<`/`>` need them split."""
    out = []
    for t in toks:
        if t.kind == "punct" and t.text == ">>":
            out.append(Tok("punct", ">", t.ws, t.line))
            out.append(Tok("punct", ">", "", t.line))
        else:
            out.append(t)
    return out
