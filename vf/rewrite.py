"""Token-level rewriting: metavariable patterns, the fixed rule catalogue, loop
location, statement anchors."""
from .lexer import lex, Tok, OPEN, CLOSE, match_close, emit_trim


class RuleMismatch(Exception):
    pass


def parse_pattern(s):
    """returns list of items: ('tok', text) | ('var', name, kind)
    kinds: '' balanced non-empty without top-level ; , 'ident' single identifier,
    'opt' possibly empty balanced, 'any' balanced possibly containing `;`/`,`"""
    toks = lex(s)
    out = []
    i = 0
    while i < len(toks):
        t = toks[i]
        if t.text == "$" and i + 1 < len(toks) and toks[i + 1].kind == "id":
            name = toks[i + 1].text
            kind = ""
            i += 2
            if i + 1 < len(toks) and toks[i].text == ":" and toks[i + 1].kind == "id" and toks[i + 1].text in ("ident", "opt", "any", "expr", "lit", "chain"):
                kind = toks[i + 1].text
                i += 2
            out.append(("var", name, kind))
        else:
            out.append(("tok", t.text))
            i += 1
    return out


def _match_at(toks, i, pat, pi, binds):
    """try to match pat[pi:] at toks[i:]; returns end index or None. binds is mutated on success."""
    if pi == len(pat):
        return i
    p = pat[pi]
    if p[0] == "tok":
        if i < len(toks) and toks[i].text == p[1]:
            return _match_at(toks, i + 1, pat, pi + 1, binds)
        return None
    _, name, kind = p
    if kind == "ident":
        if i < len(toks) and toks[i].kind == "id":
            if name in binds and emit_trim(binds[name]) != toks[i].text:
                return None
            b = dict(binds)
            b[name] = [toks[i]]
            r = _match_at(toks, i + 1, pat, pi + 1, b)
            if r is not None:
                binds.clear()
                binds.update(b)
            return r
        return None
    if kind == "lit":
        if i < len(toks) and toks[i].kind in ("num", "str"):
            b = dict(binds)
            b[name] = [toks[i]]
            r = _match_at(toks, i + 1, pat, pi + 1, b)
            if r is not None:
                binds.clear()
                binds.update(b)
            return r
        return None
    if kind == "chain":
        if i >= len(toks):
            return None
        if i > 0 and toks[i - 1].text in (".", "::"):
            return None
        t = toks[i]
        if t.kind == "id" and t.text not in ("let", "mut", "if", "else", "match", "return", "in", "for", "while", "as"):
            j = i + 1
        elif t.text == "(":
            if i > 0 and (toks[i - 1].kind == "id" or toks[i - 1].text in (")", "]", ">", "!")):
                return None
            j = match_close(toks, i) + 1
        elif t.kind in ("num", "str"):
            j = i + 1
        else:
            return None
        ends = []
        while True:
            ends.append(j)
            if j >= len(toks):
                break
            x = toks[j]
            if x.text in (".",) and j + 1 < len(toks) and toks[j + 1].kind in ("id", "num"):
                j += 2
            elif x.text == "::" and j + 1 < len(toks) and toks[j + 1].kind == "id":
                j += 2
            elif x.text in ("(", "["):
                j = match_close(toks, j) + 1
            elif x.text == "?":
                j += 1
            else:
                break
        for e in ends:
            b = dict(binds)
            b[name] = toks[i:e]
            r = _match_at(toks, e, pat, pi + 1, b)
            if r is not None:
                binds.clear()
                binds.update(b)
                return r
        return None
    # balanced sequence, shortest first
    j = i
    min_len = 0 if kind == "opt" else 1
    while True:
        if j - i >= min_len:
            b = dict(binds)
            if name in b:
                if emit_trim(b[name]) != emit_trim(toks[i:j]):
                    pass
                else:
                    r = _match_at(toks, j, pat, pi + 1, b)
                    if r is not None:
                        binds.clear()
                        binds.update(b)
                        return r
            else:
                b[name] = toks[i:j]
                r = _match_at(toks, j, pat, pi + 1, b)
                if r is not None:
                    binds.clear()
                    binds.update(b)
                    return r
        if j >= len(toks):
            return None
        t = toks[j]
        if t.kind == "punct" and t.text in CLOSE:
            return None
        if t.kind == "punct" and t.text == ";" and kind != "any":
            return None
        if t.kind == "punct" and t.text == "," and kind == "expr":
            return None
        if t.kind == "punct" and t.text in OPEN:
            try:
                j = match_close(toks, j) + 1
            except Exception:
                return None
        else:
            j += 1


def find_matches(toks, pattern):
    pat = parse_pattern(pattern) if isinstance(pattern, str) else pattern
    res = []
    i = 0
    while i < len(toks):
        binds = {}
        e = _match_at(toks, i, pat, 0, binds)
        if e is not None and e > i:
            res.append((i, e, binds))
            i = e
        else:
            i += 1
    return res


def instantiate(template, binds, ws=" "):
    out = template
    # longest names first to avoid prefix clashes
    for name in sorted(binds, key=len, reverse=True):
        out = out.replace("$" + name, emit_trim(binds[name]))
    return out


def rewrite(toks, pattern, template, count=None, what=""):
    """replace every match; count: None (any number), int (exact) or '+' (at least one)"""
    ms = find_matches(toks, pattern)
    if count == "+" and not ms:
        raise RuleMismatch("rule %s: pattern `%s` not found" % (what, pattern))
    if count == "?" and len(ms) > 1:
        raise RuleMismatch("rule %s: pattern `%s` matched %d times, expected at most 1" % (what, pattern, len(ms)))
    if isinstance(count, int) and len(ms) != count:
        raise RuleMismatch("rule %s: pattern `%s` matched %d times, expected %d" % (what, pattern, len(ms), count))
    if not ms:
        return toks, 0
    out = []
    last = 0
    for (s, e, binds) in ms:
        out += toks[last:s]
        rep = lex(instantiate(template, binds))
        if rep:
            rep[0].ws = toks[s].ws
        out += rep
        last = e
    out += toks[last:]
    return out, len(ms)


LOG_MACROS = ("trace", "debug", "info", "warn", "error")


def rule_R0(toks):
    """delete logging statements `trace!(..);` etc."""
    out = []
    i = 0
    n = 0
    while i < len(toks):
        t = toks[i]
        if (t.kind == "id" and t.text in LOG_MACROS and i + 2 < len(toks) and toks[i + 1].text == "!"
                and toks[i + 2].text == "(" and (i == 0 or toks[i - 1].text in (";", "{", "}", "=>"))):
            c = match_close(toks, i + 2)
            if c + 1 < len(toks) and toks[c + 1].text == ";":
                i = c + 2
                n += 1
                continue
            if toks[i - 1].text == "=>":
                # match arm `pat => warn!(..),` → `pat => {},`
                out += lex(" {}")
                i = c + 1
                n += 1
                continue
            if c + 1 < len(toks) and toks[c + 1].text == "}":
                i = c + 1
                n += 1
                continue
        out.append(t)
        i += 1
    return out, n


def rule_R1(toks):
    n = 0
    # (macro `expr` fragments are substituted as a unit, hence the parentheses)
    for pat, tmpl in (("iterate!($X, $n:expr)", "($X).iter()"),
                      ("iterate_mut!($X)", "($X).iter_mut()"),
                      ("drain!($X, $n:expr)", "($X).drain(..)")):
        toks, k = rewrite(toks, pat, tmpl)
        n += k
    return toks, n


def rule_R5(toks):
    n = 0
    for a, b in (("AHashMap", "HashMap"), ("AHashSet", "HashSet")):
        for t in toks:
            if t.kind == "id" and t.text == a:
                t.text = b
                n += 1
    return toks, n


# R6: std calls without a vstd spec → spec'd wrappers (bodies are the original call)
R6_TABLE = [
    ("u64::from_be_bytes($X)", "be_u64($X)"),
    ("u32::from_be_bytes($X)", "be_u32($X)"),
    ("u16::from_be_bytes($X)", "be_u16($X)"),
    ("u128::from_be_bytes($X)", "be_u128($X)"),
    ("Timestamp::from_be_bytes($X)", "be_u64($X)"),
    ("Currency::from_be_bytes($X)", "be_u64($X)"),
    ("BlockId::from_be_bytes($X)", "be_u64($X)"),
    ("PeerIndex::from_be_bytes($X)", "be_u64($X)"),
]


def rule_R6(toks):
    n = 0
    for pat, tmpl in R6_TABLE:
        toks, k = rewrite(toks, pat, tmpl)
        n += k
    return toks, n


def split_commas(toks):
    out, cur, depth = [], [], 0
    for t in toks:
        if t.kind == "punct" and t.text in OPEN:
            depth += 1
        elif t.kind == "punct" and t.text in CLOSE:
            depth -= 1
        elif t.text == "," and depth == 0:
            if cur:
                out.append(cur)
            cur = []
            continue
        cur.append(t)
    if cur:
        out.append(cur)
    return out


def rule_concat(toks):
    """`[e1, e2, ..].concat()` → `{ let mut vcat: Vec<u8> = Vec::new(); vext(&mut vcat, e1); ..; vcat }`
    (definition of <[&[u8]]>::concat: flatten in order)"""
    out = []
    i = 0
    n = 0
    while i < len(toks):
        t = toks[i]
        if t.text == "[" and (i == 0 or toks[i - 1].kind == "punct" and toks[i - 1].text not in (")", "]")):
            c = match_close(toks, i)
            if c + 4 < len(toks) + 1 and [x.text for x in toks[c + 1:c + 5]] == [".", "concat", "(", ")"]:
                elems = split_commas(toks[i + 1:c])
                elems = [rule_concat(e)[0] for e in elems]
                txt = "{ let mut vcat: Vec<u8> = Vec::new(); " + " ".join("vext(&mut vcat, %s);" % emit_trim(e) for e in elems) + " vcat }"
                rep = lex(txt)
                rep[0].ws = t.ws
                out += rep
                i = c + 5
                n += 1
                continue
        out.append(t)
        i += 1
    return out, n


def rule_bytes(toks):
    """std byte-level calls without a vstd spec → spec'd wrappers whose bodies are the original call"""
    n = 0
    for pat, tmpl in (
        ("$x:chain.to_be_bytes()", "vbe(&$x)"),
        ("($x).to_be_bytes()", "vbe(&($x))"),
        ("$x:chain.try_into()", "vtry_into(&$x)"),
    ):
        toks, k = rewrite(toks, pat, tmpl)
        n += k
    toks, k = rule_R6(toks)
    n += k
    toks, k = rule_concat(toks)
    return toks, n + k


def rule_assert(toks):
    """runtime assertions become proof obligations: a reachable failing assert is a panic"""
    n = 0
    for pat, tmpl in (
        ("assert_eq!($a:expr, $b:expr)", "vassert($a == $b)"),
        ("assert_eq!($a:expr, $b:expr, $m:any)", "vassert($a == $b)"),
        ("assert_ne!($a:expr, $b:expr)", "vassert($a != $b)"),
        ("assert_ne!($a:expr, $b:expr, $m:any)", "vassert($a != $b)"),
        ("assert!($a:expr)", "vassert($a)"),
        ("assert!($a:expr, $m:any)", "vassert($a)"),
        ("unreachable!($m:opt)", "vunreachable()"),
        ("panic!($m:opt)", "vunreachable()"),
        ("todo!($m:opt)", "vunreachable()"),
    ):
        toks, k = rewrite(toks, pat, tmpl)
        n += k
    return toks, n


def rule_mapconcat(toks):
    """R3: `X.iter().map(|p| E).collect::<Vec<_>>().concat()` → accumulate loop (definition of map/collect/concat)"""
    return rewrite(toks, "$X:chain.iter().map(|$p:ident| $E).collect::<Vec<_>>().concat()",
                   "{ let mut vacc: Vec<u8> = Vec::new(); for $p in vit: $X.iter() { let vpart = $E; vext(&mut vacc, vpart.as_slice()); } vacc }")


def rule_extend(toks):
    """`v.extend(e);` on byte vectors → `vext(&mut v, e.as_slice())` (Extend<u8>/Extend<&u8> append in order)"""
    return rewrite(toks, "$v:chain.extend($e);", "{ let vtmp = $e; vext(&mut $v, vtmp.as_slice()); }")


def rule_itermut(toks):
    """R2: `for p in X.iter_mut() {` → index loop over the same container in the same order"""
    toks, n1 = rewrite(toks, "for $p:ident in $X:chain.iter_mut().take($n) {",
                       "let mut vk: usize = 0; while vk < $X.len() && vk < $n { let ghost vpre = $X@; let $p = &mut $X[vk]; vk += 1;")
    toks, n2 = rewrite(toks, "for $p:ident in $X:chain.iter_mut().skip($n) {",
                       "let mut vk: usize = $n; while vk < $X.len() { let ghost vpre = $X@; let $p = &mut $X[vk]; vk += 1;")
    toks, n3 = rewrite(toks, "for $p:ident in $X:chain.iter_mut() {",
                       "let mut vk: usize = 0; while vk < $X.len() { let ghost vpre = $X@; let $p = &mut $X[vk]; vk += 1;")
    return toks, n1 + n2 + n3


def rule_any(toks):
    """R4: `X.iter().any(|p| E)` → loop with early exit (definition of Iterator::any)"""
    return rewrite(toks, "$X:chain.iter().any(|$p:ident| $E)",
                   "{ let mut vfound = false; for $p in vit: $X.iter() { if $E { vfound = true; break; } } vfound }")


def rule_position(toks):
    """R4: `X.iter().position(|p| E)` → index loop with early exit (definition of Iterator::position)"""
    return rewrite(toks, "$X:chain.iter().position(|$p:ident| $E)",
                   "{ let mut vpos: Option<usize> = None; for vi in 0..$X.len() { let $p = &$X[vi]; if $E { vpos = Some(vi); break; } } vpos }")


def rule_nameiter(toks):
    """give `for p in X.iter()` loops a ghost iterator name so invariants can refer to the position"""
    return rewrite(toks, "for $p:ident in $X:chain.iter() {", "for $p in vit: $X.iter() {")


NAMED_RULES = {"Rnameiter": rule_nameiter, "Rposition": rule_position, "Rany": rule_any, "Ritermut": rule_itermut, "Rmapconcat": rule_mapconcat, "Rextend": rule_extend, "Rassert": rule_assert, "Rconcat": rule_concat, "Rbytes": rule_bytes, "R0": rule_R0, "R1": rule_R1, "R5": rule_R5, "R6": rule_R6}


def loops(toks):
    """indices of the body-opening `{` of each for/while/loop in textual order"""
    out = []
    for i, t in enumerate(toks):
        if t.kind == "id" and t.text in ("for", "while", "loop"):
            if t.text == "for" and i + 1 < len(toks) and toks[i + 1].text == "<":
                continue
            # preceded by `.`? (method named loop) no
            j = i + 1
            depth = 0
            while j < len(toks):
                x = toks[j]
                if x.text in ("(", "["):
                    depth += 1
                elif x.text in (")", "]"):
                    depth -= 1
                elif x.text == "{" and depth == 0:
                    break
                j += 1
            out.append((i, j))
    return out


def nth_closure(toks, n):
    """locate the n-th (1-based) closure literal `|args| body` / `move |args| body`.
    returns (start, args_lo, args_hi, body_lo, body_hi) token indices; body_hi exclusive"""
    k = 0
    i = 0
    while i < len(toks):
        t = toks[i]
        is_start = False
        if t.text in ("|", "||") and t.kind == "punct":
            prev = toks[i - 1] if i > 0 else None
            if prev is None or prev.text in ("(", ",", "=", "move", "{", ";", "=>", "return"):
                is_start = True
        if is_start:
            k += 1
            start = i - 1 if (i > 0 and toks[i - 1].text == "move") else i
            if t.text == "||":
                a_lo = a_hi = i + 1
                b_lo = i + 1
            else:
                j = i + 1
                depth = 0
                while not (toks[j].text == "|" and depth == 0):
                    if toks[j].text in OPEN:
                        depth += 1
                    elif toks[j].text in CLOSE:
                        depth -= 1
                    j += 1
                a_lo, a_hi = i + 1, j
                b_lo = j + 1
            # body: block or expression up to `,`/`)` at depth 0
            if toks[b_lo].text == "{":
                b_hi = match_close(toks, b_lo) + 1
            elif toks[b_lo].text == "->":
                j = b_lo
                while toks[j].text != "{":
                    j += 1
                b_lo = j
                b_hi = match_close(toks, j) + 1
            else:
                j = b_lo
                while j < len(toks):
                    x = toks[j]
                    if x.text in OPEN:
                        j = match_close(toks, j) + 1
                        continue
                    if x.text in CLOSE or x.text in (",", ";"):
                        break
                    j += 1
                b_hi = j
            if k == n:
                return start, a_lo, a_hi, b_lo, b_hi
            i = b_lo
            continue
        i += 1
    raise RuleMismatch("closure #%d not found" % n)


def stmt_end(toks, i):
    """index just after the `;` (or closing `}` of a block statement) that ends the statement containing token i"""
    j = i
    while j < len(toks):
        t = toks[j]
        if t.text in OPEN:
            j = match_close(toks, j)
            if t.text == "{" and (j + 1 >= len(toks) or toks[j + 1].text not in (";", ".", "?", ")", ",", "else")):
                return j + 1
            j += 1
            continue
        if t.text == ";":
            return j + 1
        if t.text in CLOSE:
            return j
        j += 1
    return j


def stmt_start(toks, i):
    """index of the first token of the statement containing token i (walk back to the previous `;`, `{` or `}` at the
    same nesting depth)"""
    depth = 0
    j = i - 1
    while j >= 0:
        t = toks[j]
        if t.kind == "raw":
            j -= 1
            continue
        if t.text in CLOSE:
            depth += 1
        elif t.text in OPEN:
            if depth == 0:
                return j + 1
            depth -= 1
        elif t.text == ";" and depth == 0:
            return j + 1
        elif t.text == "}" and depth == 0:
            return j + 1
        j -= 1
    return 0
