"""Kani on the extracted single file (never on the whole crate: 170x slower)."""
import os
import re
import subprocess
import time
from . import run as R

ROOT = os.path.dirname(os.path.dirname(os.path.abspath(__file__)))
BUILD = os.path.join(ROOT, "build")


def run_harness(h):
    """h: {name, unit, harness, fn, label, [bound], [timeout], [args]}"""
    try:
        g = R.generate(h["unit"])
    except R.Undecided as e:
        return {"name": h["name"], "status": "undecided", "why": str(e)}
    d = os.path.join(BUILD, "kani", h["name"])
    os.makedirs(d, exist_ok=True)
    path = os.path.join(d, h["unit"] + ".rs")
    with open(path, "w") as f:
        f.write(g.text())
    cmd = ["kani", path, "--harness", h["harness"]] + h.get("args", [])
    env = dict(os.environ)
    env["CARGO_NET_OFFLINE"] = "true"
    env.pop("RUSTUP_TOOLCHAIN", None)
    t0 = time.time()
    try:
        p = subprocess.run(cmd, cwd=d, env=env, stdout=subprocess.PIPE, stderr=subprocess.STDOUT, text=True, timeout=h.get("timeout", 1200))
        out = p.stdout
    except subprocess.TimeoutExpired as e:
        return {"name": h["name"], "status": "undecided", "why": "timeout", "output": (e.stdout or "")[-2000:] if isinstance(e.stdout, str) else ""}
    wall = time.time() - t0
    res = {"name": h["name"], "harness": h["harness"], "unit": h["unit"], "wall": round(wall, 1), "cmd": " ".join(cmd),
           "bound": h.get("bound", "none (loop-free, complete)"), "output": out}
    if "VERIFICATION:- SUCCESSFUL" in out:
        res["status"] = "ok"
        m = re.search(r"\*\* (\d+) of (\d+) failed", out)
        m2 = re.search(r"(\d+) of (\d+) cover", out)
        res["checks"] = int(m.group(2)) if m else None
    elif "VERIFICATION:- FAILED" in out:
        res["status"] = "failed"
        res["failed_checks"] = re.findall(r"Failed Checks: (.*)", out)
    else:
        res["status"] = "undecided"
        res["why"] = "kani did not reach a verdict: " + out[-1500:]
    return res
